#!/usr/bin/env python3
"""Regenerates MANIFEST.json from the table below (kept next to the checks so that the
manifest is always valid and in step with what is implemented)."""
import json, subprocess

CLAIMED = {
 "C01": dict(cat="exploration", technique="reference-model monitor over generated executions (library API + CLI)",
   text="Runs the real engine (patch.Parse/Apply in worker subprocesses, and the freshly built CLI) on thousands of (pattern, file) pairs with planted instances and token-level near-misses: random expression patterns, the schema library, patterns abstracted from generated code fragments (every node kind the file generator produces, on the matcher and the replacer side), patterns abstracted from fragments of standard-library files and applied to those files, and variants whose patch also adds an import; and judges every output with an independent executable reference semantics (canonical go/ast trees, backtracking unifier, acceptable-output sets). Exploration is the right level: the quantifier is unbounded, what can be shown is that the property held on the K distinct pattern/site configurations that were executed.",
   note="Trusted: go/parser, go/printer, the reference model in harness/ref (triaged against the docs; disagreements logged in DESIGN.md section 8). Nested and later instances are don't-care. Patterns stay inside the generated fragment (no top-level func literals, no [...]T, no variadic spread of non-identifiers, no leading '{'). A rewrite the reference expects but go/printer cannot print as valid Go (checked by printing the expected tree) is inconclusive when the engine reports an error, as C07 demands.",
   ref="5/C01"),
 "C02": dict(cat="exploration", technique="reference-model monitor + reference-free metamorphic relation (binding leak) over generated executions",
   text="19 templates with repeated / kind-constrained metavariables are instantiated with per-occurrence fillers in controlled relations (equal, equal modulo comments, one leaf different, parenthesised copy, deeper copy, non-identifier for an identifier metavariable, absent label) and run through the real engine; outputs are judged by the reference model. A second, reference-free monitor checks that a failing partial match placed before a site changes neither the site's rewrite nor itself. A kind census binds an expression (and an identifier) metavariable, in six pattern positions, to at least one filler of every go/ast expression node type (value and type expressions, incl. multi-argument generic instantiations).",
   note="Trusted: go/parser, go/printer, reference model. 'Syntactically identical' = equal canonical trees with parentheses significant.", ref="5/C02"),
 "C03": dict(cat="exploration", technique="reference-model monitor: instantiate('+', bindings of that site) vs re-parsed engine output",
   text="'+' sides that use each metavariable 0-3 times, reordered, under higher-precedence operators and inside elided lists are applied to files with 1-8 differently bound sites; plus misfit streams (identifier->selector in name-only slots, call->non-call under go/defer: 'unchanged' required) an aliasing stream (a later change rewrites one of two copies) and a generated-siblings stream (a later change rewrites several operands an earlier change generated at one collapsed position, each with its own binding). Every output is compared with the reference instantiation site by site.",
   note="Trusted: go/parser, go/printer, reference model; slot admissibility = go/ast slot typing. Replacements that expose a composite literal in an if/for/switch header are judged by C07, not here (counted as inconclusive).", ref="5/C03"),
 "C04": dict(cat="exploration", technique="exhaustive small-scope table judged by a backtracking reference list matcher",
   text="For 12 list kinds, every pattern word over {a, b, x, y, ...} of length<=4 with 1-3 elisions, every word of length 5-6 with 2-3 elisions in which a metavariable occurs twice (the tail's match depends on the earlier binding) and words with long explicit sections are run against every list over {a,b,c} of length 0-5 (and {a,b} up to 8) - exhaustive in that sub-space in the thorough tier - plus random longer lists, 'for ... {' against all loop-header shapes (plain and labelled loops) and the schema library's elision patterns (context-line elisions reused on '+' lines) on generated files; the real engine's output for each batch is compared with the reference (match iff some choice of runs works; runs reproduced complete, in order, leftmost-shortest).",
   note="Exhaustive only inside the enumerated bounds; elements are atoms; elision layouts are the two pairing situations the statement defines (context-line elisions, or one elision per side).", ref="5/C04"),
 "C05": dict(cat="exploration", technique="reference-located sites + per-declaration canonical equality on real-world and generated surroundings",
   text="27 patterns that occur in real code, and patterns abstracted from a fragment of the file itself, are applied to a seed-determined sample of the Go standard library (~6800 files present offline), and random patterns to generated files of 20-60 declarations; a fifth of the patches also add an import (a file without imports gets a new first declaration); for every run the monitor checks package clause, import set, number and order of declarations, canonical identity of every declaration in which the reference finds no instance, and the reference expectation for declarations with sites. Library API and in-place CLI.",
   note="Trusted: go/parser; canonical trees ignore layout/comments/redundant parentheses; engine errors are left to C03/C07 (inconclusive here).", ref="5/C05"),
 "C17": dict(cat="exploration", technique="comment-attribution monitor (per-declaration comment lists + global multiset) over generated and real files",
   text="Comment-dense generated files and standard-library files are rewritten by 12 patches (elided statement patterns, signature-changing declaration patterns, multi-change patches) through API and CLI; comments are attributed to top-level declarations by source interval on both sides and compared for every declaration whose syntax is canonically unchanged; header comments and global multiset inclusion are checked for every run.",
   note="Import declarations only take part in the multiset check; a detached comment must survive only when both neighbouring declarations are untouched (the statement speaks of doc, interior and trailing comments).", ref="5/C17"),
 "C09": dict(cat="exploration", technique="metamorphic monitor: combined run vs chain of single-change in-place CLI runs; all deliveries (-p, -P, stdin, API) byte-equal",
   text="Sequences of 2-5 changes (chains where change k+1 only matches code produced by k, sub-pattern members that rewrite several wrappers the previous change generated, members that spell a list an elision may have left empty as a literal empty list, killers, independent, no-op and failing members) are run once combined and once as a chain of separate in-place runs on scratch copies; canonical trees must agree, a failing step must make the combined run fail and leave the file byte-identical, and the five CLI deliveries plus the library API must agree byte for byte.",
   note="Stated bounds (DESIGN 5/C09): no explicit parentheses in patterns/sources, metavariables only in argument slots, no imports; inside them equality is demanded exactly. No reference model involved.", ref="5/C09"),
 "C13": dict(cat="exploration", technique="metamorphic monitor over layout variants of one patch (API outputs as canonical trees; CLI stderr descriptions)",
   text="Each base patch (random patterns, schema library, the repository's testdata patches with their inputs) is re-laid out by 10 compositions of the transformations the statement lists; every variant must be accepted iff the base is and give canonically the same output on every file; '#' lines directly above the header, and only those, must be printed as the description.",
   note="Only transformations named in the property statement are generated; description text compared modulo leading '#'/blanks.", ref="5/C13"),
 "C10": dict(cat="exploration", technique="exhaustive guard table (63360 cells) run through the real engine, judged by the statement's table",
   text="The full cross product of patch-side import forms, file-side forms (incl. a path imported twice, dot and blank imports), a second guard import, import block shapes, package clause variants (incl. renames), guard-line prefixes, kind of the code pattern behind the guards (expression, expression replaced by several statements, statement, declaration) and package of the file (pk / pk_test) is enumerated; each cell is a file in which the code pattern occurs, and the monitor checks 'applied iff every guard holds' and, when applied, that the package clause is the file's own (or the renamed one). Library API for all cells, CLI for every 8th batch.",
   note="Exhaustive for the enumerated dimensions only (four code patterns, one path per guard); 'stated form' for a path imported twice: any spec may satisfy the guard.", ref="5/C10"),
 "C11": dict(cat="exploration", technique="import-set effect monitor over generated import blocks (input vs output (name,path) sets and remaining selector uses)",
   text="11 import-manipulating patches (each also over import paths whose last element looks like a version, .../core/v1) are applied to files whose import blocks contain the affected import in every form plus 0-8 unrelated imports in every block shape, with and without remaining uses; the monitor compares input and output import sets: unmentioned imports unchanged, nothing added, '+' imports present under the right name, '-' imports gone iff unreferenced or taken over, referenced matched imports kept.",
   note="Package name of an import = explicit name, else last path element (files are generated so that they coincide). Context-line imports that become unreferenced are don't-care.", ref="5/C11"),
 "C06": dict(cat="exploration", technique="filesystem-digest + stdout/stderr/exit oracle + strace syscall monitor over runs with files that cannot match",
   text="CLI runs over 3-8 files where some or all files cannot match (anchor identifier absent, failing package/import guard with the code pattern present, near-misses), in 12 layouts (incl. CRLF, no final newline, byte order mark, a line > 64 KiB, //line directive) plus standard-library files, in all output modes and flag combinations; monitors: per-file digest (bytes, inode, mtime, ctime, mode) before/after, no stdout/stderr/diff/description for the file, --print-only echoes the original bytes, exit 0, Apply(src)==src, and (every 8th run) a strace event log with no write-class syscall on an unmatched file.",
   note="'Cannot match' is established syntactically without the reference model. -v log lines are allowed on stdout.", ref="5/C06"),
 "C12": dict(cat="exploration", technique="strace syscall monitor + tree digest for dry runs; byte agreement of in-place / --print-only / applied --diff / library outputs",
   text="The same (patch, files, flags) inputs are run in place, with --print-only, with --diff and with both dry-run flags together on separate scratch copies (dry runs under strace -f every 4th case) and through the library: the classified syscall log of a dry run must contain no mutating call anywhere, the tree digest must be unchanged, and the four outputs must agree byte for byte (diffs applied by a strict unified-diff applier); descriptions only on stderr and only for rewritten files.",
   note="Three known findings in --diff mode (CRLF input, missing final newline, line > 64 KiB), root cause in github.com/pkg/diff: listed in known_findings.json by class signature.", ref="5/C12"),
 "C15": dict(cat="exploration", technique="three independent observations (rewrite count in file bytes, -v log order, strace open/write event log) vs a transcription of the statement",
   text="Random directory trees with excluded directory names at any depth, look-alike names, symlinks, non-Go files, and argument lists with overlaps/duplicates/absolute/'...' forms; every .go file carries one site of a non-idempotent patch so the number of times it was processed is readable from its bytes; the -v log gives the processed set and order; every 5th run a strace log gives exactly-once read/modify per model file and sorted order.",
   note="cwd never has an excluded name; symlinks named explicitly are not processed (the statement: 'no symlinks').", ref="5/C15"),
 "C16": dict(cat="fault_enumeration", technique="fault injection at the process boundary (RLIMIT_FSIZE sweep, strace syscall error and SIGKILL injection, input-borne failures) + post-run file classifier and stderr/exit oracle",
   text="Every fault point of the enumeration (write cut after k bytes for a sweep of k; each write-path syscall failing with EIO/ENOSPC/EACCES/EDQUOT at its n-th call; the process killed at those calls; per-file and per-patch input failures at every position of a multi-file run, incl. a missing path before good ones and two missing paths; double faults: no temporary file can be created (over-long target name, or the n-th openat fails) while writes are cut short) is executed against the real CLI on scratch copies; afterwards every *.go file must hold its original or its complete patched bytes (baseline from a fault-free run), exit status and stderr must report path and cause, and other files' results must be unaffected.",
   note="Whether a fault fired is read from the strace log (INJECTED marker / kill); GOMAXPROCS=1 so that strace's per-thread counter is meaningful. A fault that hits gopatch's own write to stderr makes the diagnostic unobservable and is only classified for file integrity.", ref="5/C16"),
 "C18": dict(cat="exploration", technique="exhaustive header table (4800 cells, flag off and on) through the CLI with digest/stdout/stderr monitors, judged by a three-valued reference predicate",
   text="Every combination of marker spelling (well-formed and 15 near-misses), comment form, position (package doc, detached, after the package clause, in a function, end of file), companions (licence header, build tag), output mode and match/no-match is run with and without --skip-generated; must-skip cells must be completely untouched and silent, must-process cells byte-identical to the flag-off run, flag-off runs unaffected by the marker.",
   note="Exhaustive for the enumerated grammar; don't-care cells (detached '@generated', marker text inside a block comment) accept either behaviour.", ref="5/C18"),
 "C19": dict(cat="exploration", technique="fault injection into valid patches with a position oracle (injector knows the corrupted token's byte offset)",
   text="One header or metavariable fault of 16 kinds is injected at a random change of a 1-5 change patch with comment/blank lines, tabs and multi-byte characters before it; the diagnostic (patch.Parse error, CLI stderr via -p relative/absolute and stdin) must contain '<patch>:<line>:<byte column>' of the offending token, exit must be non-zero, the patch file must be named, and the target file must not change.",
   note="Byte columns as go/token counts them; for a missing type the offending token is the end of the line.", ref="5/C19"),
 "C07": dict(cat="exploration", technique="go/parser oracle on every emitted content (written, printed, diff-applied, returned) over misfit and random patches in all modes and flags",
   text="11 patches that compile but splice code where it does not fit, each with a file on which the result is unparseable and one on which it is fine, plus random patterns, are run in place, with --print-only, with --diff (printed diff applied) and through the library, crossed with --skip-import-processing, --skip-generated and -v; every emitted content is parsed the way gopatch parses its inputs; success with unparseable content, or a failure that still emitted it, is a violation, and good files next to a misfit must still be processed.",
   note="The semantic checks C01-C05 additionally flag any unparseable output they see.", ref="5/C07"),
 "C08": dict(cat="exploration", technique="mutation/grammar fuzzing in supervised worker subprocesses (BEGIN/END protocol, panic recovery, CPU-time and RSS watchdogs, solo re-run under RLIMIT_CPU) + CLI exit/stderr classifier",
   text="Every patch of testdata/, examples/ and the harness' schema libraries is mutated (truncation, token insertion/replacement, span/line deletion, duplication, swaps, prefix flips, random bytes), complemented by grammar-generated ill-typed patches and random strings; accepted patches are applied to 12 construct-covering targets. Panics, fatal errors, exit statuses other than 0/1, CPU exhaustion (decided on CPU time, confirmed alone under RLIMIT_CPU) and memory blow-up are violations, de-duplicated by top in-repo frame.",
   note="Hangs are decided on consumed CPU time, never wall-clock; a wall-clock watchdog only makes a run inconclusive (exit 2).", ref="5/C08"),
 "C14": dict(cat="exploration", technique="Go race detector (harness + CLI built -race) + per-operation comparison with the stateless solo model + reflect immutability fingerprint of the parsed patch",
   text="One parsed patch is shared by 2-24 goroutines released from a barrier, each making 4-13 Apply calls over a shuffled mix of files (with sites, without, unparseable, generated) at GOMAXPROCS 1/4/16, followed by sequential permutations; the CLI (-race) processes the same file set solo, grouped, in shuffled orders, with duplicates, under relative and absolute spellings of the same file, via the directory, and next to a file whose rewrite is rejected. Violations: any race-detector report, any result different from the solo result F(file), any change of the deep fingerprint of *patch.File.",
   note="The sequential model is stateless (Apply is specified to be pure), so linearizability reduces to a per-operation check and no history checker is needed. Overlap is measured (overlapping call pairs reported in the evidence), never used for a verdict.", ref="5/C14"),
#NEXT
}

NOT_YET = {}
for i in range(1, 20):
    pid = "C%02d" % i
    if pid not in CLAIMED:
        NOT_YET[pid] = "check not built yet in this commit (runtime-monitoring design in DESIGN.md section 5); will be claimed once its monitor is silent on the unchanged tree"

def main():
    checks = []
    for pid in sorted(CLAIMED):
        c = CLAIMED[pid]
        checks.append({
            "property_id": pid,
            "quick_cmd": "./check %s quick" % pid,
            "thorough_cmd": "./check %s thorough" % pid,
            "evidence_file": "/verif/evidence/%s.json" % pid,
            "replay_cmd_template": "./check %s --replay {path}" % pid,
            "engine": "vcheck",
            "level_claimed": {"category": c["cat"], "text": c["text"], "design_ref": "DESIGN.md section " + c["ref"]},
            "level_note": c["note"],
            "technique": c["technique"],
        })
    hooks_commits = []
    m = {
        "version": 1,
        "setup_cmd": "./check --setup",
        "hooks": {
            "guard": "verif",
            "enable": "go build -tags verif (no file in /repo carries the tag today: every monitor observes at the process/API boundary, so guard-on and guard-off builds are identical)",
            "baseline_off_cmd": "cd /repo && GOFLAGS=-mod=mod GOPROXY=off GOSUMDB=off GOTOOLCHAIN=local go test -json -vet=off -count=1 -timeout 25m ./...",
            "source_commits": hooks_commits,
            "add_only": True,
        },
        "engines": [{"name": "vcheck", "path": "/verif/harness", "serves_properties": sorted(CLAIMED),
                     "kind_free_text": "Go harness: seeded workload generators, worker subprocesses running the real library and CLI, reference-model / metamorphic / syscall / race-detector monitors, evidence writer"}],
        "checks": checks,
        "notes": "Runtime monitoring only. Exit 0 = held on everything explored, 1 = VIOLATION line, 2 = inconclusive (observed too little / watchdog), 3 = build failure. Known findings: /verif/known_findings.json.",
        "not_applicable": [{"property_id": k, "reason": v} for k, v in sorted(NOT_YET.items())],
    }
    json.dump(m, open("/verif/MANIFEST.json", "w"), indent=1)
    print("MANIFEST.json: %d checks, %d not_applicable" % (len(checks), len(NOT_YET)))

main()
