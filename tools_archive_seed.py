#!/usr/bin/env python3
"""usage: tools_archive_seed.py <seedroot> <tag> <dir-name> <property> <json: needs/caught_by/...>
Copies <seedroot>/out<tag>/{patch.diff,patch.orig.diff,demo.sh,notes.md} to /verif/seeded/<dir-name>/ and writes meta.json."""
import sys, os, json, shutil, subprocess
root, tag, name, prop, extra = sys.argv[1], sys.argv[2], sys.argv[3], sys.argv[4], json.loads(sys.argv[5])
src = os.path.join(root, "out" + tag)
dst = "/verif/seeded/" + name
os.makedirs(dst, exist_ok=True)
for f in ("patch.diff", "patch.orig.diff", "demo.sh", "notes.md", "demo_test.go"):
    if os.path.exists(os.path.join(src, f)):
        shutil.copy(os.path.join(src, f), os.path.join(dst, f))
ok = subprocess.run(["git", "-C", "/repo", "apply", "--check", os.path.join(dst, "patch.diff")], capture_output=True).returncode == 0
meta = {"property": prop, "author": "independent sub-agent given only the property text (with its anchors) and a scratch worktree",
        "head_when_archived": subprocess.run(["git", "-C", "/repo", "rev-parse", "--short", "HEAD"], capture_output=True, text=True).stdout.strip(),
        "applies_to_current_repo_head": ok}
meta.update(extra)
json.dump(meta, open(os.path.join(dst, "meta.json"), "w"), indent=1)
print(dst, "applies:", ok)
