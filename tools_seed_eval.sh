#!/bin/bash
# usage: tools_seed_eval.sh <tag> <check ids...>      e.g. tools_seed_eval.sh 55a C16 C12
# Evaluates the seeded change $SEEDROOT/out<tag>/patch.diff (SEEDROOT defaults to /tmp/seed) in a scratch worktree $SEEDROOT/ev<tag> of /repo's HEAD:
#  1. confirms it (builds, whole suite passes, demo.sh exits 1 with the change and 0 without),
#  2. runs the named checks (quick) against that worktree (VERIF_REPO) with output redirected (VERIF_OUT), so /repo and
#     /verif/evidence are not touched,
#  3. removes the worktree and the build output. Logs stay in /tmp/seed/evlog/<tag>/.
export GOFLAGS=-mod=mod GOPROXY=off GOSUMDB=off GOTOOLCHAIN=local
TAG=$1; shift
R=${SEEDROOT:-/tmp/seed}
OUT=$R/out$TAG; EV=$R/ev$TAG; EO=$R/evout$TAG; LOG=$R/evlog/$TAG
[ -f $OUT/patch.diff ] || { echo "no patch.diff in $OUT"; exit 2; }
mkdir -p $LOG; rm -rf $EO; mkdir -p $EO
git -C /repo worktree remove --force $EV 2>/dev/null
git -C /repo worktree add -q --detach $EV ${SEED_BASE:-HEAD} || exit 2   # SEED_BASE: the commit the change was written against, when a later fix touches the same lines
cd $EV
if [ -z "${SKIP_CONFIRM:-}" ]; then
  if [ -f $OUT/demo.sh ]; then bash $OUT/demo.sh > $LOG/demo_clean.log 2>&1; echo "confirm: demo on clean tree exit $?"; fi
fi
git apply $OUT/patch.diff 2>/dev/null || git apply -3 $OUT/patch.diff || { echo "patch does not apply"; cd /tmp; git -C /repo worktree remove --force $EV; exit 2; }
git reset -q 2>/dev/null # a 3-way apply stages the result
if [ -z "${SKIP_CONFIRM:-}" ]; then
  go build ./... && go vet ./... >/dev/null 2>&1; 
  go test -vet=off -count=1 ./... > $LOG/suite.log 2>&1; echo "confirm: suite with change exit $? ($(grep -c '^ok' $LOG/suite.log) ok, $(grep -c -E '^(FAIL|---)' $LOG/suite.log) fail lines)"
  if [ -f $OUT/demo.sh ]; then bash $OUT/demo.sh > $LOG/demo_seeded.log 2>&1; echo "confirm: demo with change exit $?"; fi
  git status --short | grep -v '^ M' | head -3
fi
for c in "$@"; do
  VERIF_REPO=$EV VERIF_OUT=$EO VERIF_SEED=${VERIF_SEED:-0} /verif/check $c quick > $LOG/check_$c.log 2>&1; rc=$?
  echo "check $c: exit $rc  $(grep -c '^VIOLATION' $LOG/check_$c.log) VIOLATION lines; $(grep 'violations not in known' $LOG/check_$c.log | sed 's/.*classes: //' | cut -c1-300)"
done
cd /tmp
git -C /repo worktree remove --force $EV
rm -rf $EO
