#!/bin/bash
# usage: tools_seeded.sh <NN> <outdir> <check ids...>
# 1. confirms the seeded change in the agent's worktree (suite passes, demo fails with / passes without)
# 2. applies it to /repo, runs the named checks (quick), undoes it.
export GOFLAGS=-mod=mod GOPROXY=off GOSUMDB=off GOTOOLCHAIN=local
NN=$1; OUT=$2; shift 2
WT=/tmp/seed/wt$NN
[ -f $OUT/patch.diff ] || { echo "no patch.diff in $OUT"; exit 2; }
echo "== confirm $NN"
( cd $WT && git stash -q && git apply --check $OUT/patch.diff && echo "patch applies on clean tree" ; 
  if [ -f $OUT/demo.sh ]; then bash $OUT/demo.sh >/tmp/seed/demo_clean_$NN.log 2>&1; echo "demo on clean tree: exit $?"; fi
  git stash pop -q )
( cd $WT && go build ./... && go test -vet=off -count=1 ./... 2>&1 | grep -v "no test files" | grep -v "^ok" ; echo "suite with change: done (non-ok lines above, if any)" )
if [ -f $OUT/demo.sh ]; then ( cd $WT && bash $OUT/demo.sh >/tmp/seed/demo_seeded_$NN.log 2>&1; echo "demo with change: exit $?" ); fi
echo "== run checks against the change"
git -C /repo apply $OUT/patch.diff || { echo "cannot apply to /repo"; exit 2; }
for c in "$@"; do
  /verif/check $c quick > /tmp/seed/check_${NN}_$c.log 2>&1; rc=$?
  echo "check $c: exit $rc  $(grep -c '^VIOLATION' /tmp/seed/check_${NN}_$c.log) VIOLATION lines; classes: $(grep 'violations not in known' /tmp/seed/check_${NN}_$c.log | sed 's/.*classes: //')"
done
git -C /repo checkout -- .
git -C /repo status --short | head -3
