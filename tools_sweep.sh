#!/bin/bash
# usage: tools_sweep.sh <tier> <seed> [ids...]   run checks one after another, print one line per check
# (used for background sweeps: vp run --with-repo -- env VERIF_REPO=\$VP_RUN_REPO ./tools_sweep.sh thorough 7)
cd "$(dirname "$0")"
TIER=${1:-quick}; SEED=${2:-0}; shift 2
IDS=${*:-C01 C02 C03 C04 C05 C06 C07 C08 C09 C10 C11 C12 C13 C14 C15 C16 C17 C18 C19}
mkdir -p .build/sweep
for id in $IDS; do
  t0=$(date +%s)
  VERIF_SEED=$SEED ./check $id $TIER > .build/sweep/$id.$TIER.$SEED.log 2>&1; rc=$?
  echo "$id $TIER seed=$SEED exit=$rc secs=$(( $(date +%s) - t0 )) $(grep -E '^(VIOLATION|KNOWN-FINDING|INCONCLUSIVE)' .build/sweep/$id.$TIER.$SEED.log | cut -c1-160 | sort | uniq -c | head -5 | tr '\n' ';')"
  grep -E "^C[0-9]+ tier=" .build/sweep/$id.$TIER.$SEED.log | tail -1
done
