package main

import (
	"fmt"
	"os"
	"path/filepath"
	"sort"
	"strings"

	"verif/harness/core"
	"verif/harness/gen"
)

// fault is one point of the fault enumeration.
type fault struct {
	Kind    string // fsize, inject, inject-path, kill, kill-path, input, fsize-longname, inject-fsize
	Syscall string
	Errno   string
	When    int
	FSize   int64
	Target  int    // file index for path-targeted faults and input-borne failures
	Input   string // input-borne failure kind
}

func (f fault) String() string {
	switch f.Kind {
	case "fsize":
		return fmt.Sprintf("fsize=%d", f.FSize)
	case "input":
		return fmt.Sprintf("input:%s@%d", f.Input, f.Target)
	case "signal":
		return fmt.Sprintf("signal:%s:%s:when=%d", f.Syscall, f.Errno, f.When)
	case "dir-inject":
		return fmt.Sprintf("dir-inject:%s:%s:variant=%d", f.Syscall, f.Errno, f.Target)
	case "stdout-fsize":
		return fmt.Sprintf("stdout-fsize=%d:mode=%d", f.FSize, f.Target)
	case "stdout-inject":
		return fmt.Sprintf("stdout-inject:%s:%s:when=%d:mode=%d", f.Syscall, f.Errno, f.When, f.Target)
	case "fsize-longname":
		return fmt.Sprintf("fsize=%d+long-name@%d", f.FSize, f.Target)
	case "inject-fsize":
		return fmt.Sprintf("inject:%s:%s:when=%d+fsize=%d", f.Syscall, f.Errno, f.When, f.FSize)
	}
	return fmt.Sprintf("%s:%s:%s:when=%d:target=%d", f.Kind, f.Syscall, f.Errno, f.When, f.Target)
}

var (
	c16Errnos      = []string{"EIO", "ENOSPC", "EACCES", "EDQUOT"}
	c16Global      = []string{"write", "pwrite64", "close", "fsync", "rename", "renameat", "renameat2", "fchmod", "fchmodat", "chmod", "ftruncate", "unlinkat", "fstat", "newfstatat", "fchown", "linkat"}
	c16PathSys     = []string{"openat", "read"}
	c16Inputs      = []string{"p-and-missing-list", "p-and-list-with-missing-entry", "unparseable-then-unreadable", "patch-list-is-a-directory", "patch-list-line-too-long", "missing-path-first", "missing-dir-first", "two-missing-paths", "unparseable-source", "unparseable-result", "rewrite-error", "missing-path", "missing-patch", "malformed-patch", "missing-list-entry", "unreadable-source", "unreadable-patch", "directory-named-go", "rewrite-error-plus-other-change", "no-fault", "unparseable-source-of-another-package", "missing-path-below-a-walked-directory", "long-patch-list"}
	c16ErrnoText   = map[string]string{"EIO": "input/output error", "ENOSPC": "no space left on device", "EACCES": "permission denied", "EDQUOT": "disk quota exceeded", "EFBIG": "file too large"}
	c16FaultsCache = map[string][]fault{}
)

func c16Faults(tier string) []fault {
	if f, ok := c16FaultsCache[tier]; ok {
		return f
	}
	var out []fault
	maxWhen, fsizes := 5, []int64{0, 1, 2, 3, 7, 16, 40, 64, 100, 128, 200, 255, 256, 300, 400, 512, 700, 1000, 1023, 1024, 1500, 2000, 3000, 4095, 4096, 4097, 6000, 8192, 10000}
	if tier == "thorough" {
		maxWhen = 12
		fsizes = nil
		for k := int64(0); k <= 3000; k++ {
			fsizes = append(fsizes, k)
		}
		for k := int64(3000); k <= 20000; k += 37 {
			fsizes = append(fsizes, k)
		}
	}
	for _, k := range fsizes {
		out = append(out, fault{Kind: "fsize", FSize: k})
	}
	for _, s := range c16Global {
		for _, e := range c16Errnos {
			for w := 1; w <= maxWhen; w++ {
				out = append(out, fault{Kind: "inject", Syscall: s, Errno: e, When: w})
			}
		}
	}
	for _, s := range c16PathSys {
		for _, e := range c16Errnos {
			for w := 1; w <= 3; w++ {
				for t := 0; t < 4; t++ {
					out = append(out, fault{Kind: "inject-path", Syscall: s, Errno: e, When: w, Target: t})
				}
			}
		}
	}
	for _, s := range []string{"write", "close", "fsync", "rename", "renameat", "renameat2", "fchmod", "fchmodat", "chmod", "unlinkat"} {
		for w := 1; w <= maxWhen+2; w++ {
			out = append(out, fault{Kind: "kill", Syscall: s, When: w})
		}
	}
	for w := 1; w <= 3; w++ {
		for t := 0; t < 4; t++ {
			out = append(out, fault{Kind: "kill-path", Syscall: "openat", When: w, Target: t})
		}
	}
	// a signal that can be caught (Ctrl-C, a CI timeout): an interrupted run must not look like a complete one
	for _, sig := range []string{"SIGTERM", "SIGINT"} {
		for _, sc := range []string{"openat", "write", "rename", "renameat"} {
			for w := 1; w <= maxWhen+6; w += 2 {
				out = append(out, fault{Kind: "signal", Syscall: sc, Errno: sig, When: w})
			}
		}
	}
	// double faults: the first fault sends gopatch down an error path, the second one hits whatever that path does.
	// (a) the temporary file cannot be created because the target's name is too long, and writes are cut short
	longK := []int64{0, 1, 100, 1000, 1024, 4096}
	if tier == "thorough" {
		longK = nil
		for k := int64(0); k <= 6000; k += 53 {
			longK = append(longK, k)
		}
	}
	for _, k := range longK {
		for t := 0; t < 3; t++ {
			out = append(out, fault{Kind: "fsize-longname", FSize: k, Target: t})
		}
	}
	// (b) the n-th openat of the process fails (reading a source, creating a temporary file, ...), and writes are cut short
	maxOpen := 30
	if tier == "thorough" {
		maxOpen = 60
	}
	for _, e := range []string{"EACCES", "ENOSPC"} {
		for w := 1; w <= maxOpen; w++ {
			for _, k := range []int64{0, 700} {
				out = append(out, fault{Kind: "inject-fsize", Syscall: "openat", Errno: e, When: w, FSize: k})
			}
		}
	}
	for _, in := range c16Inputs {
		for t := 0; t < 6; t++ {
			out = append(out, fault{Kind: "input", Input: in, Target: t})
		}
	}
	// (d) a directory below a requested path cannot be listed
	for _, sc := range []string{"openat", "getdents64"} {
		for _, e := range []string{"EACCES", "EIO"} {
			for t := 0; t < 4; t++ {
				out = append(out, fault{Kind: "dir-inject", Syscall: sc, Errno: e, When: 1, Target: t})
			}
		}
	}
	// (c) dry-run modes: standard output is a file, and writing it fails or is cut short (gopatch --print-only ... > new.go)
	pk := []int64{0, 1, 10, 100, 500, 1000, 2000, 4096, 8192, 20000, 60000, 65536, 70000, 200000}
	if tier == "thorough" {
		pk = nil
		for k := int64(0); k <= 140000; k += 997 {
			pk = append(pk, k)
		}
	}
	for _, k := range pk {
		for t := 0; t < 4; t++ {
			out = append(out, fault{Kind: "stdout-fsize", FSize: k, Target: t})
		}
	}
	for _, e := range []string{"ENOSPC", "EIO"} {
		for w := 1; w <= 6; w++ {
			for t := 0; t < 4; t++ {
				out = append(out, fault{Kind: "stdout-inject", Syscall: "write", Errno: e, When: w, Target: t})
			}
		}
	}
	c16FaultsCache[tier] = out
	return out
}

func init() {
	core.Register(&core.Prop{
		ID:    "C16",
		Level: "fault_enumeration",
		Rule: "fault enumeration at the process boundary over in-place runs on 3-7 files of different sizes: (1) RLIMIT_FSIZE=k for k in a sweep (every k in 0..3000 in the thorough tier): the kernel cuts every write after k bytes; " +
			"(2) strace -e inject=<syscall>:error=<errno>:when=<n> for syscall in {write, pwrite64, close, fsync, rename*, fchmod*, chmod, ftruncate, unlinkat, fstat, ...} (whatever the write path uses), errno in {EIO, ENOSPC, EACCES, EDQUOT}, n=1..5(12), " +
			"and -P <file> targeted openat/read faults on the i-th file; (3) inject=<syscall>:signal=SIGKILL at the same points (crash points); (4) input-borne failures at every position of the run: unparseable source, unparseable result, rewrite error, " +
			"missing path, missing/malformed/unreadable patch, missing -P list entry, unreadable source, directory named x.go. Post-run classifier: every *.go file must hold its original or its complete patched bytes (baseline from a fault-free run); " +
			"exit 0 only if every file was patched; if something could not be processed exit != 0 and stderr names the path and the cause; other files' results unchanged. non-trivial = the fault fired (strace marks the call INJECTED / killed / non-zero exit); distinct = (fault source, syscall, errno or limit, when, run length).",
		Assumptions: []string{"GOMAXPROCS=1 for the injected runs so that strace's per-thread 'when' counter is meaningful; whether a fault fired is read from the strace log, faults that do not fire are counted and not judged non-trivial",
			"a crash (SIGKILL) may leave temporary non-.go files behind; only *.go files are classified"},
		Cases:   func(tier string) int { return len(c16Faults(tier)) },
		Floor:   func(string) int { return 120 },
		Run:     runC16,
		Workers: 14,
	})
}

// runC16Stdout: --print-only / --diff / -v runs whose standard output is a file that cannot take everything. Nothing on
// disk may change, and a run whose output did not arrive complete must not look like a success.
func runC16Stdout(ctx *core.Ctx, idx int, ft fault) *core.Result {
	res := &core.Result{}
	r := ctx.Rand("c16out", idx)
	g := gen.NewG(r)
	mode := [][]string{{"--print-only"}, {"--diff"}, {"--print-only", "-v"}, {"-v"}}[ft.Target%4]
	n := 1 + r.Intn(5)
	base, _ := os.MkdirTemp(ctx.Tmp, "c16o")
	defer os.RemoveAll(base)
	tree := filepath.Join(base, "tree")
	os.MkdirAll(tree, 0o755)
	patch := "# bump\n@@\nvar x expression\n@@\n-bump(x)\n+bump(x + 1)\n"
	os.WriteFile(filepath.Join(base, "p.patch"), []byte(patch), 0o644)
	var names []string
	src := map[string]string{}
	write := func() {
		for nme, s := range src {
			os.WriteFile(filepath.Join(tree, nme), []byte(s), 0o644)
		}
	}
	for f := 0; f < n; f++ {
		var plants []gen.Plant
		if r.Intn(4) > 0 { // unmatched files are echoed by --print-only
			for i := 0; i < 1+r.Intn(3); i++ {
				plants = append(plants, gen.Plant{Kind: "expr", Text: "bump(" + g.Atom() + ")"})
			}
		}
		s := g.File(gen.FileOpts{Plants: plants, Decls: 1 + r.Intn(8)})
		if r.Intn(3) == 0 {
			s += "\nvar pad = `" + strings.Repeat("pad ", r.Intn(20000)) + "`\n"
		}
		nme := fmt.Sprintf("f%d.go", f)
		names = append(names, nme)
		src[nme] = s
	}
	write()
	args := append(append([]string{"-p", "../p.patch"}, mode...), names...)
	inPlace := len(mode) == 1 && mode[0] == "-v"
	// fault-free run: the complete output
	full := ctx.RunCLI(core.CLIOpts{Dir: tree, Args: args, Env: []string{"GOMAXPROCS=1"}, StdoutFile: filepath.Join(base, "full.txt")})
	patched := map[string]string{}
	for _, nme := range names {
		b, _ := os.ReadFile(filepath.Join(tree, nme))
		patched[nme] = string(b)
	}
	write()
	outPath := filepath.Join(base, "out.txt")
	opts := core.CLIOpts{Dir: tree, Args: args, Env: []string{"GOMAXPROCS=1"}, StdoutFile: outPath}
	var cr *core.CLIResult
	raw := ""
	if ft.Kind == "stdout-fsize" {
		k := ft.FSize
		if inPlace {
			k = ft.FSize % 4096 // the limit also applies to the files written in place: keep it in the range that cuts them
		}
		opts.FSize = &k
		cr = ctx.RunCLI(opts)
	} else {
		cr, _, raw = ctx.RunCLIStrace(opts, "-P", outPath, "-e", fmt.Sprintf("inject=%s:error=%s:when=%d", ft.Syscall, ft.Errno, ft.When))
	}
	res.Evals++
	stderr := string(cr.Stderr)
	rep := map[string]string{"fault.txt": ft.String() + "\nargs: " + strings.Join(args, " ") + " > out.txt", "p.patch": patch, "stderr.txt": stderr, "strace.txt": core.Trunc(raw, 20000),
		"out.txt": core.Trunc(string(cr.Stdout), 4000)}
	killed := cr.Exit == -1
	if cc := cr.CrashClass(); cc != "" && !(killed && strings.Contains(cr.Signal, "file size")) {
		res.Violate("C16/"+cc, stderr, rep)
		return res
	}
	for _, nme := range names {
		b, _ := os.ReadFile(filepath.Join(tree, nme))
		switch got := string(b); {
		case got == src[nme]:
		case inPlace && got == patched[nme]:
		default:
			rep["tree/"+nme], rep["actual-"+nme] = src[nme], got
			res.Violate("C16/half-written-file", fmt.Sprintf("[%s %v] %s holds neither its original nor its complete patched bytes", ft, mode, nme), rep)
			return res
		}
	}
	// the -v log shares standard output with the payload; a lost log line is not a file that could not be processed
	payload := func(out string) string {
		var keep []string
		for _, l := range strings.SplitAfter(out, "\n") {
			t := strings.TrimSuffix(l, "\n")
			if strings.HasPrefix(t, tree+"/") && (strings.HasSuffix(t, ": patched") || strings.HasSuffix(t, ": skipped")) {
				continue
			}
			keep = append(keep, l)
		}
		return strings.Join(keep, "")
	}
	pf, pg := payload(string(full.Stdout)), payload(string(cr.Stdout))
	complete := pg == pf || (strings.HasPrefix(pg, pf) && strings.HasPrefix(tree+"/", pg[len(pf):]) || strings.HasPrefix(pg, pf) && strings.HasPrefix(pg[len(pf):], tree+"/"))
	if full.Exit != 0 {
		res.Inconcl++
		return res
	}
	if complete {
		res.Ob("faults-not-reached:"+ft.Kind, 1)
		if cr.Exit != 0 && !inPlace {
			res.Violate("C16/failure-although-output-complete", fmt.Sprintf("[%s %v] exit %d: %s", ft, mode, cr.Exit, core.Trunc(stderr, 300)), rep)
		}
		return res
	}
	res.Ob("faults-fired:"+ft.Kind, 1)
	res.Sig(ft.Kind, ft.Errno, ft.FSize, ft.When, strings.Join(mode, " "), n)
	if killed {
		res.Ob("killed-by-file-size-signal", 1)
		return res
	}
	if cr.Exit == 0 {
		res.Violate("C16/exit-0-although-output-was-cut-short", fmt.Sprintf("[%s %v] %d of %d bytes of standard output arrived, exit 0, stderr %q", ft, mode, len(cr.Stdout), len(full.Stdout), core.Trunc(stderr, 200)), rep)
		return res
	}
	low := strings.ToLower(stderr)
	if !strings.Contains(low, "file too large") && !strings.Contains(low, "no space left") && !strings.Contains(low, "input/output error") {
		res.Violate("C16/stderr-does-not-name-cause", fmt.Sprintf("[%s %v] exit %d but stderr names no cause: %s", ft, mode, cr.Exit, core.Trunc(stderr, 300)), rep)
	}
	res.Sample(map[string]any{"fault": ft.String(), "mode": strings.Join(mode, " "), "files": n, "exit": cr.Exit, "stdout_bytes": len(cr.Stdout), "stdout_complete_bytes": len(full.Stdout), "stderr": core.Trunc(stderr, 300)})
	return res
}

// runC16Dir: a directory below a requested path cannot be listed (its open or its getdents64 fails). The Go files in
// it were requested and could not be processed: the run must not look like a success, and must name the directory.
func runC16Dir(ctx *core.Ctx, idx int, ft fault) *core.Result {
	res := &core.Result{}
	r := ctx.Rand("c16dir", idx)
	g := gen.NewG(r)
	base, _ := os.MkdirTemp(ctx.Tmp, "c16d")
	defer os.RemoveAll(base)
	tree := filepath.Join(base, "tree")
	patch := "@@\nvar x expression\n@@\n-bump(x)\n+bump(x + 1)\n"
	os.WriteFile(filepath.Join(base, "p.patch"), []byte(patch), 0o644)
	locked := []string{"locked", "a/locked", "pkg/deep/locked", "zlast"}[ft.Target%4]
	src := map[string]string{}
	for _, nme := range []string{"top.go", "a/one.go", "pkg/two.go", "pkg/deep/three.go", locked + "/hidden.go", "zz/after.go"} {
		s := g.File(gen.FileOpts{Plants: []gen.Plant{{Kind: "expr", Text: "bump(" + g.Atom() + ")"}}, Decls: 1 + r.Intn(3)})
		src[nme] = s
		os.MkdirAll(filepath.Dir(filepath.Join(tree, nme)), 0o755)
		os.WriteFile(filepath.Join(tree, nme), []byte(s), 0o644)
	}
	args := [][]string{{tree}, {tree + "/..."}, {filepath.Join(tree, "top.go"), tree}}[r.Intn(3)]
	cr, _, raw := ctx.RunCLIStrace(core.CLIOpts{Dir: tree, Args: append([]string{"-p", "../p.patch"}, args...), Env: []string{"GOMAXPROCS=1"}},
		"-P", filepath.Join(tree, locked), "-e", fmt.Sprintf("inject=%s:error=%s:when=%d", ft.Syscall, ft.Errno, ft.When))
	res.Evals++
	stderr := string(cr.Stderr)
	rep := map[string]string{"fault.txt": ft.String() + "\nlocked directory: " + locked + "\nargs: " + strings.Join(args, " "), "p.patch": patch, "stderr.txt": stderr, "strace.txt": core.Trunc(raw, 20000)}
	if cc := cr.CrashClass(); cc != "" {
		res.Violate("C16/"+cc, stderr, rep)
		return res
	}
	if !strings.Contains(raw, "INJECTED") {
		res.Ob("faults-not-reached:dir-inject", 1)
		return res
	}
	res.Ob("faults-fired:dir-inject", 1)
	res.Sig("dir-inject", ft.Syscall, ft.Errno, locked, len(args))
	for nme, s := range src {
		b, _ := os.ReadFile(filepath.Join(tree, nme))
		if got := string(b); got != s && !strings.Contains(got, "+ 1)") {
			res.Violate("C16/half-written-file", nme, rep)
			return res
		}
	}
	if cr.Exit == 0 {
		res.Violate("C16/exit-0-although-not-everything-was-processed", fmt.Sprintf("[%s] the directory %s could not be listed, exit 0, stderr %q", ft, locked, core.Trunc(stderr, 200)), rep)
		return res
	}
	if !strings.Contains(stderr, locked) {
		res.Violate("C16/stderr-does-not-name-path", fmt.Sprintf("[%s] stderr does not mention %q: %s", ft, locked, core.Trunc(stderr, 300)), rep)
	} else if low := strings.ToLower(stderr); !strings.Contains(low, "permission denied") && !strings.Contains(low, "input/output error") {
		res.Violate("C16/stderr-does-not-name-cause", fmt.Sprintf("[%s] %s", ft, core.Trunc(stderr, 300)), rep)
	}
	res.Sample(map[string]any{"fault": ft.String(), "locked": locked, "exit": cr.Exit, "stderr": core.Trunc(stderr, 300)})
	return res
}

// c16LibraryProbe: the library half of "a failure is always reported". One parsed patch is applied to several files; a file
// on which the only matching change cannot be carried out gives an error (never its input with a nil error), whatever the
// other files of the loop do, and the command line fails for the same file.
func c16LibraryProbe(ctx *core.Ctx, res *core.Result, idx int) {
	r := ctx.Rand("c16lib", idx)
	failing := [][2]string{
		{"@@\nvar x, y expression\n@@\n-tgtFail(x)\n+replFail(x, y)\n", "tgtFail(1)"},
		{"@@\nvar n, y expression\n@@\n-var _ = tgtPair(n, y)\n+var n = y\n", "var _ = tgtPair(1+1, 2)"},
		{"@@\nvar x expression\n@@\n-getField(x)\n+cfg.x\n", "var _ = getField(a + b)"},
	}
	fc := failing[r.Intn(len(failing))]
	other := "@@\nvar x expression\n@@\n-bump(x)\n+bump(x + 1)\n"
	pt := fc[0]
	order := r.Intn(3)
	switch order {
	case 1:
		pt = other + "\n" + fc[0]
	case 2:
		pt = fc[0] + "\n" + other
	}
	site := fc[1]
	if !strings.HasPrefix(site, "var ") {
		site = "func fails() {\n\t" + site + "\n}"
	}
	files := []struct {
		src     string
		wantErr bool
	}{
		{"package a\n\n" + site + "\n", true},
		{"package a\n\nfunc ok() int {\n\treturn bump(1)\n}\n", false},
		{"package a\n\nfunc nothing() {}\n", false},
		{"package a\n\n" + site + "\n\nfunc alsoOK() int {\n\treturn bump(2)\n}\n", true},
	}
	pf, perr, pan := core.ParsePatch("p.patch", []byte(pt))
	if perr != nil || pan != "" {
		res.Inconcl++
		res.Ob("inconclusive:library-probe-patch-rejected", 1)
		return
	}
	for i, f := range files {
		if !gen.Parses(f.src) {
			continue
		}
		out, err, pan := core.ApplyParsed(pf, fmt.Sprintf("f%d.go", i), []byte(f.src))
		res.Evals++
		res.Ob("library-probe-applies", 1)
		res.Sig("library-probe", fc[1], order, i)
		rep := map[string]string{"p.patch": pt, "in.go": f.src, "out.go": string(out)}
		switch {
		case pan != "":
			res.Violate("C16/engine-panic:"+core.PanicSignature(pan), pan, rep)
			return
		case f.wantErr && err == nil:
			res.Violate("C16/failure-not-reported/library", fmt.Sprintf("file %d: a change matches and cannot be carried out, Apply returned no error (output %s the input)", i, map[bool]string{true: "equals", false: "differs from"}[string(out) == f.src]), rep)
			return
		case !f.wantErr && err != nil:
			res.Violate("C16/failure-without-fault/library", err.Error(), rep)
			return
		}
	}
}

func runC16(ctx *core.Ctx, idx int) *core.Result {
	res := &core.Result{}
	if idx%10 == 5 {
		c16LibraryProbe(ctx, res, idx)
		if len(res.Viol) > 0 {
			return res
		}
	}
	ft := c16Faults(ctx.Tier)[idx]
	if strings.HasPrefix(ft.Kind, "stdout-") {
		return runC16Stdout(ctx, idx, ft)
	}
	if ft.Kind == "dir-inject" {
		return runC16Dir(ctx, idx, ft)
	}
	r := ctx.Rand("c16", idx)
	g := gen.NewG(r)
	n := 3 + r.Intn(5)
	first := "@@\nvar x expression\n@@\n-bump(x)\n+bump(x + 1)\n"
	if idx%2 == 1 {
		// the rewrite makes the files shorter: a write that does not truncate leaves the old tail behind
		first = "@@\nvar x expression\n@@\n-bump(x)\n+b(x)\n"
	}
	patch := "# bump\n" + first + "\n@@\n@@\n-badType\n+1 + 2\n"
	type fi struct{ name, src string }
	var files []fi
	for f := 0; f < n; f++ {
		var plants []gen.Plant
		for i := 0; i < 1+r.Intn(3); i++ {
			plants = append(plants, gen.Plant{Kind: "expr", Text: "bump(" + g.Atom() + ")"})
		}
		src := g.File(gen.FileOpts{Plants: plants, Decls: 1 + r.Intn(6)})
		if r.Intn(3) == 0 {
			src += "\nvar pad = `" + strings.Repeat("pad ", r.Intn(1500)) + "`\n"
		}
		files = append(files, fi{fmt.Sprintf("f%d.go", f), src})
	}
	tgt := ft.Target % n
	if ft.Kind == "fsize-longname" {
		// "." + name + ".<random>.tmp" exceeds NAME_MAX: no temporary file can be created next to this one
		files[tgt].name = strings.Repeat("L", 245) + fmt.Sprintf("%d.go", tgt)
	}
	// pristine inputs: the fault-free baseline is computed from these
	pristinePatch := patch
	pristine := map[string]string{}
	for _, f := range files {
		pristine[f.name] = f.src
	}
	extraArgs := []string{}
	preArgs := []string{}
	alsoNamed := []string{} // further paths stderr has to name
	patchArgs := []string{"-p", "../p.patch"}
	// every third fault point runs without import processing (the rewritten bytes then come straight from the printer's
	// buffer); "no-fault" is a plain run of several files, which has to leave every one of them completely patched
	var flags []string
	if idx%3 == 2 {
		flags = []string{"--skip-import-processing"}
	}
	expectFailFile := ""    // file that must be reported
	nothingPatched := false // the patches cannot all be loaded: nothing may change
	causeWords := []string{}
	switch ft.Kind {
	case "input":
		switch ft.Input {
		case "unparseable-source":
			files[tgt].src = "package p\n\nfunc broken( {\n\tbump(1)\n"
			if tgt%2 == 1 {
				// generated from a grammar: a //line directive gives the errors another file's name; the file that could
				// not be processed is still this one
				files[tgt].src = "package p\n\n//line /home/ci/build/pkg/parser.y:57\nfunc broken( {\n\tbump(1)\n"
			}
			expectFailFile, causeWords = files[tgt].name, []string{"expected"}
		case "unparseable-source-of-another-package":
			// every change of the patch names its package; a file of another package that does not parse is still a
			// discovered file that could not be processed
			patch = strings.Replace(first, "@@\n-bump", "@@\n package p\n\n-bump", 1) + "\n@@\n@@\n package p\n\n-badType\n+1 + 2\n"
			pristinePatch = patch
			files[tgt].src = "package other\n\nfunc broken( {\n\tbump(1)\n"
			expectFailFile, causeWords = files[tgt].name, []string{"expected"}
		case "unparseable-result":
			files[tgt].src += "\nvar vbad badType\n"
			expectFailFile, causeWords = files[tgt].name, []string{"expected", "reformat", "rewrite"}
		case "rewrite-error":
			patch = "@@\nvar x, y expression\n@@\n-bump(x)\n+bump(x, y)\n"
			expectFailFile, causeWords = files[0].name, []string{"metavariable"}
		case "rewrite-error-plus-other-change":
			// one change fails on the target file only, another change of the same patch succeeds on it
			patch = first + "\n@@\nvar n, y expression\n@@\n-var _ = tgtPair(n, y)\n+var n = y\n"
			files[tgt].src += "\nvar _ = tgtPair(call(), 1)\n\nvar _ = tgtPair(other(), 2)\n"
			expectFailFile, causeWords = files[tgt].name, []string{"cannot", "could not"}
			// the change that fails on the target applies cleanly to every other file, before and after it
			for i := range files {
				if i != tgt {
					files[i].src += fmt.Sprintf("\nvar _ = tgtPair(okv%d, 5)\n", i)
					pristine[files[i].name] = files[i].src
				}
			}
			pristinePatch = patch
		case "missing-path-first":
			// a path that cannot be enumerated comes first, good ones follow
			preArgs = append(preArgs, "nonexistent_"+fmt.Sprint(tgt)+".go")
			expectFailFile, causeWords = "nonexistent_"+fmt.Sprint(tgt)+".go", []string{"no such file"}
		case "missing-dir-first":
			preArgs = append(preArgs, "nonexistent_dir"+fmt.Sprint(tgt)+"/...")
			expectFailFile, causeWords = "nonexistent_dir"+fmt.Sprint(tgt), []string{"no such file"}
		case "two-missing-paths":
			preArgs = append(preArgs, "nonexistent_a"+fmt.Sprint(tgt)+".go")
			extraArgs = append(extraArgs, "nonexistent_b"+fmt.Sprint(tgt)+"/...")
			expectFailFile, causeWords = "nonexistent_a"+fmt.Sprint(tgt)+".go", []string{"no such file"}
			alsoNamed = append(alsoNamed, "nonexistent_b"+fmt.Sprint(tgt))
		case "long-patch-list":
			// the patches come from a -P list of more than 4 KiB (a hundred entries): every one of them is loaded, the one
			// that rewrites the files included, wherever it stands in the list. (The baseline names the patch with -p.)
			patchArgs = []string{"-P", "../longlist.txt"}
		case "missing-path-below-a-walked-directory":
			// the directory itself is an argument too, and comes first: the path that does not exist lies (by its
			// spelling) inside something that has been walked already, and is still a requested path
			preArgs = append(preArgs, ".")
			extraArgs = append(extraArgs, []string{"./nonexistent_" + fmt.Sprint(tgt) + ".go", "nosuchdir/missing_" + fmt.Sprint(tgt) + ".go", "./nosuchdir" + fmt.Sprint(tgt) + "/..."}[tgt%3])
			expectFailFile, causeWords = []string{"nonexistent_" + fmt.Sprint(tgt) + ".go", "missing_" + fmt.Sprint(tgt) + ".go", "nosuchdir" + fmt.Sprint(tgt)}[tgt%3], []string{"no such file"}
		case "missing-path":
			extraArgs = append(extraArgs, "nonexistent_"+fmt.Sprint(tgt)+".go")
			expectFailFile, causeWords = "nonexistent_"+fmt.Sprint(tgt)+".go", []string{"no such file"}
		case "missing-patch":
			patchArgs = []string{"-p", "../p.patch", "-p", "../missing.patch"}
			expectFailFile, causeWords = "missing.patch", []string{"no such file"}
		case "malformed-patch":
			patch = "@@\nvar x expression\n@@\n-bump(x\n+bump(x + 1)\n"
			expectFailFile, causeWords = "p.patch", []string{"expected", "found", "missing"}
		case "patch-list-is-a-directory":
			// -P names something that cannot be read as a list: no patch is loaded, nothing may be reported as done
			patchArgs = []string{"-P", "../listdir"}
			expectFailFile, causeWords = "listdir", []string{"is a directory"}
		case "patch-list-line-too-long":
			patchArgs = []string{"-P", "../biglist.txt"}
			expectFailFile, causeWords = "biglist.txt", []string{"too long"}
		case "p-and-missing-list":
			// a good -p patch next to a -P list that does not exist: the list is still asked for
			patchArgs = []string{"-p", "../p.patch", "-P", "../nolist.txt"}
			expectFailFile, causeWords = "nolist.txt", []string{"no such file"}
			for i := range files {
				_ = i
			}
			nothingPatched = true
		case "p-and-list-with-missing-entry":
			patchArgs = []string{"-p", "../p.patch", "-P", "../list.txt"}
			expectFailFile, causeWords = "gone.patch", []string{"no such file"}
			nothingPatched = true
		case "missing-list-entry":
			patchArgs = []string{"-P", "../list.txt"}
			expectFailFile, causeWords = "gone.patch", []string{"no such file"}
		case "unreadable-source":
			ft = fault{Kind: "inject-path", Syscall: "openat", Errno: "EACCES", When: 1, Target: tgt, Input: "unreadable-source"}
			expectFailFile, causeWords = files[tgt].name, []string{"permission denied"}
		case "unparseable-then-unreadable":
			// the first file does not parse (collected, the run goes on), the last one cannot be read (the run
			// stops): both have to be named
			files[0].src = "package p\n\nfunc broken( {\n\tbump(1)\n"
			tgt = n - 1
			ft = fault{Kind: "inject-path", Syscall: "openat", Errno: "EACCES", When: 1, Target: tgt, Input: "unparseable-then-unreadable"}
			expectFailFile, causeWords = files[tgt].name, []string{"permission denied"}
			alsoNamed = append(alsoNamed, files[0].name)
		case "unreadable-patch":
			expectFailFile, causeWords = "p.patch", []string{"permission denied"}
		case "directory-named-go":
			// a directory called x.go among the arguments is walked, not opened as a file
		}
	}
	base, _ := os.MkdirTemp(ctx.Tmp, "c16")
	defer os.RemoveAll(base)
	setup := func(sub string) string {
		d := filepath.Join(base, sub)
		os.MkdirAll(filepath.Join(d, "tree"), 0o755)
		os.WriteFile(filepath.Join(d, "p.patch"), []byte(patch), 0o644)
		os.WriteFile(filepath.Join(d, "list.txt"), []byte("p.patch\ngone.patch\n"), 0o644)
		os.MkdirAll(filepath.Join(d, "listdir"), 0o755)
		os.WriteFile(filepath.Join(d, "biglist.txt"), []byte(strings.Repeat("x", 70000)+"\n../p.patch\n"), 0o644)
		if ft.Input == "long-patch-list" {
			os.MkdirAll(filepath.Join(d, "patches"), 0o755)
			var list strings.Builder
			real := []int{0, 57, 99}[tgt%3]
			for k := 0; k < 100; k++ {
				name := fmt.Sprintf("patches/%03d-%s.patch", k, strings.Repeat("n", 30))
				if tgt%2 == 1 {
					name = fmt.Sprintf("patches/%03d-%s.patch", k, strings.Repeat("v", 1+(k*7)%40)) // entries of different lengths
				}
				body := fmt.Sprintf("@@\nvar x expression\n@@\n-zzNever%d(x)\n+zzNever(x)\n", k)
				if k == real {
					body = patch
				}
				os.WriteFile(filepath.Join(d, name), []byte(body), 0o644)
				list.WriteString("../" + name + "\n")
			}
			os.WriteFile(filepath.Join(d, "longlist.txt"), []byte(list.String()), 0o644)
		}
		for _, f := range files {
			os.WriteFile(filepath.Join(d, "tree", f.name), []byte(f.src), 0o644)
		}
		if ft.Input == "directory-named-go" {
			os.MkdirAll(filepath.Join(d, "tree", "dir.go"), 0o755)
			os.WriteFile(filepath.Join(d, "tree", "dir.go", "inner.go"), []byte(files[0].src), 0o644)
		}
		return d
	}
	var names []string
	for _, f := range files {
		names = append(names, f.name)
	}
	if ft.Input == "directory-named-go" {
		names = append(names, "dir.go")
	}
	args := append(append(append(append(append([]string{}, patchArgs...), flags...), preArgs...), names...), extraArgs...)
	// list.txt paths are relative to the cwd (tree): fix them up
	fixList := func(d string) {
		os.WriteFile(filepath.Join(d, "list.txt"), []byte("../p.patch\n../gone.patch\n"), 0o644)
	}

	// baseline: a fault-free run on the pristine inputs gives the fully patched bytes
	bd := setup("base")
	fixList(bd)
	os.WriteFile(filepath.Join(bd, "p.patch"), []byte(pristinePatch), 0o644)
	for name, src := range pristine {
		os.WriteFile(filepath.Join(bd, "tree", name), []byte(src), 0o644)
	}
	// ... one run per file: what a file becomes does not depend on the others, and a defect that only shows when
	// several files are written in one run must not find its way into the baseline
	var bres *core.CLIResult
	for _, nm := range names {
		baseArgs := append(append([]string{"-p", "../p.patch"}, flags...), nm)
		bres = ctx.RunCLI(core.CLIOpts{Dir: filepath.Join(bd, "tree"), Args: baseArgs, Env: []string{"GOMAXPROCS=1"}})
	}
	patched := map[string]string{}
	for _, f := range files {
		b, _ := os.ReadFile(filepath.Join(bd, "tree", f.name))
		patched[f.name] = string(b)
		if f.src != pristine[f.name] {
			patched[f.name] = f.src // an input-corrupted file must be left exactly as it is
		}
	}
	if ft.Input == "patch-list-is-a-directory" || ft.Input == "patch-list-line-too-long" || nothingPatched {
		for _, f := range files {
			patched[f.name] = f.src // the patches could not be loaded: nothing may change
		}
	}
	if patch != pristinePatch {
		for _, f := range files {
			patched[f.name] = f.src // the whole patch is faulty: nothing may change
		}
		if ft.Input == "rewrite-error-plus-other-change" {
			// only the target fails; the others are patched by the first change
			for _, f := range files {
				if f.name != files[tgt].name {
					b, _ := os.ReadFile(filepath.Join(bd, "tree", f.name))
					patched[f.name] = string(b)
				}
			}
		}
	}
	_ = bres

	// faulted run
	fd := setup("fault")
	fixList(fd)
	tree := filepath.Join(fd, "tree")
	opts := core.CLIOpts{Dir: tree, Args: args, Env: []string{"GOMAXPROCS=1"}}
	var cr *core.CLIResult
	fired := false
	var raw string
	switch ft.Kind {
	case "fsize", "fsize-longname":
		k := ft.FSize
		opts.FSize = &k
		cr = ctx.RunCLI(opts)
		fired = cr.Exit != 0
	case "inject-fsize":
		k := ft.FSize
		opts.FSize = &k
		cr, _, raw = ctx.RunCLIStrace(opts, "-e", fmt.Sprintf("inject=%s:error=%s:when=%d", ft.Syscall, ft.Errno, ft.When))
		fired = strings.Contains(raw, "INJECTED")
	case "input":
		if ft.Input == "unreadable-patch" {
			cr, _, raw = ctx.RunCLIStrace(opts, "-P", "../p.patch", "-e", "inject=openat:error=EACCES:when=1")
			fired = strings.Contains(raw, "INJECTED")
			if !fired {
				expectFailFile = ""
			}
		} else {
			cr = ctx.RunCLI(opts)
			fired = true
		}
	case "inject":
		cr, _, raw = ctx.RunCLIStrace(opts, "-e", fmt.Sprintf("inject=%s:error=%s:when=%d", ft.Syscall, ft.Errno, ft.When))
		fired = strings.Contains(raw, "INJECTED")
	case "inject-path":
		cr, _, raw = ctx.RunCLIStrace(opts, "-P", filepath.Join(tree, files[tgt].name), "-e", fmt.Sprintf("inject=%s:error=%s:when=%d", ft.Syscall, ft.Errno, ft.When))
		fired = strings.Contains(raw, "INJECTED")
		if !fired && (ft.Input == "unreadable-source" || ft.Input == "unparseable-then-unreadable") {
			expectFailFile = ""
			alsoNamed = nil
		}
	case "kill":
		cr, _, raw = ctx.RunCLIStrace(opts, "-e", fmt.Sprintf("inject=%s:signal=SIGKILL:when=%d", ft.Syscall, ft.When))
		fired = cr.Exit == -1 || strings.Contains(raw, "SIGKILL")
	case "kill-path":
		cr, _, raw = ctx.RunCLIStrace(opts, "-P", filepath.Join(tree, files[tgt].name), "-e", fmt.Sprintf("inject=%s:signal=SIGKILL:when=%d", ft.Syscall, ft.When))
		fired = cr.Exit == -1 || strings.Contains(raw, "SIGKILL")
	case "signal":
		cr, _, raw = ctx.RunCLIStrace(opts, "-e", fmt.Sprintf("inject=%s:signal=%s:when=%d", ft.Syscall, ft.Errno, ft.When))
		fired = strings.Contains(raw, "--- "+ft.Errno)
	}
	res.Evals++
	if fired {
		res.Ob("faults-fired:"+ft.Kind, 1)
	} else {
		res.Ob("faults-not-reached:"+ft.Kind, 1)
	}
	stderr := string(cr.Stderr)
	rep := map[string]string{"fault.txt": ft.String() + "\nargs: " + strings.Join(args, " "), "p.patch": patch, "stderr.txt": stderr, "strace.txt": core.Trunc(raw, 20000)}
	for _, f := range files {
		rep["tree/"+f.name] = f.src
	}
	killed := cr.Exit == -1 && (strings.Contains(cr.Signal, "killed") || ft.Kind == "signal")
	if cc := cr.CrashClass(); cc != "" && !killed && !(strings.Contains(ft.Kind, "fsize") && strings.Contains(cc, "file size")) {
		res.Violate("C16/"+cc, stderr, rep)
		return res
	}
	// classify every *.go file
	var notPatched []string
	ents, _ := os.ReadDir(tree)
	var leftovers []string
	for _, e := range ents {
		if e.IsDir() {
			continue
		}
		known := false
		for _, f := range files {
			if f.name == e.Name() {
				known = true
			}
		}
		if !known {
			leftovers = append(leftovers, e.Name())
			if strings.HasSuffix(e.Name(), ".go") {
				res.Violate("C16/stray-go-file", e.Name(), rep)
			}
		}
	}
	for _, f := range files {
		b, err := os.ReadFile(filepath.Join(tree, f.name))
		got := string(b)
		switch {
		case err != nil:
			res.Violate("C16/file-missing-after-run", fmt.Sprintf("[%s] %s: %v", ft, f.name, err), rep)
			return res
		case got == patched[f.name]:
		case got == f.src:
			notPatched = append(notPatched, f.name)
		default:
			rep["actual-"+f.name] = got
			cls := "half-written-file"
			if len(got) == 0 {
				cls = "file-truncated-to-zero"
			} else if strings.HasPrefix(patched[f.name], got) {
				cls = "file-truncated"
			}
			res.Violate("C16/"+cls, fmt.Sprintf("[%s] %s holds %d bytes that are neither its original (%d bytes) nor its complete patched content (%d bytes)", ft, f.name, len(got), len(f.src), len(patched[f.name])), rep)
			return res
		}
	}
	if fired {
		res.Sig(ft.Kind, ft.Syscall, ft.Errno, ft.FSize, ft.When, ft.Input, n)
	}
	if killed {
		res.Ob("crash-points-survived", 1)
		if len(leftovers) > 0 {
			res.Ob("crash-left-temp-files", len(leftovers))
		}
		return res // no exit status / stderr contract for a killed process
	}
	if len(leftovers) > 0 {
		res.Violate("C16/temporary-file-left-behind", strings.Join(leftovers, ", "), rep)
	}
	// what has to be patched: every file with a site whose source parses and whose result parses
	sort.Strings(notPatched)
	mustReport := len(notPatched) > 0 || expectFailFile != ""
	// files that legitimately stay original
	legit := map[string]bool{}
	for _, f := range files {
		if patched[f.name] == f.src {
			legit[f.name] = true
		}
	}
	realNot := []string{}
	for _, nme := range notPatched {
		if !legit[nme] {
			realNot = append(realNot, nme)
		}
	}
	mustReport = len(realNot) > 0 || expectFailFile != ""
	if cr.Exit != 0 && ft.Kind == "input" && (ft.Input == "no-fault" || ft.Input == "long-patch-list") {
		res.Violate("C16/failure-without-fault", fmt.Sprintf("[%s] nothing stands in the way of this run, yet exit %d: %s", ft, cr.Exit, core.Trunc(stderr, 300)), rep)
		return res
	}
	if cr.Exit == 0 && mustReport {
		res.Violate("C16/exit-0-although-not-everything-was-processed", fmt.Sprintf("[%s] not patched: %v, expected failure on %q", ft, realNot, expectFailFile), rep)
		return res
	}
	if strings.Contains(raw, "write(2, ") && strings.Contains(raw[strings.Index(raw, "write(2, "):], "INJECTED") {
		// the injected fault hit gopatch's own write to stderr: the diagnostic cannot be observed
		res.Ob("fault-hit-stderr-write", 1)
		return res
	}
	if cr.Exit != 0 {
		low := strings.ToLower(stderr)
		if strings.TrimSpace(stderr) == "" {
			res.Violate("C16/failure-without-diagnostic", fmt.Sprintf("[%s] exit %d with empty stderr", ft, cr.Exit), rep)
			return res
		}
		if expectFailFile != "" {
			if !strings.Contains(stderr, expectFailFile) {
				res.Violate("C16/stderr-does-not-name-path", fmt.Sprintf("[%s] stderr does not mention %q: %s", ft, expectFailFile, core.Trunc(stderr, 300)), rep)
			} else {
				for _, an := range alsoNamed {
					if !strings.Contains(stderr, an) {
						res.Violate("C16/stderr-does-not-name-path", fmt.Sprintf("[%s] stderr names %q but not %q, a second path that could not be processed: %s", ft, expectFailFile, an, core.Trunc(stderr, 300)), rep)
					}
				}
				okc := false
				for _, w := range causeWords {
					if strings.Contains(low, w) {
						okc = true
					}
				}
				if !okc {
					res.Violate("C16/stderr-does-not-name-cause", fmt.Sprintf("[%s] stderr names %q but none of the causes %v: %s", ft, expectFailFile, causeWords, core.Trunc(stderr, 300)), rep)
				}
			}
		}
		if ft.Kind == "fsize" || ft.Kind == "inject" || ft.Kind == "inject-path" || ft.Kind == "fsize-longname" || ft.Kind == "inject-fsize" {
			// the first file left unpatched must be named together with the errno text
			want := c16ErrnoText[ft.Errno]
			if ft.Kind == "fsize" {
				want = c16ErrnoText["EFBIG"]
			}
			// double faults: either cause may be the one that is reported
			alt := ""
			switch ft.Kind {
			case "fsize-longname":
				want, alt = c16ErrnoText["EFBIG"], "file name too long"
			case "inject-fsize":
				alt = c16ErrnoText["EFBIG"]
			}
			if alt != "" && strings.Contains(low, alt) {
				want = alt
			}
			if len(realNot) > 0 {
				named := strings.Contains(stderr, "p.patch") // a failure while loading the patch stops everything
				for _, nme := range realNot {
					if strings.Contains(stderr, nme) {
						named = true
					}
				}
				if !named {
					res.Violate("C16/stderr-does-not-name-path", fmt.Sprintf("[%s] files %v were not patched but stderr names none of them: %s", ft, realNot, core.Trunc(stderr, 300)), rep)
				} else if fired && want != "" && !strings.Contains(low, want) {
					res.Violate("C16/stderr-does-not-name-cause", fmt.Sprintf("[%s] stderr lacks %q: %s", ft, want, core.Trunc(stderr, 300)), rep)
				}
			}
		}
	}
	// a per-file failure must not change the result of the other files
	if ft.Kind == "input" && (ft.Input == "unparseable-source" || ft.Input == "unparseable-source-of-another-package" || ft.Input == "unparseable-result" || ft.Input == "rewrite-error-plus-other-change") {
		for _, f := range files {
			if f.name == files[tgt].name {
				continue
			}
			b, _ := os.ReadFile(filepath.Join(tree, f.name))
			if string(b) != patched[f.name] && baselineOK(patched, f.name, f.src) {
				res.Violate("C16/failure-changed-other-file-result", fmt.Sprintf("[%s] %s was not patched because %s failed", ft, f.name, files[tgt].name), rep)
			}
		}
	}
	res.Sample(map[string]any{"fault": ft.String(), "files": n, "exit": cr.Exit, "fired": fired, "not_patched": realNot, "stderr": core.Trunc(stderr, 300)})
	return res
}

func baselineOK(patched map[string]string, name, src string) bool { return patched[name] != src }
