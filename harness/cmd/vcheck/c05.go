package main

import (
	"fmt"
	"go/format"
	"os"
	"path/filepath"
	"runtime"
	"sort"
	"strings"
	"sync"

	"verif/harness/core"
	"verif/harness/gen"
	"verif/harness/ref"
)

// corpusPatterns are simple patterns that occur in real code.
var corpusPatterns = []struct {
	kind  string
	meta  []gen.MetaVar
	lines []string
}{
	{"expr", mv2("x", "expression"), []string{"-len(«x») == 0", "+isEmpty(«x»)"}},
	{"expr", mv2("x", "expression"), []string{"-«x» == nil", "+isNil(«x»)"}},
	{"expr", nil, []string{"-fmt.Errorf(‹1:args›)", "+fmt.Errorf2(‹1:args›)"}},
	{"stmts", nil, []string{" if err != nil {", "   ‹1:stmts›", "-  return ‹2:rets›, err", "+  return ‹2:rets›, wrap(err)", " }"}},
	{"expr", mv2("s", "expression", "x", "expression"), []string{"-append(«s», «x»)", "+push(«s», «x»)"}},
	{"stmts", mv2("m", "expression"), []string{" «m».Lock()", " ‹1:stmts›", "-«m».Unlock()", "+«m».Release()"}},
	{"expr", mv2("a", "expression", "b", "expression"), []string{"-strings.Contains(«a», «b»)", "+contains(«b», «a»)"}},
	{"decl", mv2("N", "identifier"), []string{" type «N» struct {", "   ‹1:fields›", "-  mu sync.Mutex", "+  mu sync.RWMutex", "   ‹2:fields›", " }"}},
	{"stmts", mv2("x", "expression"), []string{" for ‹1:for› {", "-  «x»++", "+  «x» += 1", " }"}},
	{"expr", mv2("T", "expression"), []string{"-&«T»{}", "+new(«T»)"}},
	{"decl", mv2("f", "identifier"), []string{"-func «f»(t *testing.T) {", "+func «f»(t testing.TB) {", "   ‹1:stmts›", " }"}},
	{"expr", mv2("s", "expression"), []string{"-errors.New(«s»)", "+errors.New2(«s», 1)"}},
	{"stmts", nil, []string{"-return nil", "+return nilValue"}},
	{"expr", mv2("x", "expression"), []string{"-panic(«x»)", "+fatal(«x»)"}},
	{"expr", mv2("x", "expression"), []string{"-«x».String()", "+str(«x»)"}},
	{"decl", mv2("n", "identifier", "v", "expression"), []string{"-var «n» = «v»", "+var «n» = wrap(«v»)"}},
	{"expr", mv2("a", "expression", "b", "expression"), []string{"-«a» + «b»", "+add(«a», «b»)"}},
	{"expr", mv2("x", "expression", "i", "expression"), []string{"-«x»[«i»]", "+at(«x», «i»)"}},
	{"expr", nil, []string{"-err", "+err2"}},
	{"expr", nil, []string{"-nil", "+null"}},
	{"expr", mv2("x", "expression", "y", "expression"), []string{"-«x» != nil && «y»", "+both(«x», «y»)"}},
	{"stmts", mv2("x", "identifier", "v", "expression"), []string{"-«x» := «v»", "-defer «x».Close()", "+«x» := opened(«v»)"}},
	{"expr", mv2("f", "expression"), []string{"-«f»(‹1:args›, nil)", "+«f»(‹1:args›)"}},
	{"expr", mv2("x", "expression"), []string{"-uint32(«x»)", "+u32(«x»)"}},
	{"stmts", mv2("c", "expression"), []string{" if «c» {", "-  continue", "+  next()", " }"}},
	{"decl", mv2("r", "identifier", "T", "expression", "f", "identifier"), []string{" func («r» «T») «f»() string {", "+  trace()", "   ‹1:stmts›", " }"}},
	{"stmts", mv2("x", "expression"), []string{" switch «x» {", " case nil:", "+  isNilCase()", "   ‹1:stmts›", " }"}},
}

func corpusChange(i int) *gen.Change {
	t := corpusPatterns[i%len(corpusPatterns)]
	c := &gen.Change{Kind: t.kind, Schema: fmt.Sprintf("corpus-%d", i%len(corpusPatterns)), Meta: t.meta}
	for _, l := range t.lines {
		c.Lines = append(c.Lines, gen.L(l[0], l[1:]))
	}
	return c
}

var (
	corpusOnce  sync.Once
	corpusFiles []string
)

// Corpus returns the sorted list of Go files of the installed standard library.
func Corpus() []string {
	corpusOnce.Do(func() {
		root := filepath.Join(runtime.GOROOT(), "src")
		if _, err := os.Stat(root); err != nil {
			root = "/usr/lib/go-1.23/src"
		}
		if rp, err := filepath.EvalSymlinks(root); err == nil {
			root = rp
		}
		filepath.Walk(root, func(p string, info os.FileInfo, err error) error {
			if err != nil {
				return nil
			}
			if info.IsDir() {
				b := filepath.Base(p)
				if b == "testdata" || b == "vendor" || strings.HasPrefix(b, ".") || strings.HasPrefix(b, "_") {
					return filepath.SkipDir
				}
				return nil
			}
			if strings.HasSuffix(p, ".go") && info.Size() < 80_000 && info.Size() > 200 {
				corpusFiles = append(corpusFiles, p)
			}
			return nil
		})
		sort.Strings(corpusFiles)
	})
	return corpusFiles
}

// judgeOutside checks that everything outside the reference's sites is preserved: every
// declaration in which the reference finds nothing must be canonically identical, the
// number and order of declarations and the package clause unchanged; declarations with
// sites are compared against the full expectation.
func judgeOutside(pat *ref.Pattern, src string, run engineRun, added []ref.Import) (class, detail string, sitedDecls, cleanDecls int, inconcl string) {
	in, _, _, err := ref.ParseFile([]byte(src), false)
	if err != nil {
		return "", "", 0, 0, "input does not parse for the reference"
	}
	if run.Pan != "" {
		return "engine-panic:" + core.PanicSignature(run.Pan), run.Pan, 0, 0, ""
	}
	if run.Err != "" {
		return "", "", 0, 0, "engine reported an error (judged by C03/C07): " + run.Err
	}
	out, _, _, err := ref.ParseFile([]byte(run.Out), true)
	if err != nil {
		return "unparseable-output", err.Error(), 0, 0, ""
	}
	if out.Pkg != in.Pkg {
		return "package-clause-changed", in.Pkg + " -> " + out.Pkg, 0, 0, ""
	}
	if run.Out != src {
		in.Imports = append(in.Imports, added...)
	}
	if !sameImports(in.Imports, out.Imports) {
		return "imports-changed", fmt.Sprintf("%v -> %v", in.Imports, out.Imports), 0, 0, ""
	}
	if len(out.Decls) != len(in.Decls) {
		return "declaration-count-changed", fmt.Sprintf("%d -> %d", len(in.Decls), len(out.Decls)), 0, 0, ""
	}
	// strict view (parentheses significant): the gofmt-formatted input against the output.
	// go/printer strips some redundant parentheses (parameter types, control clauses, ((x)));
	// formatting the input with the same printer makes both sides comparable exactly.
	var strictIn, strictOut *ref.File
	if fsrc, ferr := format.Source([]byte(src)); ferr == nil && run.Out != src { // an unmatched file is returned byte for byte, not re-printed
		if a, _, _, e1 := ref.ParseFile(fsrc, false); e1 == nil {
			if b, _, _, e2 := ref.ParseFile([]byte(run.Out), false); e2 == nil && len(a.Decls) == len(in.Decls) && len(b.Decls) == len(in.Decls) {
				strictIn, strictOut = a, b
			}
		}
	}
	unrepresentable := 0
	defer func() {
		if unrepresentable > 0 && class == "" && inconcl == "" {
			inconcl = "go/printer cannot represent the expected rewrite of a declaration"
		}
	}()
	for i, d := range in.Decls {
		rw := ref.NewRewriter(pat, false)
		exp := rw.Rewrite(d)
		if rw.St.Unbound || rw.GaveUp() {
			return "", "", 0, 0, "reference gave up"
		}
		touched := rw.St.Sites+rw.St.Nested+rw.St.Later+rw.St.Misfit > 0
		if !touched {
			cleanDecls++
			if !ref.Equal(out.Decls[i], ref.StripParens(d)) {
				return "untouched-declaration-changed", fmt.Sprintf("declaration %d has no instance of the pattern but differs: %s", i, ref.FirstDiff(out.Decls[i], ref.StripParens(d), "")), sitedDecls, cleanDecls, ""
			}
			if strictIn != nil && !ref.Equal(strictOut.Decls[i], strictIn.Decls[i]) {
				return "untouched-declaration-changed/parentheses", fmt.Sprintf("declaration %d has no instance of the pattern but its parenthesisation differs from gofmt(input): %s", i, ref.FirstDiff(strictOut.Decls[i], strictIn.Decls[i], "")), sitedDecls, cleanDecls, ""
			}
			continue
		}
		sitedDecls++
		if ref.ExposedComposite(exp) {
			continue
		}
		if !ref.Matches(out.Decls[i], ref.StripParens(exp)) {
			if !ref.PrinterLosesParens(exp) && !printerRepresents(exp) {
				unrepresentable++
				continue
			}
			return "changed-outside-fragment", fmt.Sprintf("declaration %d (%d sites): %s", i, rw.St.Sites, ref.FirstDiff(out.Decls[i], ref.StripParens(exp), "")), sitedDecls, cleanDecls, ""
		}
	}
	return "", "", sitedDecls, cleanDecls, ""
}

func init() {
	core.Register(&core.Prop{
		ID:    "C05",
		Level: "exploration",
		Rule: "cases: (a) 27 simple patterns that occur in real code x a seed-determined sample of the Go standard library sources (GOROOT/src, ~8000 files) used as arbitrary surrounding code; " +
			"(b) generated files of 20-60 declarations (generics, labels, struct tags, raw strings, build constraints, closures, comments) with 1-10 planted sites of a random pattern. Library API and CLI (in place). " +
			"Oracle: package clause, import set, number and order of declarations unchanged; every declaration in which the reference finds no instance is canonically identical to the input; " +
			"declarations with sites equal the reference expectation (so nothing outside the site subtrees differs). non-trivial = file has >=1 site and >=3 site-free declarations; distinct = (file, pattern).",
		Assumptions: []string{"reference model locates sites; canonical trees ignore layout, comments and redundant parentheses; number literals compared in gofmt normal form"},
		Cases: func(tier string) int {
			if tier == "thorough" {
				return 12000
			}
			return 1500
		},
		Floor: func(string) int { return 200 },
		Run:   runC05,
	})
}

func runC05(ctx *core.Ctx, idx int) *core.Result {
	res := &core.Result{}
	r := ctx.Rand("c05", idx)
	var c *gen.Change
	var srcs, names []string
	guardFails := map[int]bool{}
	if idx%3 != 2 {
		c = corpusChange(idx / 3 * 2)
		if idx%3 == 1 {
			c = corpusChange(idx/3*2 + 1)
		}
		files := Corpus()
		if len(files) == 0 {
			res.Inconcl++
			res.Ob("inconclusive:no-corpus", 1)
			return res
		}
		for len(srcs) < 10 {
			p := files[r.Intn(len(files))]
			b, err := os.ReadFile(p)
			if err != nil || !gen.Parses(string(b)) {
				continue
			}
			srcs = append(srcs, string(b))
			names = append(names, p[strings.Index(p, "/src/")+1:])
		}
		if idx%9 < 2 {
			// a pattern abstracted from a fragment of the first file itself (it has at least that instance)
			g := gen.NewG(r)
			kind := []string{"expr", "stmts", "decl"}[(idx/9)%3]
			if fr := g.CorpusFragment(kind, []byte(srcs[0])); fr != "" {
				if ac := g.AbstractFrom(kind, fr); ac != nil {
					c = ac
					res.Ob("patterns-abstracted-from-the-corpus-file", 1)
				}
			}
		}
	} else {
		g := gen.NewG(r)
		g.Comment = true
		c = g.RandomChangeWide()
		pkgGuard := idx%6 == 2
		pkgName := "p"
		if idx%10 == 8 {
			// the code of the patch is spelled like the package name (and like an import name): the package clause and the
			// imports are not code and stay as they are
			pkgGuard, pkgName = false, "tgtpkg"
			c = &gen.Change{Kind: "expr", Schema: "c05-identifier-like-package-name", Lines: []gen.Line{gen.L('-', "tgtpkg"), gen.L('+', "renamedpkg")}}
			res.Ob("patches-spelled-like-the-package-name", 1)
		}
		for f := 0; f < 4; f++ {
			plants, _ := g.InstancePlants(c, 1+r.Intn(10), r.Intn(3))
			hdr := ""
			if r.Intn(2) == 0 {
				hdr = "//go:build linux || darwin\n\n"
			}
			pkg := pkgName
			if pkgGuard && f%2 == 1 {
				pkg = "p_test" // another package: a change guarded by "package p" must leave the file alone
				guardFails[len(srcs)] = true
			}
			srcs = append(srcs, g.File(gen.FileOpts{Header: hdr, Pkg: pkg, Decls: 20 + r.Intn(40), Plants: plants}))
			names = append(names, fmt.Sprintf("generated-%d-%d", idx, f))
		}
		if pkgGuard {
			c.Guards = []gen.Line{gen.L(' ', "package p"), gen.L(' ', "")}
			res.Ob("patches-with-package-guard", 1)
		}
	}
	pat, err := c.RefPattern()
	if err != nil {
		res.Inconcl++
		return res
	}
	if idx%5 == 4 {
		// the patch also adds an import: a file without imports gets a new first declaration
		withAddedImport(c)
		res.Ob("patches-with-added-import", 1)
	}
	pt := c.PatchText()
	paths := [][]engineRun{applyAPI(pt, srcs)}
	pnames := []string{"api"}
	if idx%4 == 0 {
		runs, _ := applyCLI(ctx, pt, srcs)
		paths = append(paths, runs)
		pnames = append(pnames, "cli")
	}
	for pi, runs := range paths {
		for i, src := range srcs {
			res.Evals++
			if guardFails[i] {
				if runs[i].Pan == "" && runs[i].Err == "" && runs[i].Out != src {
					res.Violate("C05/file-of-another-package-changed", fmt.Sprintf("[%s path, %s, file %s] the patch is guarded by 'package p', the file is in package p_test", pnames[pi], c.Schema, names[i]), replayFiles(pt, src, runs[i].Out))
				}
				res.Ob("files-of-another-package", 1)
				continue
			}
			class, detail, sited, clean, inc := judgeOutside(pat, src, runs[i], addedImports(c))
			if inc != "" {
				res.Inconcl++
				res.Ob("inconclusive:"+strings.SplitN(inc, ":", 2)[0], 1)
				continue
			}
			res.Ob("declarations-compared-untouched", clean)
			res.Ob("declarations-with-sites", sited)
			res.Ob("runs:"+pnames[pi], 1)
			if sited > 0 {
				res.Ob("files-rewritten", 1)
			}
			if sited > 0 && clean >= 3 {
				res.Sig(names[i], c.Skeleton())
			}
			if class != "" {
				res.Violate("C05/"+class, fmt.Sprintf("[%s path, %s, file %s] %s", pnames[pi], c.Schema, names[i], detail), replayFiles(pt, src, runs[i].Out))
			} else if sited > 0 && pi == 0 {
				res.Sample(map[string]any{"patch": pt, "file": names[i], "declarations_with_sites": sited, "untouched_declarations_compared": clean})
			}
		}
	}
	return res
}
