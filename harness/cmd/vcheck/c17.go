package main

import (
	"fmt"
	"go/ast"
	"go/format"
	"go/parser"
	"go/token"
	"os"
	"regexp"
	"strings"

	"verif/harness/core"
	"verif/harness/gen"
	"verif/harness/ref"
)

// declComments is the comment model of one top-level declaration.
type declComments struct {
	Canon     *ref.N
	IsImport  bool
	ImportKey string
	Doc       []string // comment group ending on the line before the declaration
	Interior  []string // comments inside [Pos, End]
	Trailing  []string // comments after End on the same line
	Detached  []string // free-standing comments between the previous declaration and this one
}

type fileComments struct {
	Header     []string // comments before the end of the package clause
	Decls      []declComments
	ClauseLine []string // the comments of Header that stand behind the package clause on its line
	Pkg        string
	EOF        []string // comments after the last declaration
	All        []string
}

var c17Directive = regexp.MustCompile(`^//(line |extern |export |[a-z0-9]+:[a-z0-9])`)

func modelComments(src string) (*fileComments, error) {
	fs := token.NewFileSet()
	f, err := parser.ParseFile(fs, "x.go", src, parser.ParseComments|parser.SkipObjectResolution)
	if err != nil {
		return nil, err
	}
	fc := &fileComments{Pkg: f.Name.Name}
	for _, d := range f.Decls {
		dc := declComments{Canon: ref.StripParens(ref.Canon(d, false))}
		if g, ok := d.(*ast.GenDecl); ok && g.Tok == token.IMPORT {
			dc.IsImport = true
			for _, sp := range g.Specs {
				is := sp.(*ast.ImportSpec)
				if is.Name != nil {
					dc.ImportKey += is.Name.Name + " "
				}
				dc.ImportKey += is.Path.Value + ";" // the specs, whether or not the declaration has parentheses
			}
		}
		fc.Decls = append(fc.Decls, dc)
	}
	line := func(p token.Pos) int { return fs.PositionFor(p, false).Line } // physical lines, whatever //line directives say
	for _, cg := range regroupComments(fs, f, src) {
		for _, c := range realComments(cg) {
			fc.All = append(fc.All, c.Text)
		}
		if cg.Pos() < f.Name.End() || line(cg.Pos()) == line(f.Name.Pos()) {
			// header and package doc, and a comment on the package clause's own line (an import comment)
			for _, c := range realComments(cg) {
				fc.Header = append(fc.Header, c.Text)
				if cg.Pos() >= f.Name.End() {
					fc.ClauseLine = append(fc.ClauseLine, c.Text)
				}
			}
			continue
		}
		placed := false
		for i, d := range f.Decls {
			switch {
			case cg.Pos() >= d.Pos() && cg.End() <= d.End():
				for _, c := range realComments(cg) {
					fc.Decls[i].Interior = append(fc.Decls[i].Interior, c.Text)
				}
				placed = true
			case cg.Pos() >= d.End() && line(cg.Pos()) == line(d.End()):
				// the first comment trails the declaration; the rest of the group too
				for _, c := range realComments(cg) {
					fc.Decls[i].Trailing = append(fc.Decls[i].Trailing, c.Text)
				}
				placed = true
			}
			if placed {
				break
			}
		}
		if placed {
			continue
		}
		// before some declaration?
		for i, d := range f.Decls {
			if cg.End() <= d.Pos() {
				if line(cg.End())+1 == line(d.Pos()) {
					// gofmt's doc comment form keeps directive lines (//line, //go:...) at the end of the comment: layout
					var dirs []string
					for _, c := range realComments(cg) {
						if c17Directive.MatchString(c.Text) {
							dirs = append(dirs, c.Text)
							continue
						}
						fc.Decls[i].Doc = append(fc.Decls[i].Doc, c.Text)
					}
					fc.Decls[i].Doc = append(fc.Decls[i].Doc, dirs...)
				} else {
					for _, c := range realComments(cg) {
						fc.Decls[i].Detached = append(fc.Decls[i].Detached, c.Text)
					}
				}
				placed = true
				break
			}
		}
		if !placed {
			for _, c := range realComments(cg) {
				fc.EOF = append(fc.EOF, c.Text)
			}
		}
	}
	return fc, nil
}

// regroupComments groups the comments of a file by physical adjacency (next comment starts on the line after the
// previous one ends, nothing but white space in between). go/parser groups by line numbers as //line directives
// renumber them, so whether a directive and the comment below it form one group depends on the numbers in the
// directive and on how many lines precede it: not on anything the rewrite did to them.
func regroupComments(fs *token.FileSet, f *ast.File, src string) []*ast.CommentGroup {
	var out []*ast.CommentGroup
	tf := fs.File(f.Pos())
	var prev *ast.Comment
	for _, cg := range f.Comments {
		for _, c := range cg.List {
			joined := false
			if prev != nil {
				a, b := tf.Offset(prev.End()), tf.Offset(c.Pos())
				if a <= b && b <= len(src) && strings.TrimSpace(src[a:b]) == "" && fs.PositionFor(c.Pos(), false).Line <= fs.PositionFor(prev.End(), false).Line+1 {
					joined = true
				}
			}
			if joined {
				g := out[len(out)-1]
				g.List = append(g.List, c)
			} else {
				out = append(out, &ast.CommentGroup{List: []*ast.Comment{c}})
			}
			prev = c
		}
	}
	return out
}

func nonImport(ds []declComments) []declComments {
	var out []declComments
	for _, d := range ds {
		if !d.IsImport {
			out = append(out, d)
		}
	}
	return out
}

func joinC(xs []string) string { return strings.Join(xs, " | ") }

// judgeComments applies the C17 oracle to one (input, output) pair.
func judgeComments(src, out string) (class, detail string, untouchedWithComments int, inconcl string) {
	// the input in gofmt's layout: where comment groups begin and end, and where directive lines stand in a doc
	// comment, is decided by gofmt (and depends on the numbers in //line directives); the output is in that layout
	if fsrc, ferr := format.Source([]byte(src)); ferr == nil {
		src = string(fsrc)
	}
	a, err := modelComments(src)
	if err != nil {
		return "", "", 0, "input does not parse"
	}
	b, err := modelComments(out)
	if err != nil {
		return "unparseable-output", err.Error(), 0, ""
	}
	// global multiset inclusion
	cnt := map[string]int{}
	for _, c := range a.All {
		cnt[c]++
	}
	for _, c := range b.All {
		cnt[c]--
		if cnt[c] < 0 {
			return "comment-invented-or-duplicated", fmt.Sprintf("comment %q occurs more often in the output than in the input", c), 0, ""
		}
	}
	// header and package comments: all there, once, in order. A comment of a rewritten declaration that ends up on
	// the package clause's line (merged lines) is not invented (the multiset check above) and is tolerated here.
	if a.Pkg != b.Pkg && len(a.ClauseLine) > 0 {
		// the patch rewrote the package clause: the comment behind it on that line stands on rewritten code
		a.Header = a.Header[:len(a.Header)-len(a.ClauseLine)]
	}
	hi := 0
	for _, c := range b.Header {
		if hi < len(a.Header) && a.Header[hi] == c {
			hi++
		}
	}
	if hi != len(a.Header) {
		return "header-comments-changed", fmt.Sprintf("%q => %q", joinC(a.Header), joinC(b.Header)), 0, ""
	}
	// an import declaration that is still there with the same specs keeps its doc comment (a cgo preamble is one)
	for _, ia := range a.Decls {
		if !ia.IsImport || len(ia.Doc)+len(ia.Interior)+len(ia.Trailing) == 0 {
			continue
		}
		for _, ib := range b.Decls {
			if ib.IsImport && ia.ImportKey == ib.ImportKey && joinC(ia.Doc) != joinC(ib.Doc) {
				return "doc-comment-of-untouched-import-declaration", fmt.Sprintf("%q => %q", joinC(ia.Doc), joinC(ib.Doc)), 0, ""
			}
			if inA, inB := joinC(append(append([]string{}, ia.Interior...), ia.Trailing...)), joinC(append(append([]string{}, ib.Interior...), ib.Trailing...)); ib.IsImport && ia.ImportKey == ib.ImportKey && inA != inB {
				return "comment-in-untouched-import-declaration", fmt.Sprintf("%q => %q", inA, inB), 0, ""
			}
		}
	}
	da, db := nonImport(a.Decls), nonImport(b.Decls)
	if len(da) != len(db) {
		return "", "", 0, "declaration count changed (C05)"
	}
	untouched := make([]bool, len(da))
	for i := range da {
		untouched[i] = ref.Equal(da[i].Canon, db[i].Canon)
	}
	for i := range da {
		if !untouched[i] {
			continue
		}
		if len(da[i].Doc)+len(da[i].Interior)+len(da[i].Trailing) > 0 {
			untouchedWithComments++
		}
		importComments := false
		for _, d := range a.Decls {
			if d.IsImport && len(d.Doc)+len(d.Interior)+len(d.Trailing)+len(d.Detached) > 0 {
				importComments = true
			}
		}
		// merging import declarations leaves the comments of the merged ones behind the import block, in front of the
		// first declaration that follows
		afterImports := i == 0 && importComments && strings.HasSuffix(joinC(append(append([]string{}, db[i].Detached...), db[i].Doc...)), joinC(append(append([]string{}, da[i].Detached...), da[i].Doc...)))
		if joinC(da[i].Doc) != joinC(db[i].Doc) && joinC(da[i].Doc) != joinC(append(append([]string{}, db[i].Detached...), db[i].Doc...)) && !afterImports {
			return "doc-comment-of-untouched-declaration", fmt.Sprintf("declaration %d: doc %q => %q (detached %q)", i, joinC(da[i].Doc), joinC(db[i].Doc), joinC(db[i].Detached)), untouchedWithComments, ""
		}
		if joinC(da[i].Interior) != joinC(db[i].Interior) {
			return "interior-comment-of-untouched-declaration", fmt.Sprintf("declaration %d: %q => %q", i, joinC(da[i].Interior), joinC(db[i].Interior)), untouchedWithComments, ""
		}
		if joinC(da[i].Trailing) != joinC(db[i].Trailing) {
			// gofmt may move a trailing comment of a one-line declaration; accept it when it
			// still sits in this declaration's interior
			if joinC(da[i].Trailing) != joinC(append(append([]string{}, db[i].Interior...), db[i].Trailing...)) || len(da[i].Interior) > 0 {
				return "trailing-comment-of-untouched-declaration", fmt.Sprintf("declaration %d: %q => %q", i, joinC(da[i].Trailing), joinC(db[i].Trailing)), untouchedWithComments, ""
			}
		}
		// detached comments before an untouched declaration whose predecessor is untouched too
		if (i == 0 || untouched[i-1]) && len(da[i].Detached) > 0 {
			got := append(append([]string{}, db[i].Detached...), db[i].Doc...)
			want := append(append([]string{}, da[i].Detached...), da[i].Doc...)
			importComments := false
			for _, d := range a.Decls {
				if d.IsImport && len(d.Doc)+len(d.Interior)+len(d.Trailing) > 0 {
					importComments = true
				}
			}
			if i == 0 && importComments && strings.HasSuffix(joinC(got), joinC(want)) {
				// merging / sorting import declarations moves their comments behind the import block
				continue
			}
			if joinC(got) != joinC(want) {
				return "detached-comment-between-untouched-declarations", fmt.Sprintf("before declaration %d: %q => %q", i, joinC(want), joinC(got)), untouchedWithComments, ""
			}
		}
	}
	if len(da) > 0 && untouched[len(da)-1] && joinC(a.EOF) != joinC(b.EOF) {
		return "trailing-file-comment", fmt.Sprintf("%q => %q", joinC(a.EOF), joinC(b.EOF)), untouchedWithComments, ""
	}
	return "", "", untouchedWithComments, ""
}

var c17Patches = []string{
	"@@\nvar x, y expression\n@@\n-foo(x, y)\n+bar(y, x)\n",
	"@@\nvar x expression\nvar v identifier\n@@\n-v := foo(x, 1)\n+v := bar(x)\n+use(v)\n",
	"@@\nvar x expression\n@@\n if x != nil {\n   ...\n-  foo(x, 1)\n+  bar(x)\n   ...\n }\n",
	"@@\nvar x expression\n@@\n other(x)\n-foo(x, 1)\n",
	"@@\nvar f identifier\n@@\n-func f() int {\n+func f() (int, error) {\n   ...\n }\n",
	"@@\n@@\n for ... {\n-  foo(1, 1)\n+  bar()\n }\n",
	"@@\nvar f identifier\n@@\n func f() int {\n+  enter()\n   ...\n }\n",
	"@@\nvar N identifier\n@@\n type N struct {\n   ...\n-  A int\n+  A int64\n   ...\n }\n",
	"@@\nvar n identifier\nvar v expression\n@@\n-var n = v\n+var n = wrap(v)\n",
	"@@\n@@\n-return 0\n+return zero()\n",
	"@@\n@@\n-other\n+another\n",
	"@@\nvar f identifier\n@@\n-func f() int {\n+func f(ctx Ctx) int {\n   ...\n }\n",
	"@@\nvar f identifier\n@@\n-func f(tgtMarker int) {\n-  ...\n-}\n+var f = 1\n",
	"@@\nvar n identifier\n@@\n-var n = tgtFn\n+func n() {\n+  tgtFn()\n+}\n",
	"@@\nvar N identifier\n@@\n-type N tgtAlias\n+type N = tgtAlias\n",
	// import-removing changes (the first, a middle or the only spec of a block; single-line imports)
	"@@\nvar x expression\n@@\n-import \"fmt\"\n\n-fmt.Println(x)\n+println(x)\n",
	"@@\nvar x expression\n@@\n-import \"os\"\n\n-os.Exit(x)\n+exit(x)\n",
	"@@\nvar x expression\n@@\n-import \"os\"\n+import \"example.com/sys\"\n\n-os.Exit(x)\n+sys.Exit(x)\n",
}

var c17PlusCommentPatches = []string{
	"@@\nvar N identifier\n@@\n type N struct {\n   ...\n-  Name string\n+  // Host to listen on.\n+  Host string // defaults to localhost\n   ...\n }\n",
	"@@\nvar n identifier\n@@\n-var n = 1\n+// n is documented by the patch\n+var n = 2 // two\n",
	"@@\nvar N identifier\n@@\n type N interface {\n   ...\n-  Close() error\n+  // Shut closes.\n+  Shut() error // was Close\n   ...\n }\n",
	"@@\nvar N identifier\n@@\n-type N struct {\n-  ...\n-}\n+// N is replaced.\n+type N struct {\n+  // only field\n+  X int // x\n+}\n",
	"@@\nvar f identifier\n@@\n func f() {\n+  // entering\n+  enter() // trace\n   ...\n }\n",
}

// commentDenseFile generates a file with comments of every kind at every attachment point.
func commentDenseFile(g *gen.G) string { return commentDenseFileImports(g, false) }

// c17LineDirectives: the generated files carry //line directives (see runC17).
var c17LineDirectives = false

// commentDenseFileImports: with needImports the file always has import declarations (for import-changing patches).
func commentDenseFileImports(g *gen.G, needImports bool) string {
	r := g.R
	cn := 0
	cm := func(kind string) string {
		cn++
		switch kind {
		case "line":
			return fmt.Sprintf("// c%d", cn)
		case "directive":
			return fmt.Sprintf("//go:generate echo c%d", cn)
		default:
			return fmt.Sprintf("/* c%d */", cn)
		}
	}
	var sb strings.Builder
	if r.Intn(2) == 0 {
		sb.WriteString(cm("line") + "\n" + cm("line") + "\n\n")
	}
	if r.Intn(3) == 0 {
		sb.WriteString("//go:build linux\n\n")
	}
	if r.Intn(2) == 0 {
		sb.WriteString(cm("line") + "\n")
	}
	// the package clause may carry a comment of its own (an import comment)
	switch r.Intn(6) {
	case 0:
		sb.WriteString("package p " + cm("line") + "\n\n")
	case 1:
		sb.WriteString("package p // import \"example.com/p\"\n\n")
	case 2:
		// more than one comment behind the package clause, on its line
		sb.WriteString("package p " + cm("block") + " // import \"example.com/p\"\n\n")
	case 3:
		// an import comment on the line, a note right below it
		sb.WriteString("package p // import \"example.com/p\"\n" + cm("line") + "\n\n")
	default:
		sb.WriteString("package p\n\n")
	}
	hasImports := false
	layout := r.Intn(7)
	if needImports {
		layout = []int{0, 2, 3, 4, 4, 7, 7, 8, 8, 9, 9}[r.Intn(11)]
	}
	switch layout {
	case 9:
		// a single import: when a patch removes it, the first declaration of the file goes
		sb.WriteString("import \"os\"\n\n")
		hasImports = true
	case 7:
		// single-spec import declarations, the later ones documented (a cgo preamble is such a doc comment)
		sb.WriteString("import \"os\"\n\n// #include <stdio.h>\nimport \"C\"\n\n" + cm("line") + "\nimport \"fmt\"\n\n")
		hasImports = true
	case 8:
		// a removable import in front of a parenthesised single-spec group that has comments of its own
		sb.WriteString("import \"os\"\n\n" + cm("line") + "\nimport (\n\t" + cm("line") + "\n\t\"fmt\" " + cm("line") + "\n)\n\n")
		hasImports = true
	case 4:
		// several import declarations: adding or removing an import merges them
		sb.WriteString("import \"os\"\nimport \"fmt\"\nimport \"strings\"\n\n")
		hasImports = true
	case 0, 1:
		sb.WriteString("import (\n\t\"fmt\" " + cm("line") + "\n\t" + cm("line") + "\n\t\"os\"\n)\n\n")
		hasImports = true
	case 2:
		sb.WriteString("import (\n\t\"fmt\"\n\t\"os\"\n\t\"strings\"\n)\n\n")
		hasImports = true
	case 3:
		sb.WriteString("import \"os\"\nimport \"fmt\" " + cm("line") + "\n\n")
		hasImports = true
	}
	if needImports && r.Intn(2) == 0 {
		// the declaration right behind the imports: undocumented, with comments inside, nothing to rewrite in it
		fmt.Fprintf(&sb, "type TFirst struct {\n\t%s\n\tA int %s\n\tB string\n\t%s\n}\n\n", cm("line"), cm("line"), cm("block"))
	}
	nd := 2 + r.Intn(7)
	lineDirectives := c17LineDirectives // generated-parser style: //line directives renumber what follows
	for i := 0; i < nd; i++ {
		if lineDirectives && r.Intn(2) == 0 {
			fmt.Fprintf(&sb, "//line gram%d.y:%d\n", i, 1+r.Intn(40))
			if r.Intn(2) == 0 {
				sb.WriteString("\n")
			}
		}
		if r.Intn(3) == 0 {
			sb.WriteString(cm("line") + "\n\n") // free-standing
		}
		switch r.Intn(4) {
		case 0:
			sb.WriteString(cm("line") + "\n")
		case 1:
			sb.WriteString(cm("line") + "\n" + cm("line") + "\n")
		case 2:
			sb.WriteString(cm("directive") + "\n")
		}
		switch r.Intn(9) {
		case 6:
			fmt.Fprintf(&sb, "func old%d(tgtMarker int) { %s\n\tother(%d) %s\n}%s\n\n", i, cm("line"), i, cm("line"), map[bool]string{true: " " + cm("line"), false: ""}[r.Intn(2) == 0])
			continue
		case 7:
			fmt.Fprintf(&sb, "var w%d = tgtFn%s\n\n", i, map[bool]string{true: " " + cm("line"), false: ""}[r.Intn(2) == 0])
			continue
		case 8:
			fmt.Fprintf(&sb, "type N%d tgtAlias%s\n\n", i, map[bool]string{true: " " + cm("line"), false: ""}[r.Intn(2) == 0])
			continue
		case 0:
			fmt.Fprintf(&sb, "var v%d = %d %s\n\n", i, i, cm("line"))
			continue
		case 1:
			fmt.Fprintf(&sb, "type T%d struct {\n\t%s\n\tA int %s\n\tB string\n\t%s\n}\n\n", i, cm("line"), cm("line"), cm("block"))
			continue
		case 2:
			fmt.Fprintf(&sb, "const (\n\t%s\n\tK%d = iota %s\n\tL%d\n)\n\n", cm("line"), i, cm("line"), i)
			continue
		}
		fmt.Fprintf(&sb, "func f%d() int { %s\n", i, cm("line"))
		ns := 1 + r.Intn(6)
		for j := 0; j < ns; j++ {
			if r.Intn(3) == 0 {
				sb.WriteString("\t" + cm("line") + "\n")
			}
			tail := ""
			if r.Intn(3) == 0 {
				tail = " " + cm("line")
			}
			switch r.Intn(9) {
			case 0:
				if r.Intn(2) == 0 {
					// a site that spans several physical lines and collapses when rewritten
					fmt.Fprintf(&sb, "\tfoo(\n\t\ta%d,\n\t\t1,\n\t)%s\n", j, tail)
				} else {
					fmt.Fprintf(&sb, "\tfoo(a%d, %s 1)%s\n", j, cm("block"), tail)
				}
			case 1:
				fmt.Fprintf(&sb, "\tw%d := foo(b, 1)%s\n", j, tail)
			case 2:
				fmt.Fprintf(&sb, "\tif e != nil {%s\n\t\tg()\n\t\tfoo(e, 1)\n\t\t%s\n\t\th()\n\t}\n", tail, cm("line"))
			case 3:
				fmt.Fprintf(&sb, "\tfor i := range xs {%s\n\t\tfoo(1, 1)\n\t}\n", tail)
			case 4:
				fmt.Fprintf(&sb, "\tother(%s)%s\n", g.Atom(), tail)
			case 5:
				fmt.Fprintf(&sb, "\tswitch k {\n\t%s\n\tcase 1: %s\n\t\tfoo(k, 2)\n\t}\n", cm("line"), cm("line"))
			default:
				if hasImports && r.Intn(2) == 0 {
					fmt.Fprintf(&sb, "\t%s%s\n", []string{"fmt.Println(1)", "os.Exit(2)", "fmt.Println(os.Args)"}[r.Intn(3)], tail)
				} else {
					fmt.Fprintf(&sb, "\tother(%d)%s\n", j, tail)
				}
			}
		}
		fmt.Fprintf(&sb, "\treturn 0 %s\n}%s\n\n", cm("block"), map[bool]string{true: " " + cm("line"), false: ""}[r.Intn(3) == 0])
	}
	if r.Intn(3) == 0 {
		sb.WriteString(cm("line") + "\n")
	}
	return sb.String()
}

func init() {
	core.Register(&core.Prop{
		ID:    "C17",
		Level: "exploration",
		Rule: "cases: comment-dense generated files (file header, //go:build, package doc, doc, end-of-line, free-standing, block comments inside expressions, directives, trailing file comment) with 0-8 rewritten declarations " +
			"interleaved with untouched ones x 15 patches (incl. whole-declaration replacements func<->var, type->alias) and 2-3 change combinations (statement patterns with elision, declaration patterns that change signatures, deletions, multi-change patches), plus standard-library files with the C05 corpus patterns, plus random / schema / abstracted-from-code patterns planted in generated files with comments at every attachment point; library API and CLI. " +
			"Oracle: comments attributed to top-level declarations by source interval on both sides (doc, interior, same-line trailing, detached-before); for every declaration whose syntax is canonically unchanged the lists must be equal and in order; " +
			"header/package comments unchanged; global multiset inclusion (nothing invented or duplicated). non-trivial = file was rewritten and has >=1 untouched declaration carrying comments; distinct = (file hash, patch).",
		Assumptions: []string{"import declarations take part only in the multiset check (sorting/merging moves their comments)",
			"a detached comment is required to survive only when both neighbouring declarations are untouched"},
		Cases: func(tier string) int {
			if tier == "thorough" {
				return 20000
			}
			return 1500
		},
		Floor: func(string) int { return 300 },
		Run:   runC17,
	})
}

func runC17(ctx *core.Ctx, idx int) *core.Result {
	res := &core.Result{}
	r := ctx.Rand("c17", idx)
	g := gen.NewG(r)
	var pt string
	var srcs []string
	lineDirs := false
	if idx%4 == 3 {
		c := corpusChange(idx / 4)
		pt = c.PatchText()
		files := Corpus()
		for len(srcs) < 6 && len(files) > 0 {
			b, err := os.ReadFile(files[r.Intn(len(files))])
			if err == nil && gen.Parses(string(b)) {
				srcs = append(srcs, string(b))
			}
		}
	} else if idx%4 == 2 {
		// any pattern will do: the oracle needs no reference (untouched = canonically unchanged declaration).
		// Random, schema and abstracted-from-code patterns with instances planted in files that carry
		// comments at every attachment point the file generator knows.
		g.Comment = true
		c := g.RandomChangeWide()
		pt = c.PatchText()
		if r.Intn(3) == 0 {
			c2 := g.RandomChangeWide()
			pt += "\n" + c2.PatchText()
		}
		for f := 0; f < 5; f++ {
			plants, _ := g.InstancePlants(c, 1+r.Intn(3), r.Intn(2))
			srcs = append(srcs, g.File(gen.FileOpts{Plants: plants, Decls: 4 + r.Intn(8)}))
		}
		res.Ob("random-pattern-cases", 1)
	} else if idx%16 == 5 {
		// Go comments on '+' lines that the parser attaches to nodes (doc and line comments of fields, specs, methods):
		// they are not in the input, so they are not in the output - also when the file has no comment of its own
		pt = c17PlusCommentPatches[r.Intn(len(c17PlusCommentPatches))]
		for f := 0; f < 4; f++ {
			s := "package p\n\ntype Conf" + fmt.Sprint(f) + " struct {\n\tA int\n\tName string\n}\n\nvar tgtV" + fmt.Sprint(f) + " = 1\n\ntype Svc" + fmt.Sprint(f) + " interface {\n\tClose() error\n}\n\nfunc fn" + fmt.Sprint(f) + "() {\n\tother(1)\n}\n"
			if f%2 == 1 {
				s = commentDenseFile(g) + strings.TrimPrefix(s, "package p\n")
			}
			if gen.Parses(s) {
				srcs = append(srcs, s)
			}
		}
		res.Ob("plus-side-comment-cases", 1)
	} else {
		pi := r.Intn(len(c17Patches))
		pt = c17Patches[pi]
		needImports := pi >= len(c17Patches)-3 // the import-changing patches
		switch r.Intn(5) {
		case 4:
			// an earlier change renames the package (and rewrites something), a later one removes or replaces the
			// first import: the header and package comments are nobody's to delete
			pt = "@@\n@@\n-package p\n+package q\n\n-other\n+another\n" + "\n" + c17Patches[len(c17Patches)-3+r.Intn(3)]
			needImports = true
		case 0:
			pt = pt + "\n" + c17Patches[r.Intn(len(c17Patches))]
		case 1:
			// an earlier change that matches somewhere, then a declaration-replacing change
			pt = c17Patches[r.Intn(3)] + "\n" + c17Patches[12+r.Intn(3)] + "\n" + pt
		}
		// every 5th case: files with //line directives. The import processing of golang.org/x/tools reads line
		// numbers as the directives renumber them and moves comments around on its own (a known finding, probed
		// by c17LineDirectiveProbe), so these files are run with --skip-import-processing: gopatch's own handling
		// of the directives (changed regions, merged lines) is what is being watched
		lineDirs = idx%5 == 1 && !needImports
		c17LineDirectives = lineDirs
		for f := 0; f < 6; f++ {
			s := commentDenseFileImports(g, needImports)
			if gen.Parses(s) {
				srcs = append(srcs, s)
			}
		}
		c17LineDirectives = false
	}
	if idx%64 == 33 {
		c17LineDirectiveProbe(ctx, res)
	}
	if idx%64 == 1 {
		c17AddedImportProbe(res)
		c17GeneratedExtentProbe(res)
		c17BlockEndCommentProbe(res)
		c17LinesThenImportsProbe(res)
		c17SamePathImportProbe(res)
		c17HeaderThenImportsProbe(res)
		c17RespeltNeighbourProbe(res)
	}
	paths := [][]engineRun{applyAPI(pt, srcs)}
	pnames := []string{"api"}
	if lineDirs {
		runs, _ := applyCLI(ctx, pt, srcs, "--skip-import-processing")
		paths, pnames = [][]engineRun{runs}, []string{"cli-skip-import-processing"}
		res.Ob("line-directive-cases", 1)
	} else if idx%3 == 0 {
		runs, _ := applyCLI(ctx, pt, srcs)
		paths = append(paths, runs)
		pnames = append(pnames, "cli")
	}
	for pi, runs := range paths {
		for i, src := range srcs {
			res.Evals++
			run := runs[i]
			if run.Pan != "" {
				res.Violate("C17/engine-panic:"+core.PanicSignature(run.Pan), run.Pan, replayFiles(pt, src, ""))
				continue
			}
			if run.Err != "" {
				res.Inconcl++
				res.Ob("inconclusive:engine-error:"+core.Trunc(core.Skeleton(strings.ReplaceAll(run.Err, "\n", " ")), 60), 1)
				continue
			}
			if run.Out == src {
				res.Ob("files-not-rewritten", 1)
				continue
			}
			res.Ob("files-rewritten:"+pnames[pi], 1)
			class, detail, n, inc := judgeComments(src, run.Out)
			if inc != "" {
				res.Inconcl++
				res.Ob("inconclusive:"+inc, 1)
				continue
			}
			res.Ob("untouched-declarations-with-comments-compared", n)
			if n > 0 {
				res.Sig(core.HashStr(src), pt)
			}
			if strings.Contains(class, "untouched-import-declaration") && strings.Count(pt, "\n@@\n")+strings.Count("\n"+pt, "\n@@\n") > 2 {
				// known finding: in a multi-change patch the snapshot taken after an earlier change no longer knows
				// the comments of the nodes below a declaration
				class += "/after-an-earlier-change"
			}
			if class != "" {
				res.Violate("C17/"+class, fmt.Sprintf("[%s path] %s", pnames[pi], detail), replayFiles(pt, src, run.Out))
			} else if n > 0 && pi == 0 {
				res.Sample(map[string]any{"patch": pt, "input": core.Trunc(src, 1200), "untouched_declarations_with_comments": n})
			}
		}
	}
	return res
}

// realComments lists the comments of a group without empty "//" lines: gofmt's doc comment
// normalisation inserts (and removes) such lines, e.g. between the text of a doc comment and a
// //go: directive, so they are layout, not comment text.
func realComments(cg *ast.CommentGroup) []*ast.Comment {
	var out []*ast.Comment
	for _, c := range cg.List {
		if strings.TrimSpace(c.Text) == "//" {
			continue
		}
		if strings.HasPrefix(c.Text, "/*") && strings.Contains(c.Text, "\n") {
			// go/printer re-indents the lines of a multi-line block comment with the code around it: the
			// leading white space of its lines is layout
			ls := strings.Split(c.Text, "\n")
			for i := range ls {
				ls[i] = strings.TrimLeft(ls[i], " \t")
			}
			c = &ast.Comment{Slash: c.Slash, Text: strings.Join(ls, "\n")}
		}
		out = append(out, c)
	}
	return out
}

// c17LineDirectiveProbe is the directed input of the known finding C17/line-directive-vs-import-processing: with import
// processing on, golang.org/x/tools/internal/imports reads line numbers with token.File.Line, i.e. as //line directives
// renumber them; comments whose renumbered lines fall on the lines of the import block are attached to import specs,
// and a directive in front of a doc comment is moved behind it.
func c17LineDirectiveProbe(ctx *core.Ctx, res *core.Result) {
	src := "package p\n\nimport (\n\t\"fmt\"\n\t\"os\"\n\t\"strings\"\n)\n\n//line gram0.y:2\n\n// c3\n\nfunc old0(marker int) { // c4\n\tother(0) // c5\n} // c6\n\n//line gram1.y:27\n// c10\n// c11\nfunc f1() int {\n\tfoo(b, 1)\n\tfmt.Println(os.Args, strings.ToUpper(\"x\"))\n\treturn 0\n}\n"
	pt := "@@\nvar x, y expression\n@@\n-foo(x, y)\n+bar(y, x)\n"
	runs := applyAPI(pt, []string{src})
	res.Evals++
	if runs[0].Pan != "" || runs[0].Err != "" {
		res.Violate("C17/line-directive-probe-failed", runs[0].Pan+runs[0].Err, replayFiles(pt, src, ""))
		return
	}
	if class, detail, _, _ := judgeComments(src, runs[0].Out); class != "" {
		res.Violate("C17/line-directive-vs-import-processing", "["+class+"] "+detail, replayFiles(pt, src, runs[0].Out))
	}
	// the same file without import processing: gopatch's own part must be right
	cr, _ := applyCLI(ctx, pt, []string{src}, "--skip-import-processing")
	if class, detail, _, _ := judgeComments(src, cr[0].Out); class != "" || cr[0].Err != "" {
		res.Violate("C17/"+class+"/line-directive-without-import-processing", detail+cr[0].Err, replayFiles(pt, src, cr[0].Out))
	}
}

// c17AddedImportProbe is the directed input of the known finding C17/doc-comment-moved-to-added-import: a patch adds an
// import to a file that has none and whose first declaration is documented. astutil.AddNamedImport gives the new import
// declaration the position of the package clause's line, and go/printer then prints the doc comment of the first
// declaration as a trailing comment of the new import.
// c17GeneratedExtentProbe: a later change replaces, by a declaration of another kind, a declaration that an earlier change
// of the same patch generated with a long literal. The comments of the untouched declaration that follows must stay
// (known finding: the generated declaration claims to end behind its text). The same two changes with a short literal,
// and each change alone, are checked as well and must be right.
func c17GeneratedExtentProbe(res *core.Result) {
	src := "package a\n\nvar Greeting = \"hi\"\n\n// Untouched is not mentioned by the patch.\nfunc Untouched() {\n\t// inside Untouched\n\tprintln(\"b\")\n} // trailing Untouched\n\nfunc C() {}\n"
	mk := func(lit string) (string, string) {
		c1 := "@@\n@@\n-var Greeting = \"hi\"\n+var Greeting = \"" + lit + "\"\n"
		c2 := "@@\nvar x expression\n@@\n-var Greeting = x\n+const Greeting = x\n"
		return c1, c2
	}
	long := "hello, world, and everybody else who happens to be reading this message today"
	for _, lit := range []string{long, "yo"} {
		c1, c2 := mk(lit)
		for vi, pt := range []string{c1 + "\n" + c2, c1, c2} {
			runs := applyAPI(pt, []string{src})
			res.Evals++
			if runs[0].Pan != "" || runs[0].Err != "" {
				res.Violate("C17/generated-extent-probe-failed", runs[0].Pan+runs[0].Err, replayFiles(pt, src, ""))
				return
			}
			if class, detail, _, _ := judgeComments(src, runs[0].Out); class != "" {
				cls := "C17/" + class + "/probe-single-change-or-short-literal"
				if vi == 0 && lit == long {
					cls = "C17/comment-of-untouched-declaration-lost/behind-a-replaced-generated-declaration"
				}
				res.Violate(cls, "["+class+"] "+detail, replayFiles(pt, src, runs[0].Out))
			}
		}
	}
}

// c17BlockEndCommentProbe: an untouched declaration whose block ends in a comment (go/ast files such a comment under the
// next declaration) and that has a comment trailing it, in front of an undocumented declaration that a change replaces
// by one of another kind. The comments of the untouched declaration stay where they are.
func c17BlockEndCommentProbe(res *core.Result) {
	as := []string{
		"func Noop() {\n\t// nothing to do\n}",
		"func Two() {\n\twork()\n\n\t// final note\n}",
		"type S struct {\n\tA int\n\n\t// more fields later\n}",
		"var codes = map[string]int{\n\t\"a\": 1,\n\n\t// more codes later\n}",
		"type I interface {\n\tM()\n\n\t// more methods later\n}",
	}
	trails := []string{" // end of A\n\n", "\n// after A\n\n"}
	bs := [][2]string{
		{"const limit = 10", "@@\n@@\n-const limit = 10\n+var limit = 10\n"},
		{"func helper() {}", "@@\n@@\n-func helper() {}\n+var helper = func() {}\n"},
		{"var flag = true", "@@\n@@\n-var flag = true\n+const flag = true\n"},
	}
	for _, a := range as {
		for _, tr := range trails {
			for _, b := range bs {
				src := "package a\n\n// A is not mentioned by the patch.\n" + a + tr + b[0] + "\n\n// Last is not mentioned either.\nfunc Last() {}\n"
				runs := applyAPI(b[1], []string{src})
				res.Evals++
				res.Ob("block-end-comment-probes", 1)
				if runs[0].Pan != "" || runs[0].Err != "" || runs[0].Out == src {
					res.Violate("C17/block-end-comment-probe-failed", runs[0].Pan+runs[0].Err, replayFiles(b[1], src, runs[0].Out))
					return
				}
				if class, detail, _, _ := judgeComments(src, runs[0].Out); class != "" {
					res.Violate("C17/"+class+"/in-front-of-a-replaced-declaration", detail, replayFiles(b[1], src, runs[0].Out))
					return
				}
			}
		}
	}
}

// c17LinesThenImportsProbe: an earlier change removes code that spans several lines at the end of a declaration, a later
// change removes imports from the middle of a group (go/ast's import surgery renumbers the lines below the group). The
// doc comment of the untouched declaration that follows stays its doc comment.
func c17LinesThenImportsProbe(res *core.Result) {
	for nimp := 1; nimp <= 3; nimp++ {
		for _, gap := range []string{"\n\n", "\n"} {
			for _, nlines := range []int{2, 4} {
				var olds, minus, uses []string
				for i := 0; i < nimp; i++ {
					olds = append(olds, fmt.Sprintf("\t\"old%d\"\n", i))
					minus = append(minus, fmt.Sprintf("-import \"old%d\"\n", i))
					uses = append(uses, fmt.Sprintf("old%d.X()", i))
				}
				args := strings.Repeat("\t\t\"a\",\n", nlines)
				src := "package a\n\nimport (\n\t\"fmt\"\n" + strings.Join(olds, "") + ")\n\n// F does things.\nfunc F() {\n\tfmt.Println(\"keep\")\n\ttrace(\n" + args + "\t)\n}" + gap +
					"// G is documented here.\nfunc G() int {\n\treturn 42 // the answer\n}\n\n// H uses the old packages.\nfunc H() int {\n\treturn " + strings.Join(uses, " + ") + "\n}\n"
				pt := "# no tracing\n@@\nvar f identifier\n@@\n func f() {\n   ...\n-  trace(...)\n }\n\n# merged\n@@\n@@\n" + strings.Join(minus, "") + "+import \"newpkg\"\n\n-" + strings.Join(uses, " + ") + "\n+newpkg.Z()\n"
				runs := applyAPI(pt, []string{src})
				res.Evals++
				res.Ob("lines-then-imports-probes", 1)
				if runs[0].Pan != "" || runs[0].Err != "" || !strings.Contains(runs[0].Out, "newpkg.Z()") || strings.Contains(runs[0].Out, "trace(") {
					res.Violate("C17/lines-then-imports-probe-failed", runs[0].Pan+runs[0].Err, replayFiles(pt, src, runs[0].Out))
					return
				}
				if class, detail, _, _ := judgeComments(src, runs[0].Out); class != "" {
					res.Violate("C17/"+class+"/lines-removed-then-imports-removed", detail, replayFiles(pt, src, runs[0].Out))
					return
				}
			}
		}
	}
}

// c17SamePathImportProbe: the file imports one path twice under different names, once in a declaration of its own and once
// in a commented group; a change removes the first. The group is not the declaration the change names, and its comments stay.
func c17SamePathImportProbe(res *core.Result) {
	firsts := []string{"\"os\"", "_ \"os\"", "sys \"os\""}
	seconds := []string{"myos \"os\"", "_ \"os\"", "\"os\""}
	for _, first := range firsts {
		for _, second := range seconds {
			if first == second {
				continue
			}
			for _, extra := range []string{"", "\t\"fmt\" // printing\n"} {
				use := "fmt.Println(1)"
				if extra == "" {
					use = "println(1)"
				}
				src := "package a\n\nimport " + first + "\n\nimport (\n\t// the second import of os\n\t" + second + " // keep me\n" + extra + ")\n\n// F is documented.\nfunc F() { " + use + " }\n"
				pt := "@@\n@@\n-import " + first + "\n\n println(1)\n"
				if extra != "" {
					pt = "@@\n@@\n-import " + first + "\n\n fmt.Println(1)\n"
				}
				if !gen.Parses(src) {
					continue
				}
				runs := applyAPI(pt, []string{src})
				res.Evals++
				res.Ob("same-path-import-probes", 1)
				if runs[0].Pan != "" || runs[0].Err != "" || runs[0].Out == src {
					res.Violate("C17/same-path-import-probe-failed", runs[0].Pan+runs[0].Err, replayFiles(pt, src, runs[0].Out))
					return
				}
				for _, c := range []string{"// the second import of os", "// keep me", "// F is documented."} {
					if strings.Count(runs[0].Out, c) != 1 {
						res.Violate("C17/comment-of-untouched-import-declaration-lost/same-path-under-another-name", fmt.Sprintf("%q occurs %d times in the output", c, strings.Count(runs[0].Out, c)), replayFiles(pt, src, runs[0].Out))
						return
					}
				}
				if !strings.Contains(runs[0].Out, second) {
					res.Violate("C17/same-path-import-probe-failed", "the import of the group is gone", replayFiles(pt, src, runs[0].Out))
					return
				}
			}
		}
	}
}

// c17HeaderThenImportsProbe: the package clause carries a comment, an earlier change replaces one import (the lines of the
// import section are merged), a later change removes another import. The comment behind the package clause is not part of
// any import declaration and stays. (A detached comment in front of the replaced import declaration is the leading comment
// of rewritten code and outside C17.)
func c17HeaderThenImportsProbe(res *core.Result) {
	headers := []string{" // import \"example.com/p\"", " /* the package */"}
	seconds := []string{"import \"fmt\"\n", "import (\n\t\"fmt\"\n\t\"strings\"\n)\n", "// #include <stdio.h>\nimport \"C\"\n\nimport \"fmt\"\n"}
	firsts := [][2]string{
		{"-import \"os\"\n+import \"example.com/sys\"\n\n-os.Exit(x)\n+sys.Exit(x)\n", "sys.Exit(1)"},
		{"-import \"os\"\n+import sys \"example.com/sys/v2\"\n\n-os.Exit(x)\n+sys.Exit(x)\n", "sys.Exit(1)"},
	}
	for _, h := range headers {
		for _, sec := range seconds {
			for _, first := range firsts {
				use := "fmt.Println(2)"
				if strings.Contains(sec, "strings") {
					use = "fmt.Println(strings.ToUpper(\"a\"))"
				}
				src := "package p" + h + "\n\nimport \"os\"\n\n" + sec + "\nfunc F() {\n\tos.Exit(1)\n\t" + use + "\n}\n"
				pt := "@@\nvar x expression\n@@\n" + first[0] + "\n@@\nvar x expression\n@@\n-import \"fmt\"\n\n-fmt.Println(x)\n+println(x)\n"
				if !gen.Parses(src) {
					continue
				}
				runs := applyAPI(pt, []string{src})
				res.Evals++
				res.Ob("header-then-imports-probes", 1)
				if runs[0].Pan != "" || runs[0].Err != "" || !strings.Contains(runs[0].Out, first[1]) || !strings.Contains(runs[0].Out, "println(") {
					res.Violate("C17/header-then-imports-probe-failed", runs[0].Pan+runs[0].Err, replayFiles(pt, src, runs[0].Out))
					return
				}
				for _, c := range []string{strings.TrimSpace(h)} {
					if strings.Count(runs[0].Out, c) != 1 {
						res.Violate("C17/header-comments-changed/import-removed-after-an-earlier-change", fmt.Sprintf("%q occurs %d times in the output", c, strings.Count(runs[0].Out, c)), replayFiles(pt, src, runs[0].Out))
						return
					}
				}
			}
		}
	}
}

// c17RespeltNeighbourProbe: an untouched declaration holds a number literal that gofmt spells otherwise (0XFF, 1E3, 0B1) and has
// a comment trailing it; an earlier change rewrites code elsewhere, a later change replaces the declaration that follows by
// one of another kind. The untouched declaration keeps its comments (its tree is respelt together with the file, which must not
// cost it its comments).
func c17RespeltNeighbourProbe(res *core.Result) {
	lits := []string{"0XFF", "1E3", "0B101", "0O17", "0X1P-2", "0xFF"}
	nexts := [][2]string{
		{"func second() {\n\tfmt.Println(\"bye\")\n}", "-func second() {\n-  ...\n-}\n+var second = 1\n"},
		{"var flag = true", "-var flag = true\n+const flag = true\n"},
	}
	for _, lit := range lits {
		for _, nx := range nexts {
			// the last three: a trailing group of more than one comment (S282), also with the next declaration directly behind it
			for _, trail := range []string{" // after first\n\n", "\n// after first\n\n", " // after first;\n// continued after first\n\n",
				" // after first;\n// continued after first\n", " /* after first */ /* and again */\n\n"} {
				result := "float64"
				if lit == "0xFF" {
					// the spelling gofmt keeps, and a result in parentheses that gofmt drops
					result = "(float64)"
				}
				src := "// Header.\n\n// Package a.\npackage a\n\nimport \"fmt\"\n\n// first is untouched.\nfunc first() " + result + " {\n\t// inside first\n\treturn " + lit + " // trailing in first\n}" + trail +
					nx[0] + "\n\n// third is untouched.\nfunc third() {\n\t// inside third\n\tfmt.Println(\"hello\")\n} // after third\n\nfunc fourth() { fmt.Println(\"rewritten\") }\n"
				pt := "@@\n@@\n-fmt.Println(\"rewritten\")\n+fmt.Print(\"rewritten\")\n\n@@\n@@\n" + nx[1]
				if !gen.Parses(src) {
					continue
				}
				runs := applyAPI(pt, []string{src})
				res.Evals++
				res.Ob("respelt-neighbour-probes", 1)
				if runs[0].Pan != "" || runs[0].Err != "" || !strings.Contains(runs[0].Out, "fmt.Print(\"rewritten\")") || strings.Contains(runs[0].Out, nx[0]) {
					res.Violate("C17/respelt-neighbour-probe-failed", runs[0].Pan+runs[0].Err, replayFiles(pt, src, runs[0].Out))
					return
				}
				if class, detail, _, _ := judgeComments(src, runs[0].Out); class != "" {
					res.Violate("C17/"+class+"/next-to-a-declaration-that-is-respelt", detail, replayFiles(pt, src, runs[0].Out))
					return
				}
			}
		}
	}
}

func c17AddedImportProbe(res *core.Result) {
	src := "package a // import \"x/a\"\n\n// T doc.\ntype T struct{}\n\nfunc f() { legacy(1) }\n"
	pt := "@@\nvar x expression\n@@\n+import \"example.com/bar\"\n\n-legacy(x)\n+bar.New(x)\n"
	runs := applyAPI(pt, []string{src})
	res.Evals++
	if runs[0].Pan != "" || runs[0].Err != "" {
		res.Violate("C17/added-import-probe-failed", runs[0].Pan+runs[0].Err, replayFiles(pt, src, ""))
		return
	}
	if class, detail, _, _ := judgeComments(src, runs[0].Out); class != "" {
		res.Violate("C17/doc-comment-moved-to-added-import", "["+class+"] "+detail, replayFiles(pt, src, runs[0].Out))
	}
	// with an import declaration in the file the same patch leaves the doc comment where it is
	src2 := strings.Replace(src, "\n\n// T doc.", "\n\nimport \"os\"\n\n// T doc.", 1)
	runs = applyAPI(pt, []string{src2})
	if class, detail, _, _ := judgeComments(src2, runs[0].Out); class != "" || runs[0].Err != "" {
		res.Violate("C17/"+class+"/added-import-next-to-existing-one", detail+runs[0].Err, replayFiles(pt, src2, runs[0].Out))
	}
}
