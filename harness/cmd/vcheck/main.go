// Command vcheck decides the properties of /verif/properties.jsonl by runtime monitoring.
package main

import "verif/harness/core"

func main() { core.Main() }
