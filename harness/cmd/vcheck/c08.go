package main

import (
	"fmt"
	"math/rand"
	"os"
	"path/filepath"
	"strings"
	"sync"

	"verif/harness/core"
	"verif/harness/gen"
)

var c08Dict = []string{"...", "@@", "@", "-", "+", " ", "(", ")", "{", "}", "[", "]", ",", ";", ":", ":=", "=", ".", "func", "func(", "for", "for ... {", "if", "else", "switch", "case", "select",
	"return", "var", "const", "type", "struct", "interface", "import", "package", "chan", "<-", "go", "defer", "range", "map", "*", "&", "x", "identifier", "expression", "var x expression",
	"var x identifier", "\"", "`", "'", "//", "/*", "*/", "#", "\n", "\n\n", "\t", "0", "...,", "(...)", "{...}", "[...]", "x...", "...x", "_", "nil", "label:", "goto", "break", "continue", "fallthrough",
	"«", "\x00", "\xff", "é", "import \"fmt\"", "package p", "func (", "func f(", "func (r *T) ", ") {", "}\n"}

var (
	c08Once    sync.Once
	c08Seeds   []string
	c08Targets []string
)

// c08Migrations: patches of several changes that move a file from one import to another step by step, and import
// patches for files with long headers. They are seeds of the mutation workload and are also run as they stand
// (c08Directed).
var c08Migrations = []string{
	"@@\nvar x expression\n@@\n+import \"example.com/new/bar\"\n\n-foo.First(x)\n+bar.First(x)\n\n@@\nvar x expression\n@@\n-import \"example.com/old/foo\"\n+import \"example.com/new/bar\"\n\n-foo.Second(x)\n+bar.Second(x)\n\n@@\n@@\n-neverThere()\n+there()\n",
	"@@\nvar x expression\n@@\n import \"example.com/old/foo\"\n+import \"example.com/new/bar\"\n\n-foo.First(x)\n+bar.First(x)\n\n@@\nvar x expression\n@@\n-import \"example.com/old/foo\"\n import \"example.com/new/bar\"\n\n-foo.Second(x)\n+bar.Second(x)\n\n@@\n@@\n-Stop\n+Halt\n\n@@\n@@\n-Run\n+Start\n",
	"@@\nvar x expression\n@@\n-import \"io/ioutil\"\n+import \"os\"\n\n-ioutil.ReadFile(x)\n+os.ReadFile(x)\n",
	"@@\nvar x expression\n@@\n-import \"io/ioutil\"\n\n-ioutil.ReadFile(x)\n+readFile(x)\n\n@@\n@@\n+import \"example.com/new/bar\"\n\n-legacy(1)\n+bar.New(1)\n",
}

// c08Directed applies the migration patches as they stand to every target, through the library and the CLI.
func c08Directed(ctx *core.Ctx, res *core.Result) {
	for mi, pt := range c08Migrations {
		f, perr, pan := core.ParsePatch("m.patch", []byte(pt))
		if pan != "" || perr != nil {
			res.Violate("C08/migration-patch-rejected", fmt.Sprint(perr, pan), map[string]string{"p.patch": pt})
			continue
		}
		for ti, tgt := range c08Targets {
			res.Evals++
			out, aerr, apan := core.ApplyParsed(f, "t.go", []byte(tgt))
			if apan != "" {
				res.Violate("C08/panic:"+core.PanicSignature(apan), fmt.Sprintf("Apply panicked (migration patch %d, target %d)\n%s", mi, ti, apan), map[string]string{"p.patch": pt, "in.go": tgt})
				break
			}
			if aerr == nil && string(out) != tgt {
				res.Ob("migration-rewrites", 1)
			}
		}
		c08CLI(ctx, res, pt, fmt.Sprintf("migration patch %d as it stands", mi), -1)
	}
}

func c08Init() {
	c08Once.Do(func() {
		for _, rc := range RawCases() {
			c08Seeds = append(c08Seeds, rc.Patch)
		}
		if ents, err := os.ReadDir(filepath.Join(core.RepoDir(), "examples")); err == nil {
			for _, e := range ents {
				if b, err := os.ReadFile(filepath.Join(core.RepoDir(), "examples", e.Name())); err == nil {
					c08Seeds = append(c08Seeds, string(b))
				}
			}
		}
		c08Seeds = append(c08Seeds, c17Patches...)
		c08Seeds = append(c08Seeds, c12Patches...)
		for _, p := range c11Patches {
			c08Seeds = append(c08Seeds, p.Text)
		}
		g := gen.NewG(rand.New(rand.NewSource(12345)))
		for i := range gen.Schemas {
			c08Seeds = append(c08Seeds, g.SchemaChange(i).PatchText())
		}
		for i := range c02Templates {
			c08Seeds = append(c08Seeds, c02Change(i).PatchText())
		}
		for i := range corpusPatterns {
			c08Seeds = append(c08Seeds, corpusChange(i).PatchText())
		}
		// constructs the pattern scanner treats specially (type parameter lists, receivers, variadics, literals
		// holding brackets): their truncations and mutations reach the scanner's bracket-matching loops
		c08Seeds = append(c08Seeds,
			"@@\nvar f identifier\n@@\n-func f[K comparable, V any](m map[K]V) []K {\n+func f[K comparable, V any](m map[K]V, extra int) []K {\n   ...\n }\n",
			"@@\nvar f identifier\n@@\n-func f[S ~[]E, E interface{ ~int | ~string }](s S) E {\n+func f[S ~[]E, E any](s S) E {\n   ...\n }\n",
			"@@\nvar r, T identifier\n@@\n func (r *Recv[T]) Tgt(...) (..., error) {\n+  enter()\n   ...\n }\n",
			"@@\nvar N identifier\n@@\n type N[T any, U comparable] struct {\n   ...\n-  old T\n+  renamed T\n   ...\n }\n",
			"@@\nvar f identifier\nvar x expression\n@@\n-f[int, string](x, args...)\n+f[string, int](args..., x)\n",
			"@@\nvar x expression\n@@\n-target(\"(\", '[', `{`, x, []int{1, 2}[0], map[string][]int{\"a\": {1}})\n+repl(x)\n",
			"@@\nvar f identifier\n@@\n-func f(a, b int, rest ...string) (n int, err error) {\n+func f(ctx Ctx, a, b int, rest ...string) (n int, err error) {\n   ...\n }\n",
			"@@\nvar x expression\n@@\n-go func(a [3]int, m map[string]func(...int) []byte) { target(x) }(...)\n+go run(x)\n",
			"@@\n@@\n-type Tgt interface {\n-  M(...) (..., error)\n-  ~int | ~[]byte\n-}\n+type Tgt any\n",
			// struct fields with tags (the only literal that hangs off an optional field of a node) against structs
			// whose fields have none, other ones, or no name
			"@@\n@@\n type Tagged struct {\n-  Name string `json:\"name\"`\n+  Name string `json:\"n\"`\n   ...\n }\n",
			"@@\nvar T identifier\nvar x expression\n@@\n type T struct {\n   ...\n-  ID x `db:\"id\"`\n+  ID x `db:\"pk\"`\n }\n",
			// several import lines in one change, plain and named by metavariables in either order, on files that
			// import all of the paths
			"@@\nvar errors identifier\nvar x expression\n@@\n import \"fmt\"\n import errors \"errors\"\n\n-errors.New(fmt.Sprintf(x))\n+fmt.Errorf(x)\n",
			"@@\nvar a, b identifier\nvar x expression\n@@\n-import a \"io/ioutil\"\n import \"os\"\n import b \"fmt\"\n+import \"io\"\n\n-a.ReadAll(x)\n+io.ReadAll(x)\n",
			// elisions in lists that go/ast requires to be non-empty: the rewrite can leave them empty
			"@@\nvar x identifier\n@@\n-x, ... = foo()\n+... = foo()\n",
			"@@\nvar x expression\n@@\n-a, b = ..., x\n+a, b = ...\n",
			"@@\nvar x identifier\n@@\n-var x, ... = foo()\n+var ... = foo()\n",
			"@@\nvar x expression\n@@\n switch v {\n-case x, ...:\n+case ...:\n   bump(1)\n }\n",
			"@@\nvar x identifier\n@@\n-for x, ... := range m {\n+for ... := range m {\n   ...\n }\n",
			"@@\nvar x expression\n@@\n-x, ... := <-ch\n+... := <-ch\n",
			// many elisions in nested function types behind a leading one: more than a dozen places where the
			// pattern text is augmented before it is parsed, several of them at the same offset
			"@@\n@@\n-...\n-foo(...)\n-foo(...)\n-foo(func(..., ..., ..., func(..., ..., ..., ..., ...)){})\n+bar()\n",
			"@@\n@@\n-foo(func(..., ..., func(..., ..., ...), ...) (..., error) { ... }, func(..., ..., ..., ..., ...) {}, ...)\n+bar(...)\n",
			"@@\nvar f identifier\n@@\n-...\n-f(...)\n-f(..., func(..., ...) (..., ...) {}, ...)\n-f(func(..., func(..., func(..., ..., ...), ...), ...) {})\n-f(...)\n+f()\n",
			"@@\n@@\n ...\n-type T struct {\n-  ...\n-  F func(..., ..., func(..., ..., ..., ...), ...) (..., error)\n-  ...\n-}\n+type T struct{}\n",
			// an expression pattern that rewrites a string literal, followed by a change with an import guard
			"@@\n@@\n-\"foo\"\n+42\n\n@@\n@@\n import \"bar\"\n\n-x()\n+y()\n",
			"@@\n@@\n-foo\n+bar.baz\n\n@@\n@@\n import \"example.com/old/foo\"\n\n-x()\n+y()\n",
		)
		c08Seeds = append(c08Seeds, c08Migrations...)
		// targets chosen for construct coverage
		c08Targets = []string{
			"package p\n",
			"package p\n\nimport (\n\t\"fmt\"\n\tfoo \"example.com/old/foo\"\n\t. \"math\"\n\t_ \"embed\"\n)\n",
			"package p\n\nfunc f() {}\n\nfunc (r *T) m() {}\n\nfunc g[T any](x T) T { return x }\n",
			"package p\n\nfunc f() {\nL:\n\tfor {\n\t\tselect {\n\t\tcase v := <-ch:\n\t\t\tuse(v)\n\t\t\tbreak L\n\t\tdefault:\n\t\t\tcontinue L\n\t\t}\n\t}\n\tgoto L\n}\n",
			"package p\n\nvar (\n\ta, b = 1, 2\n\tc    int\n)\n\nconst (\n\tK = iota\n\tL\n)\n\ntype (\n\tA = int\n\tB struct{ X, Y int }\n\tC interface{ M() }\n)\n",
			"package p\n\nfunc f() (int, error) {\n\terr = foo(1)\n\tif err != nil {\n\t\treturn 0, err\n\t}\n\tx := target(a, b)\n\tuse(x)\n\tfor i := 0; i < n; i++ {\n\t\tbump(i)\n\t}\n\tfor range ch {\n\t}\n\tswitch v := x.(type) {\n\tcase int:\n\t\tuse(v)\n\t}\n\treturn foo.Client{}, nil\n}\n",
		}
		// targets for the hand-written seeds above, and a file whose lines are renumbered by //line directives
		c08Targets = append(c08Targets,
			"package p\n\nfunc f() {\n\ta = foo()\n\tb, c = foo()\n\ta, b = 1, 2\n\tvar d = foo()\n\tvar e, g = foo()\n\tswitch v {\n\tcase 1:\n\t\tbump(1)\n\tcase 2, 3:\n\t\tbump(1)\n\t}\n\tfor k := range m {\n\t\tuse(k)\n\t}\n\tfor k, v := range m {\n\t\tuse(k, v)\n\t}\n\tv := <-ch\n\tw, ok := <-ch\n}\n",
			"package p\n\n//line other.go:100\nfunc f() (int, error) {\n\terr = foo(\n\t\t1,\n\t)\n\tif err != nil {\n\t\treturn 0, err\n\t}\n\tx := target(a,\n\t\tb)\n\tuse(x)\n//line gen.y:7\n\tfor i := 0; i < n; i++ {\n\t\tbump(i)\n\t}\n\t/*line :900*/ bump(\n\t\t2,\n\t)\n\treturn foo.Client{}, nil\n}\n",
		)
		c08Targets = append(c08Targets, "package a\n\nimport \"foo\"\n\nimport bar \"example.com/old/foo\"\n\nfunc f() {\n\tfoo.Bar(\"foo\", bar.X)\n\tx()\n}\n")
		// targets of the migration patches: the migrated import is the file's only one and a documented declaration
		// follows; an import block (or none) far into the file, behind a licence header much longer than any patch
		licence := "// Copyright (c) Example, Inc.\n//\n" + strings.Repeat("// Permission is hereby granted, free of charge, to any person obtaining a copy of this software.\n", 30) + "\n"
		c08Targets = append(c08Targets,
			"package p\n\nimport \"example.com/old/foo\"\n\n// Run does things.\nfunc Run() {\n\tfoo.First(1)\n\tfoo.Second(2)\n}\n\n// Stop undoes them.\nfunc Stop() {}\n",
			licence+"// Package p does things.\npackage p\n\nimport (\n\t\"fmt\"\n\t\"io/ioutil\"\n\t\"os\"\n\tfoo \"example.com/old/foo\"\n)\n\n// Load reads.\nfunc Load(n string) {\n\tb, err := ioutil.ReadFile(n)\n\tfmt.Println(b, err, os.Args, foo.First(1), foo.Client{})\n}\n",
			licence+"package p\n\n// Load reads.\nfunc Load(n string) {\n\tlegacy(1)\n\tx()\n\tb, err := ioutil.ReadFile(n)\n}\n",
		)
		c08Targets = append(c08Targets, "package p\n\nimport (\n\t\"errors\"\n\t\"fmt\"\n\t\"io/ioutil\"\n\t\"os\"\n)\n\nfunc f(r io.Reader) error {\n\tb, _ := ioutil.ReadAll(r)\n\tuse(b, os.Args)\n\treturn errors.New(fmt.Sprintf(\"x\"))\n}\n")
		c08Targets = append(c08Targets, "package p\n\ntype Tagged struct {\n\tName string\n\tAge  int `json:\"age\"`\n}\n\ntype Row struct {\n\tX  int\n\tID int64\n}\n\ntype Row2 struct {\n\tID int64 `db:\"id\"`\n}\n\ntype Emb struct {\n\tTagged `json:\",inline\"`\n\tName string `json:\"name\"`\n}\n")
		// an empty import group in front of the imports, a file of nothing but clauses and comments
		c08Targets = append(c08Targets, "package p\n\nimport ()\n\nimport (\n\t\"example.com/old/foo\"\n\t\"io/ioutil\"\n)\n\nfunc f() {\n\tfoo.First(1)\n\tlegacy(2)\n\tb, _ := ioutil.ReadAll(nil)\n\tx()\n}\n",
			"// Package p is documented.\npackage p\n\nimport ()\n\n// nothing else\n")
		for s := int64(1); s <= 6; s++ {
			gg := gen.NewG(rand.New(rand.NewSource(s)))
			gg.Comment = s%2 == 0
			c08Targets = append(c08Targets, gg.File(gen.FileOpts{Decls: 6}))
		}
	})
}

// mutatePatch returns a mutant of a seed patch and the name of the mutation.
func mutatePatch(r *rand.Rand, seed string) (string, string) {
	switch r.Intn(10) {
	case 0: // truncation
		if len(seed) == 0 {
			return seed, "truncate"
		}
		return seed[:r.Intn(len(seed)+1)], "truncate"
	case 1: // token insertion
		pos := r.Intn(len(seed) + 1)
		return seed[:pos] + c08Dict[r.Intn(len(c08Dict))] + seed[pos:], "insert-token"
	case 2: // deletion of a span
		if len(seed) < 2 {
			return seed, "delete"
		}
		a := r.Intn(len(seed))
		b := a + 1 + r.Intn(8)
		if b > len(seed) {
			b = len(seed)
		}
		return seed[:a] + seed[b:], "delete-span"
	case 3: // duplicate a line
		ls := strings.SplitAfter(seed, "\n")
		i := r.Intn(len(ls))
		ls = append(ls[:i+1], ls[i:]...)
		return strings.Join(ls, ""), "duplicate-line"
	case 4: // swap two lines
		ls := strings.SplitAfter(seed, "\n")
		i, j := r.Intn(len(ls)), r.Intn(len(ls))
		ls[i], ls[j] = ls[j], ls[i]
		return strings.Join(ls, ""), "swap-lines"
	case 5: // flip a prefix
		ls := strings.SplitAfter(seed, "\n")
		i := r.Intn(len(ls))
		if len(ls[i]) > 0 {
			ls[i] = string("-+ @#"[r.Intn(5)]) + ls[i][1:]
		}
		return strings.Join(ls, ""), "flip-prefix"
	case 6: // random bytes overwrite
		b := []byte(seed)
		for k := 0; k < 1+r.Intn(3) && len(b) > 0; k++ {
			b[r.Intn(len(b))] = byte(r.Intn(256))
		}
		return string(b), "random-bytes"
	case 7: // replace a token by a dictionary token
		toks := strings.Fields(seed)
		if len(toks) == 0 {
			return seed, "replace-token"
		}
		t := toks[r.Intn(len(toks))]
		return strings.Replace(seed, t, c08Dict[r.Intn(len(c08Dict))], 1), "replace-token"
	case 8: // two mutations
		a, _ := mutatePatch(r, seed)
		b, _ := mutatePatch(r, a)
		return b, "double"
	default: // drop a line
		ls := strings.SplitAfter(seed, "\n")
		i := r.Intn(len(ls))
		return strings.Join(append(ls[:i:i], ls[i+1:]...), ""), "drop-line"
	}
}

// illTyped builds grammar-generated, well-formed but ill-typed patches.
func illTyped(r *rand.Rand) (string, string) {
	frag := []string{"foo(x)", "x", "x.y", "x := 1", "return x", "func f(x int) {\n ...\n }", "type T struct {\n ...\n }", "for ... {\n x()\n }", "if x {\n ...\n }", "...", "foo(...)", "T{...}",
		"func (...) f(...) (...) {\n ...\n }", "var x = y", "import x \"p\"", "x: y", "x...", "[]x{}", "go x()", "defer x", "x <- y", "switch x {\n case y:\n ...\n }", "select {\n case <-x:\n ...\n }",
		"return ..., x", "a, b := ..., x", "x(...)(...)", "struct{...}", "interface{...}", "func(...) (...)", "map[x]y{...: ...}", "x[...]", "*...", "&x{...}", "case x:", "label:\n x()", "package x"}
	meta := []string{"", "var x expression\n", "var x identifier\n", "var x, y expression\n", "var x identifier\nvar y expression\n", "var f, T identifier\n"}
	side := func() string {
		n := 1 + r.Intn(3)
		var ls []string
		for i := 0; i < n; i++ {
			ls = append(ls, frag[r.Intn(len(frag))])
		}
		return strings.Join(ls, "\n")
	}
	var sb strings.Builder
	sb.WriteString("@@\n" + meta[r.Intn(len(meta))] + "@@\n")
	if r.Intn(4) == 0 {
		sb.WriteString(" package p\n")
	}
	for _, l := range strings.Split(side(), "\n") {
		sb.WriteString(string(" -"[r.Intn(2)]) + l + "\n")
	}
	for _, l := range strings.Split(side(), "\n") {
		sb.WriteString(string(" +"[r.Intn(2)]) + l + "\n")
	}
	return sb.String(), "ill-typed"
}

const c08PerCase = 40

func init() {
	core.Register(&core.Prop{
		ID:    "C08",
		Level: "exploration",
		Rule: "cases: seed patches (every patch in testdata/* and examples/*, the schema libraries of this harness) x mutations {truncation at a random byte, token insertion/replacement from a dictionary of patch-significant tokens, span deletion, line duplication/swap/drop, " +
			"prefix flip, random bytes, double mutation, concatenation of two seeds (the second change runs on the tree the first one built)}, grammar-generated well-formed but ill-typed patches (metavariables in wrong slots, elisions in non-list positions, mismatched sides), random byte strings, and well-formed patches with 6-13 elisions in one list against lists of 30-80 similar elements (the elision search must not be exponential); step-by-step import migrations of 3-4 changes and import patches for files with long headers (also run unmutated); every patch that is accepted is applied to 18 target files chosen for construct coverage " +
			"(library API in a worker subprocess; every 8th also through the CLI). Monitor: BEGIN/END worker protocol with per-call panic recovery, CPU-time budget (20 s per case, confirmed by a solo re-run under RLIMIT_CPU=60), RSS limit 3 GiB, CLI exit status / stderr classifier. " +
			"Violation = panic, fatal error, exit status other than 0/1, CPU or memory exhaustion. non-trivial = mutant differs from its seed and is non-empty; distinct = (seed, mutation kind, outcome class).",
		Assumptions: []string{"inputs are small (patch <= 8 KiB, targets <= 10 KiB): 20 CPU-seconds for 40 patches x 12 targets is three orders of magnitude above the normal cost"},
		Cases: func(tier string) int {
			if tier == "thorough" {
				return 60000
			}
			return 2000
		},
		Floor: func(string) int { return 2000 },
		Run:   runC08,
	})
}

func outcomeClass(err string) string {
	if err == "" {
		return "ok"
	}
	return core.Trunc(core.Skeleton(err), 50)
}

func runC08(ctx *core.Ctx, idx int) *core.Result {
	c08Init()
	res := &core.Result{}
	r := ctx.Rand("c08", idx)
	seedIdx := idx % len(c08Seeds)
	seed := c08Seeds[seedIdx]
	for k := 0; k < c08PerCase; k++ {
		var pt, kind string
		switch {
		case k%10 == 9:
			pt, kind = illTyped(r)
		case k%10 == 7:
			// two patches in one file: the second change runs on whatever tree the first one built
			a, b := seed, c08Seeds[r.Intn(len(c08Seeds))]
			if r.Intn(2) == 0 {
				a, b = b, a
			}
			pt, kind = strings.TrimRight(a, "\n")+"\n\n"+b, "two-seeds"
		case k%20 == 18:
			b := make([]byte, r.Intn(200))
			r.Read(b)
			pt, kind = string(b), "random-string"
		default:
			pt, kind = mutatePatch(r, seed)
		}
		if len(pt) > 8192 {
			pt = pt[:8192]
		}
		res.Evals++
		f, perr, pan := core.ParsePatch("m.patch", []byte(pt))
		if pan != "" {
			res.Violate("C08/panic:"+core.PanicSignature(pan), fmt.Sprintf("patch.Parse panicked (%s of seed %d)\n%s", kind, seedIdx, pan), map[string]string{"p.patch": pt})
			continue
		}
		outcome := "rejected:" + outcomeClass(fmt.Sprint(perr))
		if perr == nil {
			outcome = "accepted"
			res.Ob("patches-accepted", 1)
			for ti, tgt := range c08Targets {
				_, aerr, apan := core.ApplyParsed(f, "t.go", []byte(tgt))
				if apan != "" {
					res.Violate("C08/panic:"+core.PanicSignature(apan), fmt.Sprintf("Apply panicked (%s of seed %d, target %d)\n%s", kind, seedIdx, ti, apan), map[string]string{"p.patch": pt, "in.go": tgt})
					break
				}
				if aerr != nil {
					outcome = "apply-error:" + outcomeClass(aerr.Error())
				}
			}
		} else {
			res.Ob("patches-rejected", 1)
		}
		if pt != seed && len(pt) > 0 {
			res.Sig(seedIdx, kind, outcome)
		}
		if k%8 == 0 {
			c08CLI(ctx, res, pt, kind, seedIdx)
		}
	}
	if idx%10 == 9 {
		c08Backtracking(ctx, res, r)
	}
	if idx%10 == 4 {
		c08DeepNesting(ctx, res, r)
	}
	if idx%10 == 6 {
		c08ManyImports(ctx, res, r)
	}
	if idx%100 == 2 {
		c08Directed(ctx, res)
	}
	if idx%400 == 7 {
		c08OperatorChain(ctx, res, r)
	}
	res.Sample(map[string]any{"seed_patch": core.Trunc(seed, 300), "mutations_per_case": c08PerCase})
	return res
}

// c08Backtracking: well-formed patches with many elisions in one list against lists of many similar elements
// (still a small input: < 1 KiB). The elision search may have to try every choice of runs; it must not take
// time exponential in the number of elisions. Through the CLI, under RLIMIT_CPU.
func c08Backtracking(ctx *core.Ctx, res *core.Result, r *rand.Rand) {
	k := 6 + r.Intn(8)   // elisions
	n := 30 + r.Intn(50) // elements
	stmts := r.Intn(3) == 0
	// 0 literal element, 1 distinct single-use metavariables, 2 mixture, 3 one metavariable used twice among literals,
	// 4 every section is a pair 'xi, xi' of its own metavariable (a state that failed does not depend on what the
	// sections in front of it were bound to)
	elemKind := r.Intn(5)
	var meta, pat, tgt []string
	for i := 0; i < k; i++ {
		e := "a"
		switch {
		case elemKind == 1 || (elemKind == 2 && i%2 == 0):
			e = fmt.Sprintf("x%d", i)
			meta = append(meta, fmt.Sprintf("var %s expression", e))
		case elemKind == 3 && (i == 0 || i == k-1):
			e = "rep"
		}
		if stmts {
			e = "use(" + e + ")"
		}
		if elemKind == 4 {
			v := fmt.Sprintf("x%d", i)
			meta = append(meta, fmt.Sprintf("var %s expression", v))
			e = v + ", " + v
			if stmts {
				e = "use(" + v + ")\n use(" + v + ")"
			}
		}
		pat = append(pat, "...", e)
	}
	if elemKind == 3 {
		meta = append(meta, "var rep expression")
	}
	for i := 0; i < n; i++ {
		if stmts {
			tgt = append(tgt, "\tuse(a)")
		} else {
			tgt = append(tgt, "a")
		}
	}
	var pt, src string
	if stmts {
		// the terminating statement never occurs: every choice of runs fails
		pt = "@@\n" + strings.Join(meta, "\n") + "\n@@\n " + strings.Join(pat, "\n ") + "\n ...\n-neverThere()\n+there()\n"
		src = "package p\n\nfunc f() {\n" + strings.Join(tgt, "\n") + "\n}\n"
	} else {
		pt = "@@\n" + strings.Join(meta, "\n") + "\n@@\n-f(" + strings.Join(pat, ", ") + ", ..., neverThere)\n+g()\n"
		src = "package p\n\nfunc f() {\n\tf(" + strings.Join(tgt, ", ") + ")\n}\n"
	}
	dir, _ := os.MkdirTemp(ctx.Tmp, "c08bt")
	defer os.RemoveAll(dir)
	os.WriteFile(filepath.Join(dir, "m.patch"), []byte(pt), 0o644)
	os.WriteFile(filepath.Join(dir, "t.go"), []byte(src), 0o644)
	cr := ctx.RunCLI(core.CLIOpts{Dir: dir, Args: []string{"-p", "m.patch", "t.go"}})
	res.Evals++
	res.Ob("many-elision-searches", 1)
	res.Sig("backtracking", k, n/10, stmts, elemKind)
	if cc := cr.CrashClass(); cc != "" {
		res.Violate("C08/"+cc+"/elision-search", fmt.Sprintf("%d elisions against a list of %d similar elements (statements=%v, element kind %d): %s", k, n, stmts, elemKind, core.Trunc(string(cr.Stderr), 600)), map[string]string{"p.patch": pt, "in.go": src})
	}
}

// c08DeepNesting: a one-line rewrite at the bottom of deeply nested blocks (if ladders, nested subtests with statements
// before and after each level). Finding what changed must not cost more with every level of nesting.
func c08DeepNesting(ctx *core.Ctx, res *core.Result, r *rand.Rand) {
	n := 10 + r.Intn(14)
	shape := r.Intn(3)
	var sb strings.Builder
	sb.WriteString("package p\n\nfunc f(t *T) {\n")
	for i := 0; i < n; i++ {
		ind := strings.Repeat("\t", i+1)
		fmt.Fprintf(&sb, "%spre%d()\n", ind, i)
		switch shape {
		case 0:
			fmt.Fprintf(&sb, "%sif c%d {\n", ind, i)
		case 1:
			fmt.Fprintf(&sb, "%st.Run(\"case%d\", func(t *T) {\n", ind, i)
		default:
			fmt.Fprintf(&sb, "%sfor i%d := range xs {\n", ind, i)
		}
	}
	fmt.Fprintf(&sb, "%sfoo(1)\n", strings.Repeat("\t", n+1))
	for i := n - 1; i >= 0; i-- {
		ind := strings.Repeat("\t", i+1)
		if shape == 1 {
			fmt.Fprintf(&sb, "%s})\n%spost%d()\n", ind, ind, i)
		} else {
			fmt.Fprintf(&sb, "%s}\n%spost%d()\n", ind, ind, i)
		}
	}
	sb.WriteString("}\n")
	pt := "@@\nvar x expression\n@@\n-foo(x)\n+bar(x, 2)\n"
	dir, _ := os.MkdirTemp(ctx.Tmp, "c08nest")
	defer os.RemoveAll(dir)
	os.WriteFile(filepath.Join(dir, "m.patch"), []byte(pt), 0o644)
	os.WriteFile(filepath.Join(dir, "t.go"), []byte(sb.String()), 0o644)
	cr := ctx.RunCLI(core.CLIOpts{Dir: dir, Args: []string{"-p", "m.patch", "t.go"}})
	res.Evals++
	res.Ob("deep-nesting-rewrites", 1)
	res.Sig("deep-nesting", n, shape)
	if cc := cr.CrashClass(); cc != "" {
		res.Violate("C08/"+cc+"/deep-nesting", fmt.Sprintf("a rewrite under %d nested blocks (shape %d): %s", n, shape, core.Trunc(string(cr.Stderr), 600)), map[string]string{"p.patch": pt, "in.go": sb.String()})
		return
	}
	if b, _ := os.ReadFile(filepath.Join(dir, "t.go")); cr.Exit != 0 || !strings.Contains(string(b), "bar(1, 2)") {
		res.Violate("C08/not-rewritten/deep-nesting", fmt.Sprintf("exit %d: %s", cr.Exit, core.Trunc(string(cr.Stderr), 300)), map[string]string{"p.patch": pt, "in.go": sb.String()})
	}
}

// c08ManyImports: a patch that lists one path many times under identifier metavariables against a file that imports the
// path under several names (still a small input: < 1 KiB). Every listed import may stand for every import of the file;
// finding out which must not cost time or memory exponential in the number of listed imports, whether the code of
// the patch then matches or not.
func c08ManyImports(ctx *core.Ctx, res *core.Result, r *rand.Rand) {
	k := 6 + r.Intn(12) // imports listed in the patch
	m := 2 + r.Intn(4)  // imports of the path in the file
	var names []string
	var pt strings.Builder
	pt.WriteString("@@\nvar x expression\nvar ")
	for i := 0; i < k; i++ {
		names = append(names, fmt.Sprintf("n%d", i))
	}
	pt.WriteString(strings.Join(names, ", ") + " identifier\n@@\n")
	for _, n := range names {
		fmt.Fprintf(&pt, " import %s \"example.com/many\"\n", n)
	}
	used := names[r.Intn(len(names))]
	shape := r.Intn(3)
	switch shape {
	case 0: // one of the names is used; the file has such a call
		fmt.Fprintf(&pt, "\n-%s.Old(x)\n+%s.New(x)\n", used, used)
	case 1: // nothing in the file matches the code
		fmt.Fprintf(&pt, "\n-%s.Absent(x)\n+%s.New(x)\n", used, used)
	default: // the code does not mention the imports
		pt.WriteString("\n-legacy(x)\n+modern(x)\n")
	}
	var src strings.Builder
	src.WriteString("package p\n\nimport (\n")
	for j := 0; j < m; j++ {
		fmt.Fprintf(&src, "\tm%d \"example.com/many\"\n", j)
	}
	src.WriteString(")\n\nfunc f() {\n")
	for j := 0; j < m; j++ {
		fmt.Fprintf(&src, "\tm%d.Keep()\n", j)
	}
	fmt.Fprintf(&src, "\tm%d.Old(1)\n\tlegacy(2)\n}\n", m-1)
	dir, _ := os.MkdirTemp(ctx.Tmp, "c08imp")
	defer os.RemoveAll(dir)
	os.WriteFile(filepath.Join(dir, "m.patch"), []byte(pt.String()), 0o644)
	os.WriteFile(filepath.Join(dir, "t.go"), []byte(src.String()), 0o644)
	cr := ctx.RunCLI(core.CLIOpts{Dir: dir, Args: []string{"-p", "m.patch", "t.go"}})
	res.Evals++
	res.Ob("many-imports-runs", 1)
	res.Sig("many-imports", k, m, shape)
	rep := map[string]string{"p.patch": pt.String(), "in.go": src.String()}
	if cc := cr.CrashClass(); cc != "" {
		res.Violate("C08/"+cc+"/many-imports", fmt.Sprintf("%d imports of one path in the patch, %d in the file (shape %d): %s", k, m, shape, core.Trunc(string(cr.Stderr), 600)), rep)
		return
	}
	b, _ := os.ReadFile(filepath.Join(dir, "t.go"))
	want := map[int]string{0: fmt.Sprintf("m%d.New(1)", m-1), 1: "legacy(2)", 2: "modern(2)"}[shape]
	if cr.Exit != 0 || !strings.Contains(string(b), want) {
		res.Violate("C08/not-rewritten/many-imports", fmt.Sprintf("exit %d, %q not in the file: %s", cr.Exit, want, core.Trunc(string(cr.Stderr), 300)), rep)
	}
}

// c08OperatorChain: 'x + y' -> 'y + x' on a sum of 1000 operands (a 4 KB file). Every prefix of the chain is an instance,
// each nested in the next. Memory is measured, not limited (peak resident set from the child's rusage): a 4 KB input that
// needs more than 300 MiB exhausts memory on a small input.
func c08OperatorChain(ctx *core.Ctx, res *core.Result, r *rand.Rand) {
	n := 1000
	op := []string{"+", "*", "&&", "|"}[r.Intn(4)]
	pt := fmt.Sprintf("@@\nvar x, y expression\n@@\n-x %s y\n+y %s x\n", op, op)
	src := "package p\n\nvar v = " + strings.Repeat("a "+op+" ", n-1) + "a\n"
	dir, _ := os.MkdirTemp(ctx.Tmp, "c08chain")
	defer os.RemoveAll(dir)
	os.WriteFile(filepath.Join(dir, "m.patch"), []byte(pt), 0o644)
	os.WriteFile(filepath.Join(dir, "t.go"), []byte(src), 0o644)
	cr := ctx.RunCLI(core.CLIOpts{Dir: dir, Args: []string{"-p", "m.patch", "t.go"}})
	res.Evals++
	res.Ob("operator-chain-runs", 1)
	res.Ob("operator-chain-peak-rss-mib", int(cr.MaxRSSKB/1024))
	res.Sig("operator-chain", op)
	rep := map[string]string{"p.patch": pt, "in.go": core.Trunc(src, 400)}
	if cc := cr.CrashClass(); cc != "" {
		res.Violate("C08/"+cc+"/operator-chain", core.Trunc(string(cr.Stderr), 600), rep)
		return
	}
	if cr.Exit != 0 {
		res.Violate("C08/not-rewritten/operator-chain", fmt.Sprintf("exit %d: %s", cr.Exit, core.Trunc(string(cr.Stderr), 300)), rep)
		return
	}
	if cr.MaxRSSKB > 300*1024 {
		res.Violate("C08/memory/operator-chain", fmt.Sprintf("rewriting a chain of %d operands (%d bytes) took a peak resident set of %d MiB and %d ms of CPU time", n, len(src), cr.MaxRSSKB/1024, cr.CPUMillis), rep)
	}
}

func c08CLI(ctx *core.Ctx, res *core.Result, pt, kind string, seedIdx int) {
	dir, _ := os.MkdirTemp(ctx.Tmp, "c08")
	defer os.RemoveAll(dir)
	os.WriteFile(filepath.Join(dir, "m.patch"), []byte(pt), 0o644)
	var names []string
	for i, t := range c08Targets {
		n := fmt.Sprintf("t%02d.go", i)
		os.WriteFile(filepath.Join(dir, n), []byte(t), 0o644)
		names = append(names, n)
	}
	cr := ctx.RunCLI(core.CLIOpts{Dir: dir, Args: append([]string{"-p", "m.patch"}, names...)})
	res.Ob("cli-runs", 1)
	if cc := cr.CrashClass(); cc != "" {
		res.Violate("C08/"+cc, fmt.Sprintf("CLI crashed (%s of seed %d)\n%s", kind, seedIdx, core.Trunc(string(cr.Stderr), 3000)), map[string]string{"p.patch": pt})
	}
}
