package main

import (
	"fmt"
	"os"
	"path/filepath"
	"sort"
	"strings"

	"verif/harness/core"
	"verif/harness/gen"
	"verif/harness/ref"
)

// semVerdict is the judgement of one (change, file) pair against the reference model.
type semVerdict struct {
	Class   string // "" = held
	Detail  string
	Stats   ref.Stats
	Inconcl string // non-empty: why the oracle could not judge
	Out     string
	Changed bool
}

// engineRun is one observed execution of the engine on a file.
type engineRun struct {
	Out string
	Err string // engine-reported error ("" = success)
	Pan string
}

// applyAPI runs the library API on each source.
func applyAPI(patchText string, srcs []string) []engineRun {
	runs := make([]engineRun, len(srcs))
	f, err, pan := core.ParsePatch("p.patch", []byte(patchText))
	for i, s := range srcs {
		switch {
		case pan != "":
			runs[i] = engineRun{Pan: pan}
		case err != nil:
			runs[i] = engineRun{Err: "patch rejected: " + err.Error()}
		default:
			out, aerr, apan := core.ApplyParsed(f, fmt.Sprintf("f%d.go", i), []byte(s))
			runs[i] = engineRun{Out: string(out), Pan: apan}
			if aerr != nil {
				runs[i].Err = aerr.Error()
			}
		}
	}
	return runs
}

// applyCLI runs the CLI in place on scratch copies of the sources (one invocation).
func applyCLI(ctx *core.Ctx, patchText string, srcs []string, extraArgs ...string) ([]engineRun, *core.CLIResult) {
	dir, _ := os.MkdirTemp(ctx.Tmp, "cli")
	defer os.RemoveAll(dir)
	os.WriteFile(filepath.Join(dir, "p.patch"), []byte(patchText), 0o644)
	args := []string{"-p", "p.patch"}
	args = append(args, extraArgs...)
	var names []string
	for i, s := range srcs {
		n := fmt.Sprintf("f%03d.go", i)
		names = append(names, n)
		os.WriteFile(filepath.Join(dir, n), []byte(s), 0o644)
	}
	args = append(args, names...)
	res := ctx.RunCLI(core.CLIOpts{Dir: dir, Args: args})
	runs := make([]engineRun, len(srcs))
	stderr := string(res.Stderr)
	for i, n := range names {
		b, _ := os.ReadFile(filepath.Join(dir, n))
		runs[i].Out = string(b)
		if cc := res.CrashClass(); cc != "" {
			runs[i].Pan = cc + "\n" + stderr
			continue
		}
		// attribute error lines naming this file
		for _, l := range strings.Split(stderr, "\n") {
			if strings.Contains(l, n) && res.Exit != 0 {
				runs[i].Err += l + "\n"
			}
		}
		if res.Exit != 0 && runs[i].Err == "" && (strings.Contains(stderr, "load patch") || strings.Contains(stderr, "p.patch")) {
			runs[i].Err = "patch rejected: " + stderr
		}
	}
	return runs, res
}

const maxRefSteps = 3_000_000

// judge compares one engine run with the reference rewriting of src.
func judge(c *gen.Change, pat *ref.Pattern, src string, run engineRun) semVerdict {
	return judgeSeq([]*ref.Pattern{pat}, src, run, addedImports(c)...)
}

const addedImportPath = "example.com/added/newpkg"

// withAddedImport gives the change a '+import' line (no guard: it applies to every file).
func withAddedImport(c *gen.Change) {
	var gs []gen.Line
	for _, l := range c.Guards { // keep a package guard; the blank line goes last
		if l.Text != "" {
			gs = append(gs, l)
		}
	}
	c.Guards = append(gs, gen.L('+', `import "`+addedImportPath+`"`), gen.L(' ', ""))
}

// addedImports lists the imports the changes' '+import' lines add.
func addedImports(cs ...*gen.Change) []ref.Import {
	var out []ref.Import
	for _, c := range cs {
		for _, l := range c.Guards {
			if l.Prefix == '+' && strings.HasPrefix(l.Text, "import \"") {
				out = append(out, ref.Import{Path: strings.Trim(strings.TrimPrefix(l.Text, "import "), "\"")})
			}
		}
	}
	return out
}

// judgeSeq judges a patch made of several changes applied in order. Stages after the first
// are only judged when the earlier stages left no don't-care alternatives.
func judgeSeq(pats []*ref.Pattern, src string, run engineRun, added ...ref.Import) semVerdict {
	var v semVerdict
	in, _, _, err := ref.ParseFile([]byte(src), false)
	if err != nil {
		v.Inconcl = "generated source does not parse: " + err.Error()
		return v
	}
	pat := pats[len(pats)-1]
	cur := in.Tree
	for _, p := range pats[:len(pats)-1] {
		rw0 := ref.NewRewriter(p, false)
		cur = rw0.Rewrite(cur)
		if rw0.St.Unbound || rw0.St.Nested > 0 || rw0.St.Later > 0 || rw0.GaveUp() {
			v.Inconcl = "earlier change leaves don't-care alternatives"
			return v
		}
		v.Stats.Sites += rw0.St.Sites
		v.Stats.Misfit += rw0.St.Misfit
		v.Stats.SiteKinds = append(v.Stats.SiteKinds, rw0.St.SiteKinds...)
	}
	pre := v.Stats
	rw := ref.NewRewriter(pat, false)
	exp := rw.Rewrite(cur)
	v.Stats = rw.St
	rw.St.Sites += pre.Sites
	rw.St.Misfit += pre.Misfit
	v.Stats.Sites += pre.Sites
	v.Stats.Misfit += pre.Misfit
	v.Stats.SiteKinds = append(pre.SiteKinds, v.Stats.SiteKinds...)
	if rw.St.Unbound {
		v.Inconcl = "plus side uses something the minus side does not bind"
		return v
	}
	if rw.GaveUp() {
		v.Inconcl = "reference search too large"
		return v
	}
	if ref.ExposedComposite(exp) {
		v.Inconcl = "replacement exposes a composite literal in a control clause"
		return v
	}
	printerLoses := ref.PrinterLosesParens(exp)
	exp0 := exp
	exp = ref.StripParens(exp)
	v.Out = run.Out
	if run.Pan != "" {
		v.Class = "engine-panic:" + core.PanicSignature(run.Pan)
		v.Detail = run.Pan
		return v
	}
	if run.Err != "" && !strings.HasPrefix(run.Err, "patch rejected") && rw.St.Sites > 0 {
		// the reference's expected tree may not be printable as valid Go (a call in a type position, a
		// composite literal exposed in a control clause): then an error report is what C07 demands
		ok1, _ := ref.Printable(exp)
		ok2, _ := ref.PrintableAlt(exp)
		if !ok1 || !ok2 {
			v.Inconcl = "expected rewrite is not printable as valid Go and the engine reported an error"
			return v
		}
	}
	if run.Err != "" {
		v.Class = "engine-error"
		if rw.St.Sites == 0 {
			v.Class = "engine-error-without-site"
		}
		v.Detail = fmt.Sprintf("engine reported an error where the reference expects a rewrite of %d site(s): %s", rw.St.Sites, run.Err)
		return v
	}
	v.Changed = run.Out != src
	out, _, _, err := ref.ParseFile([]byte(run.Out), true)
	if err != nil {
		v.Class = "unparseable-output"
		v.Detail = err.Error()
		return v
	}
	if rw.St.Sites == 0 && rw.St.Misfit == 0 && !v.Changed {
		return v
	}
	if rw.St.Sites > 0 {
		// '+import' lines of the patch: present after the change applied
		in.Imports = append(in.Imports, added...)
	}
	if ref.Matches(out.Tree, exp) && sameImports(in.Imports, out.Imports) {
		return v
	}
	// diagnose
	inStripped := ref.StripParens(in.Tree)
	unchanged := ref.Equal(out.Tree, inStripped)
	if !sameImports(in.Imports, out.Imports) && ref.Matches(out.Tree, exp) {
		v.Class = "imports-changed"
		v.Detail = fmt.Sprintf("imports %v -> %v", in.Imports, out.Imports)
		return v
	}
	if !printerLoses && rw.St.Sites > 0 {
		// go/printer cannot represent every tree (a channel type as the operand of an index expression, ...):
		// if printing the expected tree and parsing it back gives another tree, no output could have matched
		for _, pr := range []func(*ref.N) (bool, string){ref.Printable, ref.PrintableAlt} {
			if ok, txt := pr(exp0); ok {
				if back, _, _, err := ref.ParseFile([]byte(txt), true); err == nil && !ref.Matches(back.Tree, exp) {
					v.Inconcl = "go/printer cannot represent the expected tree"
					return v
				}
			}
		}
	}
	if printerLoses {
		v.Class = "printer-drops-needed-parens"
		v.Detail = "the rewritten tree needs parentheses that go/printer does not add (dereference of a binary expression, or chan of <-chan); first difference: " + ref.FirstDiff(out.Tree, exp, "")
		return v
	}
	grw := ref.NewRewriter(pat, true)
	gexp := ref.StripParens(grw.Rewrite(cur))
	switch {
	case ref.Matches(out.Tree, gexp):
		v.Class = "needs-later-occurrence"
	case rw.St.Sites > 0 && unchanged:
		v.Class = "missed-instance"
	case rw.St.Sites == 0 && rw.St.Nested == 0:
		v.Class = "false-positive"
	default:
		v.Class = "wrong-rewrite"
	}
	v.Detail = fmt.Sprintf("reference: %d site(s) %v, %d misfit, %d nested, %d later; first difference: %s",
		rw.St.Sites, rw.St.SiteKinds, rw.St.Misfit, rw.St.Nested, rw.St.Later, ref.FirstDiff(out.Tree, exp, ""))
	return v
}

func sameImports(a, b []ref.Import) bool {
	key := func(x []ref.Import) string {
		m := map[string]bool{}
		for _, i := range x {
			m[i.Name+" "+i.Path] = true
		}
		var ks []string
		for k := range m {
			ks = append(ks, k)
		}
		sort.Strings(ks)
		return strings.Join(ks, "|")
	}
	return key(a) == key(b)
}

func replayFiles(patchText, src, out string) map[string]string {
	return map[string]string{"p.patch": patchText, "in.go": src, "actual.go": out}
}

// printerRepresents reports whether go/printer can represent the expected declaration: printing
// it (first alternative of every don't-care node) and parsing the text back gives a tree the
// expectation accepts. A generic instantiation turned into a call inside "[]T{}" for example
// prints as a conversion "[]at(...)": no output of the engine could match such an expectation.
func printerRepresents(decl *ref.N) bool {
	file := &ref.N{Kind: "File", Kids: []*ref.N{{Kind: "leaf", Leaf: "p"}, decl}}
	// with the first and with the last alternative of every don't-care node (nested instances left alone / rewritten)
	for _, pr := range []func(*ref.N) (bool, string){ref.Printable, ref.PrintableAlt} {
		ok, txt := pr(file)
		if !ok {
			return false
		}
		back, _, _, err := ref.ParseFile([]byte(txt), true)
		if err != nil || len(back.Decls) != 1 {
			return false
		}
		if !ref.Matches(back.Decls[0], ref.StripParens(decl)) {
			return false
		}
	}
	return true
}
