package main

import (
	"fmt"
	"math/rand"
	"strings"

	"verif/harness/core"
	"verif/harness/gen"
)

// listKind describes how one kind of element list is written in patterns and targets.
type listKind struct {
	Name     string
	PatKind  string // expr | stmts | decl
	Ctx      string // elision context
	Head     func(i int) string
	Tail     []string
	Elem     map[byte]string // a b c p q -> element text; x y -> metavariable element
	Sep      string          // "," for comma lists, "" for line lists
	Meta     []gen.MetaVar   // metavariables other than x / y
	XKind    string          // kind of x and y
	Wrap     func(i int, body string) string
	OneLine  bool // only the single-line layout exists (return statements)
	Implicit bool // top-level statement pattern: implicit elision before and after
	MaxWords int
}

func commaElems(m map[byte]string) map[byte]string { return m }

var listKinds = []listKind{
	{Name: "call-args", PatKind: "expr", Ctx: "args", Sep: ",", XKind: "expression",
		Head: func(int) string { return "tgt(" }, Tail: []string{")"},
		Elem: map[byte]string{'a': "a", 'b': "b", 'c': "c", 'z': "z", 'p': "p", 'q': "q", 'x': "«x»", 'y': "«y»"},
		Wrap: func(i int, b string) string { return "\t" + b + "\n" }},
	{Name: "composite-unkeyed", PatKind: "expr", Ctx: "elts", Sep: ",", XKind: "expression",
		Head: func(int) string { return "Tgt{" }, Tail: []string{"}"},
		Elem: map[byte]string{'a': "a", 'b': "b", 'c': "c", 'z': "z", 'p': "p", 'q': "q", 'x': "«x»", 'y': "«y»"},
		Wrap: func(i int, b string) string { return "\t_ = " + b + "\n" }},
	{Name: "composite-keyed", PatKind: "expr", Ctx: "kv", Sep: ",", XKind: "expression",
		Head: func(int) string { return "Tgt{" }, Tail: []string{"}"},
		// one key, different values: the metavariables stand for values (a keyed element is not an expression)
		Elem: map[byte]string{'a': "K: 1", 'b': "K: 2", 'c': "K: 3", 'z': "K: 9", 'p': "K: 7", 'q': "K: 8", 'x': "K: «x»", 'y': "K: «y»"},
		Wrap: func(i int, b string) string { return "\t_ = " + b + "\n" }},
	{Name: "params-unnamed", PatKind: "decl", Ctx: "params", Sep: ",", XKind: "expression",
		Head: func(i int) string { return fmt.Sprintf("func «f»(") }, Tail: []string{") {", "}"},
		Elem: map[byte]string{'a': "TA", 'b': "TB", 'c': "TC", 'z': "TZ", 'p': "TP", 'q': "TQ", 'x': "«x»", 'y': "«y»"},
		Meta: []gen.MetaVar{{Name: "f", Kind: "identifier"}},
		Wrap: func(i int, b string) string { return b + "\n\n" }},
	{Name: "params-named", PatKind: "decl", Ctx: "nparams", Sep: ",", XKind: "identifier",
		Head: func(i int) string { return "func «f»(" }, Tail: []string{") {", "}"},
		Elem: map[byte]string{'a': "pa TA", 'b': "pb TB", 'c': "pc TC", 'z': "pz TZ", 'p': "pp TP", 'q': "pq TQ", 'x': "«x» TX", 'y': "«y» TX"},
		Meta: []gen.MetaVar{{Name: "f", Kind: "identifier"}},
		Wrap: func(i int, b string) string { return b + "\n\n" }},
	{Name: "results-unnamed", PatKind: "decl", Ctx: "results", Sep: ",", XKind: "expression",
		Head: func(i int) string { return "func «f»() (" }, Tail: []string{") {", "}"},
		Elem: map[byte]string{'a': "TA", 'b': "TB", 'c': "TC", 'z': "TZ", 'p': "TP", 'q': "TQ", 'x': "«x»", 'y': "«y»"},
		Meta: []gen.MetaVar{{Name: "f", Kind: "identifier"}},
		Wrap: func(i int, b string) string { return b + "\n\n" }},
	{Name: "struct-fields", PatKind: "decl", Ctx: "fields", Sep: "", XKind: "identifier",
		Head: func(i int) string { return "type «N» struct {" }, Tail: []string{"}"},
		Elem: map[byte]string{'a': "FA int", 'b': "FB int", 'c': "FC int", 'z': "FZ int", 'p': "FP int", 'q': "FQ int", 'x': "«x» string", 'y': "«y» string"},
		Meta: []gen.MetaVar{{Name: "N", Kind: "identifier"}},
		Wrap: func(i int, b string) string { return b + "\n\n" }},
	{Name: "interface-methods", PatKind: "decl", Ctx: "methods", Sep: "", XKind: "identifier",
		Head: func(i int) string { return "type «N» interface {" }, Tail: []string{"}"},
		Elem: map[byte]string{'a': "MA()", 'b': "MB()", 'c': "MC()", 'z': "MZ()", 'p': "MP()", 'q': "MQ()", 'x': "«x»(int)", 'y': "«y»(int)"},
		Meta: []gen.MetaVar{{Name: "N", Kind: "identifier"}},
		Wrap: func(i int, b string) string { return b + "\n\n" }},
	{Name: "block-stmts", PatKind: "stmts", Ctx: "stmts", Sep: "", XKind: "identifier",
		Head: func(i int) string { return "if tgt {" }, Tail: []string{"}"},
		Elem: map[byte]string{'a': "sa()", 'b': "sb()", 'c': "sc()", 'z': "sz()", 'p': "sp()", 'q': "sq()", 'x': "«x»(1)", 'y': "«y»(1)"},
		Wrap: func(i int, b string) string { return fmt.Sprintf("func t%d() {\n%s\n}\n\n", i, b) }},
	{Name: "case-body", PatKind: "stmts", Ctx: "stmts", Sep: "", XKind: "identifier",
		Head: func(i int) string { return "switch tgt {\ncase 1:" }, Tail: []string{"}"},
		Elem: map[byte]string{'a': "sa()", 'b': "sb()", 'c': "sc()", 'z': "sz()", 'p': "sp()", 'q': "sq()", 'x': "«x»(1)", 'y': "«y»(1)"},
		Wrap: func(i int, b string) string { return fmt.Sprintf("func t%d() {\n%s\n}\n\n", i, b) }},
	{Name: "stmts-implicit-dots", PatKind: "stmts", Ctx: "stmts", Sep: "", XKind: "identifier", Implicit: true,
		Head: func(i int) string { return "" }, Tail: nil,
		Elem: map[byte]string{'a': "sa()", 'b': "sb()", 'c': "sc()", 'z': "sz()", 'p': "sp()", 'q': "sq()", 'x': "«x»(1)", 'y': "«y»(1)"},
		Wrap: func(i int, b string) string { return fmt.Sprintf("func t%d() {\n%s\n}\n\n", i, b) }},
	{Name: "return-values", PatKind: "stmts", Ctx: "rets", Sep: ",", XKind: "expression", OneLine: true,
		Head: func(i int) string { return "return " }, Tail: nil,
		Elem: map[byte]string{'a': "a", 'b': "b", 'c': "c", 'z': "z", 'p': "p", 'q': "q", 'x': "«x»", 'y': "«y»"},
		Wrap: func(i int, b string) string { return fmt.Sprintf("func t%d() {\n%s\n}\n\n", i, b) }},
}

// patternWords enumerates every pattern word over {a, b, x, y, D} of length 1..4 with 1..3
// elisions, no two adjacent elisions, y only after x.
func patternWords() []string {
	var out []string
	var rec func(w string)
	rec = func(w string) {
		if len(w) > 0 {
			nd := strings.Count(w, "D")
			if nd >= 1 && nd <= 3 {
				out = append(out, w)
			}
		}
		if len(w) == 4 {
			return
		}
		for _, ch := range "abxyD" {
			if ch == 'D' && strings.HasSuffix(w, "D") {
				continue
			}
			if ch == 'y' && !strings.Contains(w, "x") {
				continue
			}
			rec(w + string(ch))
		}
	}
	rec("")
	return out
}

// targetWords enumerates every list over {a, b, c} of length 0..max.
func targetWords(max int) []string {
	out := []string{""}
	prev := []string{""}
	for l := 1; l <= max; l++ {
		var cur []string
		for _, p := range prev {
			for _, ch := range "abc" {
				cur = append(cur, p+string(ch))
			}
		}
		out = append(out, cur...)
		prev = cur
	}
	return out
}

// longSectionWords: sections of 3-4 explicit elements between elisions (and with an explicit
// element before or after), where partial matches overlap with the real one.
func longSectionWords() []string {
	var out []string
	for l := 3; l <= 4; l++ {
		for m := 0; m < 1<<l; m++ {
			s := ""
			for i := 0; i < l; i++ {
				s += string("ab"[(m>>i)&1])
			}
			out = append(out, "D"+s+"D", "aD"+s+"D", "D"+s+"Db", s+"D", "D"+s)
		}
	}
	return out
}

// twoLetterTargets enumerates every list over {a, b} of length 0..max.
func twoLetterTargets(max int) []string {
	out := []string{""}
	prev := []string{""}
	for l := 1; l <= max; l++ {
		var cur []string
		for _, p := range prev {
			cur = append(cur, p+"a", p+"b")
		}
		out = append(out, cur...)
		prev = cur
	}
	return out
}

// reuseWords: a metavariable bound in an early section and used again in a later one, with
// two or three elisions around: words over {a, b, x, D} of length 5..6 with x exactly twice.
// Whether the tail of the list matches depends on what x was bound to, so a search that caches
// or prunes by list position alone goes wrong here.
func reuseWords() []string {
	var out []string
	var rec func(w string)
	rec = func(w string) {
		if len(w) >= 5 {
			nd := strings.Count(w, "D")
			if nd >= 2 && nd <= 3 && strings.Count(w, "x") == 2 {
				out = append(out, w)
			}
		}
		if len(w) == 6 {
			return
		}
		for _, ch := range "abxD" {
			if ch == 'D' && strings.HasSuffix(w, "D") {
				continue
			}
			if ch == 'x' && strings.Count(w, "x") == 2 {
				continue
			}
			if ch == 'b' && !strings.Contains(w, "a") {
				continue // b only after a: the two letters are interchangeable
			}
			rec(w + string(ch))
		}
	}
	rec("")
	return out
}

var (
	c04Words    = append(append(patternWords(), reuseWords()...), longSectionWords()...)
	c04NumShort = len(patternWords()) + len(reuseWords())
	c04Targets  = targetWords(5)
	c04Targets2 = twoLetterTargets(8)
)

// plusOf maps the explicit elements of a pattern word to the plus side.
func plusOf(w string, variant int) string {
	var sb strings.Builder
	for _, ch := range w {
		switch ch {
		case 'a':
			sb.WriteByte('p')
		case 'b':
			sb.WriteByte('q')
		default:
			sb.WriteRune(ch)
		}
	}
	s := sb.String()
	switch variant {
	case 1: // swap x and y uses
		s = strings.Map(func(r rune) rune {
			switch r {
			case 'x':
				return 'y'
			case 'y':
				return 'x'
			}
			return r
		}, s)
		if !strings.Contains(w, "y") {
			s = sb.String()
		}
	}
	return s
}

// buildListChange renders pattern word w for list kind k.
func buildListChange(k *listKind, w string, variant int, oneLine bool) *gen.Change {
	bare := variant == 2 // context lines without the optional leading space and indentation
	if bare {
		variant = 0
	}
	if variant == 3 && k.Sep == "," {
		// all elements (several elisions) on ONE context line; only the marker is added
		c := &gen.Change{Kind: k.PatKind, Schema: "c04-" + k.Name}
		c.Meta = append(c.Meta, k.Meta...)
		if strings.Contains(w, "x") {
			c.Meta = append(c.Meta, gen.MetaVar{Name: "x", Kind: k.XKind})
		}
		if strings.Contains(w, "y") {
			c.Meta = append(c.Meta, gen.MetaVar{Name: "y", Kind: k.XKind})
		}
		var els []string
		d := 0
		for i := 0; i < len(w); i++ {
			if w[i] == 'D' {
				d++
				els = append(els, fmt.Sprintf("‹%d:%s›", d, k.Ctx))
			} else {
				els = append(els, k.Elem[w[i]])
			}
		}
		for _, h := range strings.Split(k.Head(0), "\n") {
			c.Lines = append(c.Lines, gen.L(' ', h))
		}
		c.Lines = append(c.Lines, gen.L(' ', "  "+strings.Join(els, ", ")+","), gen.L('+', "  "+k.Elem['z']+","))
		for _, t := range k.Tail {
			c.Lines = append(c.Lines, gen.L(' ', t))
		}
		return c
	}
	c := &gen.Change{Kind: k.PatKind, Schema: "c04-" + k.Name}
	c.Meta = append(c.Meta, k.Meta...)
	if strings.Contains(w, "x") {
		c.Meta = append(c.Meta, gen.MetaVar{Name: "x", Kind: k.XKind})
	}
	if strings.Contains(w, "y") {
		c.Meta = append(c.Meta, gen.MetaVar{Name: "y", Kind: k.XKind})
	}
	pw := plusOf(w, variant)
	render := func(word string) []string {
		var els []string
		d := 0
		for i := 0; i < len(word); i++ {
			if word[i] == 'D' {
				d++
				els = append(els, fmt.Sprintf("‹%d:%s›", d, k.Ctx))
			} else {
				els = append(els, k.Elem[word[i]])
			}
		}
		return els
	}
	me, pe := render(w), render(pw)
	marker := k.Elem['z'] // appended to the '+' side so that every match is observable
	if oneLine {
		sep := k.Sep + " "
		if k.Sep == "" {
			sep = "; "
		}
		tail := strings.Join(k.Tail, " ")
		c.Lines = []gen.Line{
			gen.L('-', k.Head(0)+strings.Join(me, sep)+tail),
			gen.L('+', k.Head(0)+strings.Join(append(append([]string{}, pe...), marker), sep)+tail),
		}
		if k.PatKind != "stmts" && strings.Count(w, "D") == 1 && strings.Count(pw, "D") == 1 && len(w)%2 == 0 {
			// the only elision of each side, the '+' line written above the '-' line
			c.Lines[0], c.Lines[1] = c.Lines[1], c.Lines[0]
			c.Schema += "-plus-first"
		}
		return c
	}
	for _, h := range strings.Split(k.Head(0), "\n") {
		if h != "" {
			c.Lines = append(c.Lines, gen.L(' ', h))
		}
	}
	for i := range me {
		if me[i] == pe[i] {
			if bare {
				c.Lines = append(c.Lines, gen.L(0, me[i]+k.Sep))
			} else {
				c.Lines = append(c.Lines, gen.L(' ', "  "+me[i]+k.Sep))
			}
		} else {
			c.Lines = append(c.Lines, gen.L('-', "  "+me[i]+k.Sep), gen.L('+', "  "+pe[i]+k.Sep))
		}
	}
	c.Lines = append(c.Lines, gen.L('+', "  "+marker+k.Sep))
	for _, t := range k.Tail {
		c.Lines = append(c.Lines, gen.L(' ', t))
	}
	return c
}

// targetFile renders every target word as one list of kind k.
func targetFile(k *listKind, targets []string) string {
	var sb strings.Builder
	sb.WriteString("package p\n\n")
	inFunc := k.PatKind == "expr"
	if inFunc {
		sb.WriteString("func all() {\n")
	}
	for i, t := range targets {
		var els []string
		for j := 0; j < len(t); j++ {
			els = append(els, k.Elem[t[j]])
		}
		var body string
		head := k.Head(i)
		head = strings.ReplaceAll(head, "«f»", fmt.Sprintf("fn%d", i))
		head = strings.ReplaceAll(head, "«N»", fmt.Sprintf("N%d", i))
		if k.Sep == "," {
			body = head + strings.Join(els, ", ") + strings.Join(k.Tail, "\n")
		} else {
			body = head + "\n" + strings.Join(els, "\n") + "\n" + strings.Join(k.Tail, "\n")
		}
		if k.Name == "call-args" && len(els) >= 2 && i%5 == 3 {
			// the last argument is spread over the variadic parameters: another call than the one without the spread,
			// whatever a trailing elision of the pattern stands for
			body = head + strings.Join(els, ", ") + "..." + strings.Join(k.Tail, "\n")
		}
		if k.Name == "results-unnamed" && len(els) == 1 && i%2 == 0 {
			// a single unnamed result without its optional parentheses: the same declaration
			body = strings.Replace(body, "() ("+els[0]+") {", "() "+els[0]+" {", 1)
		}
		sb.WriteString(k.Wrap(i, body))
	}
	if inFunc {
		sb.WriteString("}\n")
	}
	return sb.String()
}

func c04Cases(tier string) int { return len(listKinds) * len(c04Words) }

func init() {
	core.Register(&core.Prop{
		ID:    "C04",
		Level: "exploration",
		Rule: "small-scope table (thorough tier: complete; quick tier: complete for a third of the list kinds rotating with the seed plus the implicit-elision kind, every 4th pattern word for the rest): for each of 12 list kinds (the 12th is a top-level statement pattern with its implicit leading/trailing elision) (call arguments, unkeyed and keyed composite elements, unnamed and named parameters, results, struct fields, interface methods, " +
			"block statements, case bodies, return values) every pattern word over {a, b, metavariable x, y (repeats included), '...'} of length 1..4 with 1..3 non-adjacent elisions, and every word of length 5..6 over {a, b, x, '...'} with 2..3 elisions in which x occurs twice (the tail's match depends on the earlier binding), " +
			"is applied to every target list over {a,b,c} of length 0..5 (364 lists batched in one file); additionally every word with a section of 3-4 explicit elements from {a,b} next to elisions (D s D, a D s D, D s D b, s D, D s) against every list over {a,b} of length 0..8 (511 lists), where partial matches overlap the real one; both layouts (elisions on context lines; single-line '-'/'+' when there is one elision); " +
			"'for ... {' against all loop header shapes; plus random longer lists. The output of every run is compared with the reference list matching (full backtracking, leftmost-shortest) " +
			"and run reproduction. non-trivial = pattern has >=1 elision (all are); distinct = (list kind, layout, pattern word, target word).",
		Assumptions: []string{
			"reference list matcher (ref/unify.go) implements 'some choice of runs matches' with leftmost-shortest assignment",
			"exhaustive only for the enumerated sub-space named in the rule; list elements are atoms",
		},
		Cases:      c04Cases,
		Floor:      func(string) int { return 100000 },
		Exhaustive: func(tier string) bool { return tier == "thorough" },
		Run:        runC04,
	})
}

func runC04(ctx *core.Ctx, idx int) *core.Result {
	res := &core.Result{}
	if idx == 1 {
		nestedListBindingProbe(res)
	}
	k := &listKinds[idx%len(listKinds)]
	w := c04Words[idx/len(listKinds)]
	if ctx.Tier != "thorough" {
		// quick: the whole table for a third of the list kinds (rotating with the seed) and for
		// the implicit-elision kind, every 4th pattern word for the others
		full := k.Implicit || (idx%len(listKinds)+int(ctx.Seed%3+3))%3 == 0
		if !full && (idx/len(listKinds))%4 != 0 {
			return res
		}
	}
	r := ctx.Rand("c04", idx)
	nd := strings.Count(w, "D")
	type layout struct {
		oneLine bool
		variant int
	}
	var layouts []layout
	if !k.OneLine {
		layouts = append(layouts, layout{false, 0})
		if strings.Contains(w, "y") {
			layouts = append(layouts, layout{false, 1})
		}
		if k.Implicit {
			layouts = append(layouts, layout{false, 2})
		}
		if k.Sep == "," && nd >= 2 {
			layouts = append(layouts, layout{false, 3})
		}
	}
	if nd == 1 && !strings.Contains(k.Head(0), "\n") {
		layouts = append(layouts, layout{true, 0})
	}
	if len(layouts) == 0 || (k.Implicit && strings.Trim(w, "D") == "") {
		return res
	}
	targets := c04Targets
	if idx/len(listKinds) >= c04NumShort {
		targets = c04Targets2
	}
	src := targetFile(k, targets)
	// random longer lists
	var long []string
	for i := 0; i < 40; i++ {
		n := 6 + r.Intn(7)
		b := make([]byte, n)
		for j := range b {
			b[j] = "abc"[r.Intn(3)]
		}
		long = append(long, string(b))
	}
	srcLong := targetFile(k, long)
	for li, lo := range layouts {
		c := buildListChange(k, w, lo.variant, lo.oneLine)
		viaCLI := (idx+li)%16 == 0
		before := len(res.Viol)
		semBatch(ctx, idx, res, c, []string{src, srcLong}, nil, viaCLI, "C04")
		res.Evals += len(targets) + len(long) - 2
		if len(res.Viol) == before {
			for _, t := range targets {
				res.Sig(k.Name, lo.oneLine, lo.variant, w, t)
			}
		}
		res.Ob("pattern-x-target pairs", len(targets)+len(long))
	}
	// for ... { against every loop header shape
	if idx < 24 {
		// an elision over elements that an earlier change of the same patch generated (chain shared with C01 and C02)
		g := gen.NewG(ctx.Rand("c04chain", idx))
		chain, plants, word := followUpChain(g, 6+idx%2)
		var srcs, extra []string
		for f := 0; f < 3; f++ {
			srcs = append(srcs, g.File(gen.FileOpts{Plants: plants}))
			extra = append(extra, word)
		}
		semBatchSeq(ctx, idx, res, chain, srcs, extra, idx%4 == 0, "C04")
	}
	if idx < len(listKinds) {
		forDotsCase(ctx, idx, res)
		forWrittenHeaderCase(ctx, idx, res, "C04")
		caseClauseCase(ctx, idx, res, "C04")
	}
	// the schema library's patterns with elisions (elisions on context lines reused on '+' lines, several
	// elisions per line, elided parameter / result / field lists, nested statement elisions) on generated files
	if idx < 400 {
		dottedSchemaCase(ctx, idx, res)
	}
	return res
}

// nestedListBindingProbe is the directed input of the known finding C04/missed-instance/binding-chosen-in-nested-list:
// a metavariable that an elided list nested inside another list binds first is not re-bound when the outer list then
// fails to match (no backtracking across lists). The same pattern with the occurrences the other way round works.
func nestedListBindingProbe(res *core.Result) {
	pt := "@@\nvar x expression\n@@\n-tgtOuter(tgtInner(..., x, ...), x)\n+replOuter(x)\n"
	src := "package p\n\nfunc f() {\n\ttgtOuter(tgtInner(1, 2), 1)\n\ttgtOuter(tgtInner(1, 2), 2)\n\ttgtOuter(tgtInner(1, 2), 3)\n}\n"
	runs := applyAPI(pt, []string{src})
	res.Evals++
	out := runs[0].Out
	rep := replayFiles(pt, src, out)
	if runs[0].Pan != "" || runs[0].Err != "" {
		res.Violate("C04/nested-list-probe-failed", runs[0].Pan+runs[0].Err, rep)
		return
	}
	if !strings.Contains(out, "replOuter(1)") || !strings.Contains(out, "tgtOuter(tgtInner(1, 2), 3)") {
		res.Violate("C04/wrong-rewrite/nested-list-probe", "the first call must be rewritten to replOuter(1), the third one is no instance", rep)
		return
	}
	if !strings.Contains(out, "replOuter(2)") {
		res.Violate("C04/missed-instance/binding-chosen-in-nested-list", "tgtOuter(tgtInner(1, 2), 2) is an instance with x = 2 (the inner elisions standing for '1' and for nothing) but is left unchanged", rep)
	}
	res.Sig("nested-list-binding-probe")
}

var dottedSchemas = func() []int {
	var out []int
	g := gen.NewG(rand.New(rand.NewSource(1)))
	for i := range gen.Schemas {
		if c := gen.Schemas[i].Gen(g); c != nil && c.HasDots() {
			out = append(out, i)
		}
	}
	return out
}()

func dottedSchemaCase(ctx *core.Ctx, idx int, res *core.Result) {
	r := ctx.Rand("c04-schema", idx)
	g := gen.NewG(r)
	c := g.SchemaChange(dottedSchemas[idx%len(dottedSchemas)])
	if idx%3 == 1 {
		// several elisions whose sections share metavariables, on lists with dead-end candidates and on lists that are
		// nothing but the sections (every run empty)
		c = g.SharedSectionsChange()
	}
	var srcs, extra []string
	for f := 0; f < 4; f++ {
		plants, kinds := g.InstancePlants(c, 1+r.Intn(4), r.Intn(2))
		srcs = append(srcs, g.File(gen.FileOpts{Plants: plants}))
		extra = append(extra, "schema:"+c.Schema+":"+strings.Join(kinds, ","))
	}
	res.Ob("schema-elision-cases", 1)
	semBatch(ctx, idx, res, c, srcs, extra, idx%8 == 0, "C04")
}

var loopHeaders = []string{"", "cond()", "i := 0; i < n; i++", "; i < n;", "i := 0; ; i++", "_, v := range vs", "k := range m", "range ch", "k, v = range m", "i := range 10", ";;"}

func forDotsCase(ctx *core.Ctx, idx int, res *core.Result) { forDotsCaseFor(ctx, idx, res, "C04") }

func forDotsCaseFor(ctx *core.Ctx, idx int, res *core.Result, prop string) {
	bodies := [][2]string{
		{" for ‹1:for› {\n-  target(«x»)\n+  repl(«x»)\n }", "target(1)"},
		{" for ‹1:for› {\n   ‹2:stmts›\n-  target(«x»)\n+  repl(«x»)\n   ‹3:stmts›\n }", "pre()\n\ttarget(1)\n\tpost()"},
		{"-for ‹1:for› {\n+for ‹1:for› {\n+  added()\n   target(«x»)\n }", "target(2)"},
		// two loops, the first is deleted: the kept one keeps its own header (pairing is by place, not by count)
		{"-for ‹1:for› {\n-  gone()\n-}\n for ‹2:for› {\n-  target(«x»)\n+  repl(«x»)\n }", "target(3)"},
		{" for ‹1:for› {\n   keep()\n }\n-for ‹2:for› {\n-  gone()\n-}\n for ‹3:for› {\n-  target(«x»)\n+  repl(«x»)\n }", "target(4)"},
		// loop fission: two loops of the '+' side stand for the one loop of the '-' side, each with its own body
		{"-for ‹1:for› {\n-  target(«x»)\n-  other(«x»)\n-}\n+for ‹1:for› {\n+  target(«x»)\n+}\n+for ‹1:for› {\n+  other(«x»)\n+}", "target(7)\n\tother(7)"},
		// the loop is the last statement of a block that the pattern writes out, behind an elision (no implied '...' follows)
		{" if enabled {\n   ‹2:stmts›\n   for ‹1:for› {\n-    target(«x»)\n+    repl(«x»)\n   }\n }", "target(5)"},
		{" if enabled {\n   ‹2:stmts›\n-  for ‹1:for› {\n-    target(«x»)\n-  }\n+  for ‹1:for› {\n+    repl(«x»)\n+    more()\n+  }\n }", "target(6)"},
	}
	b := bodies[idx%len(bodies)]
	c := &gen.Change{Kind: "stmts", Schema: "c04-for-dots", Meta: []gen.MetaVar{{Name: "x", Kind: "expression"}}}
	for _, l := range strings.Split(b[0], "\n") {
		c.Lines = append(c.Lines, gen.L(l[0], l[1:]))
	}
	var sb strings.Builder
	sb.WriteString("package p\n\n")
	for i, h := range loopHeaders {
		// a labelled loop is a labelled statement, not a for statement: unchanged, label and all
		fmt.Fprintf(&sb, "func labelled%d() {\nL%d:\n\tfor %s {\n\t%s\n\tcontinue L%d\n\t}\n}\n\n", i, i, h, b[1], i)
		fmt.Fprintf(&sb, "func loop%d() {\n\tfor %s {\n\t%s\n\t}\n}\n\n", i, h, b[1])
		fmt.Fprintf(&sb, "func notloop%d() {\n\tif c%d {\n\t%s\n\t}\n}\n\n", i, i, b[1])
		fmt.Fprintf(&sb, "func lastInBlock%d() {\n\tif enabled {\n\t\tpre()\n\t\tfor %s {\n\t\t%s\n\t\t}\n\t}\n\tafter()\n}\n\n", i, h, b[1])
		fmt.Fprintf(&sb, "func onlyInBlock%d() {\n\tif enabled {\n\t\tfor %s {\n\t\t%s\n\t\t}\n\t}\n}\n\n", i, h, b[1])
		h2, h3 := loopHeaders[(i+1)%len(loopHeaders)], loopHeaders[(i+2)%len(loopHeaders)]
		fmt.Fprintf(&sb, "func loops%d() {\n\tfor %s {\n\tkeep()\n\t}\n\tfor %s {\n\tgone()\n\t}\n\tfor %s {\n\t%s\n\t}\n}\n\n", i, h3, h2, h, b[1])
	}
	semBatch(ctx, idx, res, c, []string{sb.String()}, nil, true, prop)
	for _, h := range loopHeaders {
		res.Sig("for-dots", idx%len(bodies), h)
	}
}

// forWrittenHeaderCase: a loop pattern that spells out an init or a post statement around a '...' condition. Whatever
// such a pattern matches, it is no 'for ... {': a loop whose init or post statement differs from the written one in any
// token is not an instance and stays as it is (reference-free: the body of every such loop still calls target).
func forWrittenHeaderCase(ctx *core.Ctx, idx int, res *core.Result, prop string) {
	pats := []struct{ init, post string }{{"i := 0", "i++"}, {"", "i++"}, {"i := 0", ""}, {"k = 1", "k *= 2"}}
	p := pats[idx%len(pats)]
	patch := fmt.Sprintf("@@\nvar x expression\n@@\n for %s; ...; %s {\n-  target(x)\n+  repl(x)\n }\n", p.init, p.post)
	type hdr struct{ init, cond, post, whole string }
	hs := []hdr{{"i := 0", "i < n", "i++", ""}, {"i := 1", "i < n", "i++", ""}, {"i := 0", "i < n", "i += 2", ""}, {"j := n", "j > 0", "j--", ""}, {"", "i < n", "i++", ""},
		{"i := 0", "i < n", "", ""}, {"", "", "", ""}, {"k = 1", "k < 9", "k *= 2", ""}, {"k = 1", "", "k *= 2", ""}, {"i := 0", "", "i++", ""},
		{"", "", "", "range ch"}, {"", "", "", "i := range 10"}, {"", "", "", "_, v := range vs"}, {"", "", "", "cond()"}, {"", "", "", ""}}
	var sb strings.Builder
	sb.WriteString("package p\n\n")
	var mustStay []bool
	for i, h := range hs {
		w := h.whole
		if w == "" && (h.init != "" || h.cond != "" || h.post != "") {
			w = h.init + "; " + h.cond + "; " + h.post
		}
		fmt.Fprintf(&sb, "func loop%d() {\n\tfor %s {\n\t\ttarget(%d)\n\t}\n}\n\n", i, w, i)
		mustStay = append(mustStay, h.whole != "" || h.init != p.init || h.post != p.post)
	}
	src := sb.String()
	if !gen.Parses(src) {
		res.Violate("harness-generator", "forWrittenHeaderCase: generated file does not parse\n"+src, nil)
		return
	}
	runs := applyAPI(patch, []string{src})
	if cli, _ := applyCLI(ctx, patch, []string{src}); len(cli) == 1 {
		runs = append(runs, cli[0])
	}
	for ri, run := range runs {
		res.Evals++
		res.Ob("for-written-header-runs", 1)
		res.Sig("for-written-header", p.init, p.post, ri)
		rep := replayFiles(patch, src, run.Out)
		if run.Pan != "" {
			res.Violate(prop+"/engine-panic:"+core.PanicSignature(run.Pan), run.Pan, rep)
			continue
		}
		if run.Err != "" || run.Out == "" {
			continue // the pattern is not accepted, or nothing applies: nothing was rewritten
		}
		funcs := strings.Split(run.Out, "\nfunc ")
		if len(funcs) != len(hs)+1 {
			res.Violate(prop+"/wrong-rewrite/for-written-header", fmt.Sprintf("%d functions in, %d out", len(hs), len(funcs)-1), rep)
			continue
		}
		for i := range hs {
			if mustStay[i] && !strings.Contains(funcs[i+1], fmt.Sprintf("target(%d)", i)) {
				res.Violate(prop+"/false-positive/for-written-header", fmt.Sprintf("pattern 'for %s; ...; %s {' rewrote the body of loop%d, whose header differs from it: %s", p.init, p.post, i, core.Trunc(funcs[i+1], 160)), rep)
				break
			}
		}
	}
}

// caseClauseCase: 'case ...:' stands for a case clause with any expressions, not for 'default:' (another token; go/ast
// merely gives it no expression list), and 'default:' in a pattern stands for nothing else. Reference-free: one switch
// per function, the clause line of every function is looked at in the output.
func caseClauseCase(ctx *core.Ctx, idx int, res *core.Result, prop string) {
	type pc struct {
		patch   string
		rewrite func(clause string) string // what the clause line of a function has to be afterwards
	}
	sw := []string{"switch x {", "switch v := y.(type) {", "switch {"}[idx%3]
	one := map[string]string{"switch x {": "1", "switch v := y.(type) {": "int", "switch {": "ok"}[sw]
	two := map[string]string{"switch x {": "1, 2", "switch v := y.(type) {": "int, string", "switch {": "ok, !ok"}[sw]
	zero := map[string]string{"switch x {": "0", "switch v := y.(type) {": "bool", "switch {": "never"}[sw]
	pcs := []pc{
		{"@@\n@@\n " + sw + "\n-case ...:\n+case " + zero + ", ...:\n   foo()\n }\n", func(c string) string {
			if c == "default:" {
				return c
			}
			return "case " + zero + ", " + strings.TrimPrefix(c, "case ")
		}},
		{"@@\n@@\n " + sw + "\n-default:\n+case " + zero + ":\n   foo()\n }\n", func(c string) string {
			if c == "default:" {
				return "case " + zero + ":"
			}
			return c
		}},
	}
	// a replacement that would leave a case clause without any expression is no Go (go/printer would write 'default:'):
	// the site is reported or left alone, never turned into the default clause
	{
		pt := "@@\nvar cx expression\n@@\n " + sw + "\n-case cx, ...:\n+case ...:\n   foo()\n }\n"
		mk := func(c string) string {
			return "package p\n\nfunc f() {\n\t" + sw + "\n\t" + c + "\n\t\tfoo()\n\t}\n}\n"
		}
		srcs := []string{mk("default:"), mk("case " + one + ":"), mk("case " + two + ":")}
		second := strings.TrimSpace(strings.SplitN(two, ",", 2)[1])
		for i, run := range applyAPI(pt, srcs) {
			res.Evals++
			res.Ob("case-clause-runs", 1)
			rep := replayFiles(pt, srcs[i], run.Out)
			out := strings.Join(strings.Fields(run.Out), " ")
			switch {
			case run.Pan != "":
				res.Violate(prop+"/engine-panic:"+core.PanicSignature(run.Pan), run.Pan, rep)
			case i == 0 && (run.Err != "" || run.Out != srcs[0]):
				res.Violate(prop+"/false-positive/case-clause", "'case cx, ...:' and a default clause: "+run.Err, rep)
			case i == 1 && run.Err == "" && run.Out != srcs[1]:
				res.Violate(prop+"/wrong-rewrite/case-clause-left-empty", "'case "+one+":' under '-case cx, ...:' '+case ...:' became: "+out, rep)
			case i == 2 && (run.Err != "" || !strings.Contains(out, "case "+second+": foo()")):
				res.Violate(prop+"/wrong-rewrite/case-clause", "'case "+two+":' under '-case cx, ...:' '+case ...:': "+run.Err+" "+out, rep)
			}
		}
	}
	p := pcs[(idx/3)%len(pcs)]
	clauses := []string{"default:", "case " + one + ":", "case " + two + ":"}
	var sb strings.Builder
	sb.WriteString("package p\n\n")
	for i, c := range clauses {
		fmt.Fprintf(&sb, "func f%d() {\n\t%s\n\t%s\n\t\tfoo()\n\t}\n}\n\n", i, sw, c)
	}
	src := sb.String()
	if !gen.Parses(src) {
		res.Violate("harness-generator", "caseClauseCase: generated file does not parse\n"+src, nil)
		return
	}
	runs := applyAPI(p.patch, []string{src})
	if cli, _ := applyCLI(ctx, p.patch, []string{src}); len(cli) == 1 {
		runs = append(runs, cli[0])
	}
	squash := func(s string) string { return strings.Join(strings.Fields(s), " ") }
	for ri, run := range runs {
		res.Evals++
		res.Ob("case-clause-runs", 1)
		res.Sig("case-clause", sw, (idx/3)%len(pcs), ri)
		rep := replayFiles(p.patch, src, run.Out)
		if run.Pan != "" {
			res.Violate(prop+"/engine-panic:"+core.PanicSignature(run.Pan), run.Pan, rep)
			continue
		}
		if run.Err != "" {
			res.Violate(prop+"/engine-error", "case clause pattern: "+run.Err, rep)
			continue
		}
		funcs := strings.Split(run.Out, "\nfunc ")
		if len(funcs) != len(clauses)+1 {
			res.Violate(prop+"/wrong-rewrite/case-clause", fmt.Sprintf("%d functions in, %d out", len(clauses), len(funcs)-1), rep)
			continue
		}
		for i, c := range clauses {
			want := squash(sw + " " + p.rewrite(c) + " foo()")
			if got := squash(funcs[i+1]); !strings.Contains(got, want) {
				cls := "/wrong-rewrite/case-clause"
				if p.rewrite(c) == c {
					cls = "/false-positive/case-clause"
				}
				res.Violate(prop+cls, fmt.Sprintf("switch with %q under pattern %q: want %q in %q", c, strings.Split(p.patch, "\n")[3], want, got), rep)
				break
			}
		}
	}
}
