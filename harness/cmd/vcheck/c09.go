package main

import (
	"fmt"
	"os"
	"path/filepath"
	"regexp"
	"strings"

	"verif/harness/core"
	"verif/harness/gen"
	"verif/harness/ref"
)

var c09MetaRe = regexp.MustCompile(`«([A-Za-z_][A-Za-z0-9_]*)»`)

// renameMetas gives every metavariable of a template a fresh name (suffix), keeping kinds.
func renameMetas(tmpl string, metas []gen.MetaVar, suffix string) (string, []gen.MetaVar) {
	var out []gen.MetaVar
	for _, m := range metas {
		if strings.Contains(tmpl, "«"+m.Name+"»") {
			out = append(out, gen.MetaVar{Name: m.Name + suffix, Kind: m.Kind})
		}
	}
	return c09MetaRe.ReplaceAllString(tmpl, "«${1}"+suffix+"»"), out
}

// plusShape builds a '+' call named fn over the metavariables (argument slots only).
func plusShape(g *gen.G, fn string, metas []gen.MetaVar, hasDots bool) string {
	r := g.R
	var args []string
	for _, m := range metas {
		switch r.Intn(6) {
		case 0: // drop
		case 5:
			args = append(args, "w(«"+m.Name+"»)")
		case 1:
			args = append(args, "«"+m.Name+"»", "«"+m.Name+"»")
		case 2:
			// wrappers around identifiers too: in generated code all of them sit at the same (collapsed) position
			args = append(args, "w(«"+m.Name+"»)")
			if r.Intn(3) == 0 {
				args = append(args, "w(«"+m.Name+"»)")
			}
		default:
			args = append(args, "«"+m.Name+"»")
		}
	}
	r.Shuffle(len(args), func(i, j int) { args[i], args[j] = args[j], args[i] })
	if hasDots && r.Intn(3) > 0 {
		pos := r.Intn(len(args) + 1)
		args = append(args[:pos], append([]string{"‹1:args›"}, args[pos:]...)...)
	}
	if r.Intn(4) == 0 {
		args = append(args, fmt.Sprint(r.Intn(5)))
	}
	return fn + "(" + strings.Join(args, ", ") + ")"
}

type c09Seq struct {
	changes []*gen.Change
	roles   []string
	base    *gen.Change // instances of its minus side are planted
	indep   *gen.Change
	extra   []string // further expression plants (%s = an atom)
	decls   []string // further declaration plants
	imports string   // import block of the files
}

// c09SpecialSeq builds the fixed-shape sequences that need more than the chain generator offers.
func c09SpecialSeq(g *gen.G, which int) *c09Seq {
	mk := func(kind, schema string, meta []gen.MetaVar, guards []gen.Line, minus, plus string) *gen.Change {
		return &gen.Change{Kind: kind, Schema: schema, Meta: meta, Guards: guards, Lines: []gen.Line{gen.L('-', minus), gen.L('+', plus)}}
	}
	x := []gen.MetaVar{{Name: "x", Kind: "expression"}}
	y := []gen.MetaVar{{Name: "y", Kind: "expression"}}
	switch which {
	case 0:
		// the same patch file named twice with another one in between that produces code the repeated one matches
		ca := mk("expr", "c09-cycle-a", x, nil, "cycA(«x»)", "cycB(«x»)")
		cb := mk("expr", "c09-cycle-b", y, nil, "cycC(«y»)", "cycA(«y», 1)")
		ca2 := mk("expr", "c09-cycle-a", []gen.MetaVar{{Name: "x", Kind: "expression"}, {Name: "z", Kind: "expression"}}, nil, "cycA(«x», «z»)", "cycD(«z», «x»)")
		if g.R.Intn(2) == 0 {
			return &c09Seq{changes: []*gen.Change{ca2, cb, ca2}, roles: []string{"repeat-a", "feeder", "repeat-a"}, base: cb}
		}
		cb1 := mk("expr", "c09-cycle-b", y, nil, "cycC(«y»)", "cycA(«y»)")
		return &c09Seq{changes: []*gen.Change{ca, cb1, ca}, roles: []string{"repeat-a", "feeder", "repeat-a"}, base: cb1, extra: []string{"cycA(%s)"}}
	case 2:
		// a later change searches, with several elisions and a repeated metavariable, a list that an earlier change
		// generated (generated elements have no positions of their own)
		c1 := mk("expr", "c09-generates-list", x, nil, "oldList(«x»)", "genList(a, «x», c, «x», d)")
		c2 := mk("expr", "c09-searches-generated-list", []gen.MetaVar{{Name: "p", Kind: "expression"}, {Name: "q", Kind: "expression"}}, nil,
			"genList(‹1:args›, «p», ‹2:args›, «q», ‹3:args›, «p», ‹4:args›)", "found(«p», «q»)")
		if g.R.Intn(2) == 0 {
			c1 = mk("expr", "c09-generates-list", nil, nil, "oldList()", "genList(a, b, c, b)")
			c2 = mk("expr", "c09-searches-generated-list", []gen.MetaVar{{Name: "p", Kind: "expression"}, {Name: "q", Kind: "expression"}}, nil,
				"genList(‹1:args›, «p», ‹2:args›, «q», ‹3:args›, «p»)", "found(«p», «q»)")
		}
		return &c09Seq{changes: []*gen.Change{c1, c2}, roles: []string{"generates-list", "searches-it"}, base: c1}
	case 3:
		// an earlier change tries its metavariable on a node N (wrapE(N, 5) is a near-miss of wrapE(e, 0)) and rewrites
		// code strictly inside N; a later change captures N: it must see N as the earlier change left it
		e := []gen.MetaVar{{Name: "e", Kind: "expression"}}
		em := []gen.MetaVar{{Name: "e", Kind: "expression"}, {Name: "m", Kind: "expression"}}
		c1 := mk("expr", "c09-probes-and-rewrites-inside", e, nil, "wrapE(«e», 0)", "«e»")
		c2 := mk("expr", "c09-captures-probed-node", em, nil, "wrapE(«e», «m»)", "wrapF(«e», 9, «m»)")
		if g.R.Intn(2) == 0 {
			c1 = mk("expr", "c09-probes-and-rewrites-inside", e, nil, "wrapE(«e», 0)", "unwrapped(«e»)")
		}
		return &c09Seq{changes: []*gen.Change{c1, c2}, roles: []string{"probes-and-rewrites-inside", "captures-probed-node"}, base: c1,
			extra: []string{"wrapE(note(wrapE(%s, 0)), 5)", "wrapE(wrapE(%s, 0).Field, 6)", "wrapE(func() int { return wrapE(%s, 0) }, 7)"}}
	case 4:
		// an earlier change generates nested code of one shape (all of it at the position of the replaced site); a later
		// change matches both levels and reproduces the inner one through an elision
		c1 := mk("expr", "c09-generates-nested", x, nil, "oldJoin(«x»)", "join(a, join(«x», c))")
		c2 := mk("expr", "c09-rewrites-both-levels", []gen.MetaVar{{Name: "p", Kind: "expression"}}, nil, "join(«p», ‹1:args›)", "joinCtx(ctx, «p», ‹1:args›)")
		if g.R.Intn(2) == 0 {
			c1 = mk("expr", "c09-generates-nested", x, nil, "oldJoin(«x»)", "join(a, b, join(«x», join(c, d)))")
		}
		return &c09Seq{changes: []*gen.Change{c1, c2}, roles: []string{"generates-nested", "rewrites-both-levels"}, base: c1}
	case 5:
		// a stepwise migration: the '-' side of each change is, byte for byte, the '+' side of the one before it
		c1 := &gen.Change{Kind: "expr", Schema: "c09-step-1", Meta: x, Lines: []gen.Line{gen.L('-', "stepA(‹1:args›, «x», ‹2:args›)"), gen.L('+', "stepB(‹1:args›, «x», ‹2:args›)")}}
		c2 := &gen.Change{Kind: "expr", Schema: "c09-step-2", Meta: x, Lines: []gen.Line{gen.L('-', "stepB(‹1:args›, «x», ‹2:args›)"), gen.L('+', "stepC(‹1:args›, wrap(«x»), ‹2:args›)")}}
		c3 := &gen.Change{Kind: "expr", Schema: "c09-step-3", Meta: x, Lines: []gen.Line{gen.L('-', "stepC(‹1:args›, wrap(«x»), ‹2:args›)"), gen.L('+', "stepD(«x», ‹2:args›, ‹1:args›)")}}
		return &c09Seq{changes: []*gen.Change{c1, c2, c3}, roles: []string{"step", "step-same-text", "step-same-text"}, base: c1}
	case 6:
		// an earlier change puts captured code under an operator that needs parentheses around it; the later change
		// spells those parentheses: it matches the file the earlier change would write, so it matches in the combined run
		switch g.R.Intn(7) {
		case 5, 6:
			// a conversion built from a captured type: the printed file has parentheses around a function type, a
			// pointer type and a receive-only channel type, and the later change spells them
			tx := []gen.MetaVar{{Name: "t", Kind: "expression"}, {Name: "x", Kind: "expression"}}
			uy := []gen.MetaVar{{Name: "u", Kind: "expression"}, {Name: "y", Kind: "expression"}}
			c1 := mk("expr", "c09-generates-conversion", tx, nil, "convert(«t», «x»)", "«t»(«x»)")
			c2 := mk("expr", "c09-spells-the-parentheses", uy, nil, "(«u»)(«y»)", "cast(«u», «y»)")
			return &c09Seq{changes: []*gen.Change{c1, c2}, roles: []string{"generates-conversion", "spells-the-parentheses"}, base: c1,
				extra: []string{"convert(func() int, %s)", "convert(*T, %s)", "convert(<-chan int, %s)", "convert(func(int), %s)", "convert([]byte, %s)"}}
		case 3:
			// the replacement itself is an operator expression and lands under an operator of the untouched code that
			// binds tighter: the parentheses stand between untouched parent and generated child
			c1 := mk("expr", "c09-generates-operator-expression", x, nil, "isEmpty(«x»)", "len(«x») == 0")
			c2 := mk("expr", "c09-spells-the-parentheses", y, nil, "!(len(«y») == 0)", "len(«y») > 0")
			return &c09Seq{changes: []*gen.Change{c1, c2}, roles: []string{"generates-operator-expression", "spells-the-parentheses"}, base: c1, extra: []string{"!isEmpty(%s)", "!isEmpty(%s.list)"}}
		case 4:
			c1 := mk("expr", "c09-generates-operator-expression", x, nil, "twice(«x»)", "«x» + «x»")
			c2 := mk("expr", "c09-spells-the-parentheses", y, nil, "2 * («y» + «y»)", "4 * «y»")
			return &c09Seq{changes: []*gen.Change{c1, c2}, roles: []string{"generates-operator-expression", "spells-the-parentheses"}, base: c1, extra: []string{"2 * twice(%s)", "2 * twice(%s.n)"}}
		case 0:
			c1 := mk("expr", "c09-generates-under-operator", x, nil, "scale(«x»)", "2 * «x»")
			c2 := mk("expr", "c09-spells-the-parentheses", y, nil, "2 * («y»)", "double(«y»)")
			return &c09Seq{changes: []*gen.Change{c1, c2}, roles: []string{"generates-under-operator", "spells-the-parentheses"}, base: c1, extra: []string{"scale(%s + b)", "scale(a - %s)"}}
		case 1:
			c1 := mk("expr", "c09-generates-under-operator", x, nil, "sel(«x»)", "«x».Field")
			c2 := mk("expr", "c09-spells-the-parentheses", y, nil, "(«y»).Field", "field(«y»)")
			return &c09Seq{changes: []*gen.Change{c1, c2}, roles: []string{"generates-under-selector", "spells-the-parentheses"}, base: c1, extra: []string{"sel(%s + b)", "sel(-%s)", "sel(*%s)"}}
		default:
			c1 := mk("expr", "c09-generates-under-operator", x, nil, "neg(«x»)", "-«x»")
			c2 := mk("expr", "c09-spells-the-parentheses", y, nil, "-(«y»)", "minus(«y»)")
			return &c09Seq{changes: []*gen.Change{c1, c2}, roles: []string{"generates-under-unary", "spells-the-parentheses"}, base: c1, extra: []string{"neg(%s + b)", "neg(a * %s)"}}
		}
	case 7:
		// a later (or an earlier) change of the run matches the file only where its replacement cannot stand: it is a
		// no-op, and what the other changes did to the file stays
		c1 := mk("expr", "c09-rewrites", x, nil, "oldLog(«x»)", "newLog(«x»)")
		c2 := mk("expr", "c09-matches-only-inadmissible-places", nil, nil, "helperFn", "util.HelperFn")
		c2.Comments = []string{"qualify helperFn"}
		if g.R.Intn(2) == 0 {
			// ... and carries a package rename, which then does not happen either
			c2.Guards = []gen.Line{gen.L('-', "package p"), gen.L('+', "package q"), gen.L(' ', "")}
		}
		seq := &c09Seq{changes: []*gen.Change{c1, c2}, roles: []string{"rewrites", "matches-only-inadmissible-places"}, base: c1,
			decls: []string{"func helperFn() {}", "type holder struct {\n\thelperFn int\n}"}}
		switch g.R.Intn(3) {
		case 0:
			seq.changes, seq.roles = []*gen.Change{c2, c1}, []string{"matches-only-inadmissible-places", "rewrites"}
		case 1:
			c3 := mk("expr", "c09-rewrites-too", y, nil, "newLog(«y»)", "newLog(«y», 1)")
			seq.changes, seq.roles = []*gen.Change{c1, c2, c3}, []string{"rewrites", "matches-only-inadmissible-places", "rewrites-too"}
		}
		return seq
	case 8:
		// a later change written with its '+' line above its '-' line, behind a change that has elisions of its own:
		// each change pairs its elisions among its own
		c1 := &gen.Change{Kind: "stmts", Schema: "c09-has-elisions", Meta: x, Lines: []gen.Line{gen.L(' ', "stepOpen(«x»)"), gen.L(' ', "‹1:stmts›"), gen.L('-', "stepClose(«x»)"), gen.L('+', "stepShut(«x»)")}}
		if g.R.Intn(2) == 0 {
			c1 = mk("expr", "c09-has-elisions", x, nil, "stepCall(«x», ‹1:args›)", "stepCalled(‹1:args›, «x»)")
		}
		c2 := &gen.Change{Kind: "expr", Schema: "c09-plus-line-first", Lines: []gen.Line{gen.L('+', "dialContext(‹1:args›)"), gen.L('-', "dial(‹1:args›)")}}
		return &c09Seq{changes: []*gen.Change{c1, c2}, roles: []string{"has-elisions", "plus-line-first"}, base: c1, extra: []string{"dial(ctx, %s, timeout)", "dial(%s)"}}
	case 9:
		// an earlier change swaps one import for another (the number of imports stays the same); later changes are
		// guarded by the old and by the new import
		imp := func(prefix byte, path string) []gen.Line {
			return []gen.Line{gen.L(prefix, `import "`+path+`"`), gen.L(' ', "")}
		}
		c1 := mk("expr", "c09-swaps-import", x, append(imp('-', "example.com/old/swaplog"), imp('+', "example.com/new/swaplog")[0], gen.L(' ', "")), "swaplog.Warn(«x»)", "swaplog.Warning(«x»)")
		c1.Guards = []gen.Line{gen.L('-', `import "example.com/old/swaplog"`), gen.L('+', `import "example.com/new/swaplog"`), gen.L(' ', "")}
		c2 := mk("expr", "c09-guarded-by-removed-import", y, imp(' ', "example.com/old/swaplog"), "swapMark(«y»)", "swapOld(«y»)")
		c3 := mk("expr", "c09-guarded-by-swapped-in-import", y, imp(' ', "example.com/new/swaplog"), "swapMark(«y»)", "swapNew(«y»)")
		return &c09Seq{changes: []*gen.Change{c1, c2, c3}, roles: []string{"swaps-import", "guarded-by-removed-import", "guarded-by-swapped-in-import"}, base: c1,
			extra: []string{"swapMark(%s)"}, imports: "import (\n\t\"example.com/old/swaplog\"\n\t\"os\"\n)\n\nvar _ = os.Args\n"}
	case 15:
		// number literals in a spelling that printing normalises (0XFF, 1E3), written by an earlier change or captured
		// from the file: a later change that spells them the old way matches the file the earlier change wrote or it
		// does not, in the combined run as in the chain
		which := g.R.Intn(3)
		if which == 2 {
			// the literal stands in a declaration that no change rewrites: it is respelt with the rest of the file when
			// the first change applies, and stays as it is in a file the first change does not apply to
			c1 := mk("expr", "c09-rewrites-code-elsewhere", x, nil, "numOld(«x»)", "numMid(«x»)")
			c2 := mk("expr", "c09-spells-the-untouched-number-as-printed", nil, nil, "0x2A", "numMaskPrinted()")
			c3 := mk("expr", "c09-spells-the-untouched-number-that-way", nil, nil, "0X2A", "numMaskOld()")
			c4 := mk("expr", "c09-spells-the-untouched-float-as-printed", nil, nil, "1e6", "numFloatPrinted()")
			return &c09Seq{changes: []*gen.Change{c1, c2, c3, c4}, roles: []string{"rewrites-code-elsewhere", "spells-the-untouched-number-as-printed", "spells-the-untouched-number-that-way", "spells-the-untouched-float-as-printed"}, base: c1,
				decls: []string{"const numMaskUntouched = 0X2A", "var numFloatUntouched = 1E6 + float64(0X2A)"}}
		}
		if which == 0 {
			c1 := mk("expr", "c09-writes-a-number-literal", x, nil, "numOld(«x»)", "numNew(«x», 0XFF, 1E3)")
			c2 := mk("expr", "c09-spells-the-number-that-way", y, nil, "numNew(«y», 0XFF, 1E3)", "numLast(«y»)")
			c3 := mk("expr", "c09-spells-the-number-as-printed", y, nil, "numNew(«y», 0xFF, 1e3)", "numPrinted(«y»)")
			return &c09Seq{changes: []*gen.Change{c1, c2, c3}, roles: []string{"writes-a-number-literal", "spells-the-number-that-way", "spells-the-number-as-printed"}, base: c1}
		}
		c1 := mk("expr", "c09-captures-a-number-literal", x, nil, "numOld(«x»)", "numMid(«x»)")
		c2 := mk("expr", "c09-spells-the-number-that-way", nil, nil, "numMid(0X1F)", "numHex()")
		c3 := mk("expr", "c09-spells-the-number-as-printed", nil, nil, "numMid(0x1F)", "numHexPrinted()")
		return &c09Seq{changes: []*gen.Change{c1, c2, c3}, roles: []string{"captures-a-number-literal", "spells-the-number-that-way", "spells-the-number-as-printed"}, base: c1,
			extra: []string{"numOld(0X1F%.0s)", "numOld(0x1F%.0s)", "numOld(0B11 + %s)"}}
	case 13:
		// an earlier change has an import on a context line, a later change of the same patch file has the same import
		// on a '-' line and removes its last uses: what one change keeps says nothing about the other
		c1 := mk("expr", "c09-keeps-import-as-context", x, []gen.Line{gen.L(' ', `import "example.com/old/keptlog"`), gen.L(' ', "")}, "keptlog.Warn(«x»)", "keptlog.Warning(«x»)")
		c2 := mk("expr", "c09-removes-that-import", y, []gen.Line{gen.L('-', `import "example.com/old/keptlog"`), gen.L('+', `import "example.com/new/keptlog2"`), gen.L(' ', "")}, "keptlog.Warning(«y»)", "keptlog2.Warning(«y»)")
		return &c09Seq{changes: []*gen.Change{c1, c2}, roles: []string{"keeps-import-as-context", "removes-that-import"}, base: c1,
			extra:   []string{"keptlog.Warn(%s)", "keptlog.Warning(%s)"},
			imports: "import (\n\t\"example.com/old/keptlog\"\n\t\"os\"\n)\n\nvar _ = os.Args\n"}
	case 16:
		// an earlier change writes a selector on a name that is a parameter where it lands and an imported package
		// elsewhere; a later change removes that import: whether the import is still referred to is decided on the code
		// as it stands, also for code the patch wrote (which no parser has resolved)
		c1 := mk("stmts", "c09-writes-a-name-that-is-a-parameter-there", nil, nil, "writeParamLog()", "paramlog.Print()")
		c2 := mk("expr", "c09-removes-the-import-of-that-name", nil, []gen.Line{gen.L('-', `import "example.com/pkg/paramlog"`), gen.L(' ', "")}, "paramHelper()", "paramHelper2()")
		return &c09Seq{changes: []*gen.Change{c1, c2}, roles: []string{"writes-a-name-that-is-a-parameter-there", "removes-the-import-of-that-name"}, base: c2,
			decls:   []string{"type paramLogT struct{}", "func (paramLogT) Print() {}", "func paramLogFn(paramlog paramLogT) {\n\twriteParamLog()\n\tparamHelper()\n}", "func paramLogLit() {\n\tfor _, paramlog := range []paramLogT{{}} {\n\t\tif true {\n\t\t\twriteParamLog()\n\t\t}\n\t}\n}"},
			imports: "import (\n\t\"example.com/pkg/paramlog\"\n\t\"os\"\n)\n\nvar _ = os.Args\n"}
	case 14:
		// an earlier change declares a local variable that is named like an imported package, above a use of that name;
		// a later change is guarded by the import and rewrites uses of the package's name: the combined run and the
		// chain look at the same code, whatever the parser knew about the name when the file was read
		c1 := mk("stmts", "c09-declares-a-shadowing-local", nil, nil, "setupShadowLog()", "shlog := newLogger()")
		c2 := mk("expr", "c09-guarded-by-the-shadowed-import", y, []gen.Line{gen.L(' ', `import "example.com/pkg/shlog"`), gen.L(' ', "")}, "shlog.Print(«y»)", "shlog.Println(«y»)")
		return &c09Seq{changes: []*gen.Change{c1, c2}, roles: []string{"declares-a-shadowing-local", "guarded-by-the-shadowed-import"}, base: c1,
			extra:   []string{"shlog.Print(%s)"},
			decls:   []string{"func shadowLogFn() {\n\tsetupShadowLog()\n\tshlog.Print(\"x\")\n}"},
			imports: "import (\n\t\"example.com/pkg/shlog\"\n\t\"os\"\n)\n\nvar _ = os.Args\n"}
	case 12:
		// an earlier change writes the file's first references to a package and adds its import; a later change removes
		// that import and rewrites only some of the references: whether the import may go is decided on the file as it
		// is then, not on what the parser saw when the file was read
		c1 := mk("expr", "c09-introduces-package", x, []gen.Line{gen.L('-', `import "example.com/legacy/strutil"`), gen.L('+', `import "strings"`), gen.L(' ', "")}, "strutil.Upper(«x»)", "strings.ToUpper(«x»)")
		c2 := mk("expr", "c09-removes-import-still-in-use", y, []gen.Line{gen.L('-', `import "strings"`), gen.L('+', `import "bytes"`), gen.L(' ', "")}, "strings.ToUpper(string(«y»))", "string(bytes.ToUpper(«y»))")
		return &c09Seq{changes: []*gen.Change{c1, c2}, roles: []string{"introduces-package", "removes-import-still-in-use"}, base: c1,
			extra:   []string{"strutil.Upper(string(%s))", "strutil.Upper(%s)"},
			imports: "import (\n\t\"example.com/legacy/strutil\"\n\t\"os\"\n)\n\nvar _ = os.Args\n"}
	case 11:
		// a later change of the same patch file uses, as an ordinary name, a name that an earlier change declares as a
		// metavariable: on its own it rewrites the code that has that very name and nothing else, and so it does in
		// the combined run
		nm := []string{"x", "err", "v"}[g.R.Intn(3)]
		mv := []gen.MetaVar{{Name: nm, Kind: "expression"}}
		c1 := mk("expr", "c09-declares-a-name", mv, nil, "declUse(«"+nm+"»)", "declUsed(«"+nm+"»)")
		c2 := mk("expr", "c09-uses-the-name-as-plain-code", nil, nil, "plainUse("+nm+")", "plainUsed("+nm+", 1)")
		c3 := mk("expr", "c09-writes-the-name-as-plain-code", nil, nil, "plainSet()", "plainSetTo("+nm+")")
		return &c09Seq{changes: []*gen.Change{c1, c2, c3}, roles: []string{"declares-a-name", "uses-the-name-as-plain-code", "writes-the-name-as-plain-code"}, base: c1,
			extra: []string{"plainUse(" + nm + "%.0s)", "plainUse(other%.0s)", "plainUse(%s)", "plainSet(%.0s)"}}
	case 10:
		// an earlier change reproduces, through a metavariable, a local variable that is named like an imported package;
		// a later change removes that import: the copy of the local is still a local, not a reference to the package
		c1 := mk("expr", "c09-copies-shadowing-local", x, nil, "shadowUse(«x»)", "shadowUsed(«x»)")
		c2 := mk("expr", "c09-removes-shadowed-import", y, []gen.Line{gen.L('-', `import "example.com/old/swaplog"`), gen.L(' ', "")}, "swaplog.Warn(«y»)", "println(«y»)")
		return &c09Seq{changes: []*gen.Change{c1, c2}, roles: []string{"copies-shadowing-local", "removes-shadowed-import"}, base: c1,
			extra:   []string{"swaplog.Warn(%s)"},
			decls:   []string{"func shadowFn(l *L) {\n\tswaplog := l.With()\n\tshadowUse(swaplog.Name())\n}"},
			imports: "import (\n\t\"example.com/old/swaplog\"\n\t\"os\"\n)\n\nvar _ = os.Args\n"}
	default:
		// a later change is guarded by an import that only an earlier change adds (and by a package clause that only
		// an earlier change makes true)
		imp := func(prefix byte, path string) []gen.Line {
			return []gen.Line{gen.L(prefix, `import "`+path+`"`), gen.L(' ', "")}
		}
		c1 := mk("expr", "c09-adds-import", x, imp('+', "example.com/newlog"), "oldlog(«x»)", "newlog.Warn(«x»)")
		c2 := mk("expr", "c09-guarded-by-added-import", y, imp(' ', "example.com/newlog"), "newlog.Warn(«y»)", "newlog.Warning(«y», 1)")
		seq := &c09Seq{changes: []*gen.Change{c1, c2}, roles: []string{"adds-import", "guarded-by-it"}, base: c1}
		if g.R.Intn(2) == 0 {
			c0 := mk("expr", "c09-renames-package", nil, []gen.Line{gen.L('-', "package p"), gen.L('+', "package renamed"), gen.L(' ', "")}, "pkgMarker", "pkgMarker2")
			c3 := mk("expr", "c09-guarded-by-renamed-package", nil, []gen.Line{gen.L(' ', "package renamed"), gen.L(' ', "")}, "pkgMarker2", "pkgMarker3")
			seq.changes = append([]*gen.Change{c0}, append(seq.changes, c3)...)
			seq.roles = append([]string{"renames-package"}, append(seq.roles, "guarded-by-renamed-package")...)
			seq.extra = append(seq.extra, "use(pkgMarker, %s)")
		}
		return seq
	}
}

func genC09Seq(g *gen.G) *c09Seq {
	r := g.R
	s := &c09Seq{}
	stmt := r.Intn(3) == 0
	metas := []gen.MetaVar{{Name: "x", Kind: "expression"}}
	if r.Intn(2) == 0 {
		metas = append(metas, gen.MetaVar{Name: "y", Kind: []string{"expression", "identifier"}[r.Intn(2)]})
	}
	hasDots := r.Intn(3) == 0
	if r.Intn(8) == 0 {
		// nothing but an elision: t0(...) also matches the empty call t0()
		metas, hasDots = nil, true
	}
	margs := []string{}
	for _, m := range metas {
		margs = append(margs, "«"+m.Name+"»")
	}
	if hasDots {
		margs = append(margs, "‹1:args›")
	}
	curMinus := "t0(" + strings.Join(margs, ", ") + ")"
	wrap := func(call string) string { return call }
	if stmt {
		metas = append(metas, gen.MetaVar{Name: "v", Kind: "identifier"})
		wrap = func(call string) string { return "«v» := " + call }
	}
	kind := "expr"
	if stmt {
		kind = "stmts"
	}
	n := 2 + r.Intn(4)
	live := metas
	liveHasDots := hasDots
	step := 0
	for i := 0; i < n; i++ {
		role := "chain"
		if i > 0 {
			switch r.Intn(16) {
			case 0, 1:
				role = "killer"
			case 2:
				role = "independent"
			case 3, 4:
				role = "noop"
			case 5:
				role = "failing"
			case 6, 7:
				if strings.Contains(curMinus, "w(") {
					role = "sub" // rewrites the wrappers the previous change generated, each with its own binding
				}
			case 8, 9, 10:
				if strings.HasSuffix(curMinus, "(‹1:args›)") && !strings.Contains(curMinus, "«") {
					role = "empty-literal" // spells the list an elision may have left empty as a literal empty list
				}
			}
		}
		suffix := fmt.Sprint(i)
		switch role {
		case "chain", "failing":
			minusT, ms := renameMetas(wrap(curMinus), live, suffix)
			step++
			var call string
			var plusMetas []gen.MetaVar
			for _, m := range ms {
				if m.Name != "v"+suffix {
					plusMetas = append(plusMetas, m)
				}
			}
			call = plusShape(g, fmt.Sprintf("t%d", step), plusMetas, liveHasDots)
			plusT := call
			if stmt {
				plusT = "«v" + suffix + "» := " + call
			}
			c := &gen.Change{Kind: kind, Schema: "c09-" + role, Meta: ms}
			if role == "failing" {
				c.Meta = append(append([]gen.MetaVar{}, ms...), gen.MetaVar{Name: "unbound", Kind: "expression"})
				plusT = strings.Replace(plusT, "(", "(«unbound», ", 1)
			}
			c.Lines = []gen.Line{gen.L('-', minusT), gen.L('+', plusT)}
			if i == 0 {
				s.base = c
			}
			s.changes = append(s.changes, c)
			if role == "chain" {
				// next minus is this plus, with the original (unsuffixed) names
				curMinus = c09MetaRe.ReplaceAllStringFunc(call, func(m string) string {
					return strings.TrimSuffix(strings.TrimSuffix(m, suffix+"»"), "»") + "»"
				})
				var nl []gen.MetaVar
				for _, m := range live {
					if strings.Contains(curMinus, "«"+m.Name+"»") || (stmt && m.Name == "v") {
						nl = append(nl, m)
					}
				}
				live = nl
				liveHasDots = strings.Contains(curMinus, "‹1:args›")
			}
		case "sub":
			c := &gen.Change{Kind: "expr", Schema: "c09-sub", Meta: []gen.MetaVar{{Name: "s" + suffix, Kind: "expression"}},
				Lines: []gen.Line{gen.L('-', "w(«s"+suffix+"»)"), gen.L('+', "w2(«s"+suffix+"»)")}}
			s.changes = append(s.changes, c)
			curMinus = strings.ReplaceAll(curMinus, "w(", "w2(")
		case "empty-literal":
			fn := curMinus[:strings.Index(curMinus, "(")]
			c := &gen.Change{Kind: kind, Schema: "c09-empty-literal", Lines: []gen.Line{gen.L('-', wrap(fn+"()")), gen.L('+', wrap(fn+"(dflt())"))}}
			if stmt {
				c.Meta = []gen.MetaVar{{Name: "v", Kind: "identifier"}}
			}
			s.changes = append(s.changes, c)
		case "killer":
			// matches what the first change removed
			minusT, ms := renameMetas(s.base.Side('-'), s.base.Meta, "k"+suffix)
			// s.base metas already carry suffix 0: strip is unnecessary, names stay unique
			c := &gen.Change{Kind: kind, Schema: "c09-killer", Meta: ms,
				Lines: []gen.Line{gen.L('-', minusT), gen.L('+', map[bool]string{true: "killed()", false: "killed(1)"}[r.Intn(2) == 0])}}
			if stmt {
				c.Lines[1] = gen.L('+', "killed()")
			}
			s.changes = append(s.changes, c)
		case "independent":
			c := &gen.Change{Kind: "expr", Schema: "c09-independent", Meta: []gen.MetaVar{{Name: "i" + suffix, Kind: "expression"}},
				Lines: []gen.Line{gen.L('-', "u1(«i"+suffix+"»)"), gen.L('+', "u2(«i"+suffix+"», 0)")}}
			s.indep = c
			s.changes = append(s.changes, c)
		case "noop":
			c := &gen.Change{Kind: "expr", Schema: "c09-noop", Meta: []gen.MetaVar{{Name: "n" + suffix, Kind: "expression"}},
				Lines: []gen.Line{gen.L('-', "zzNope(«n"+suffix+"», 1, 2)"), gen.L('+', "zzNever(«n"+suffix+"»)")}}
			s.changes = append(s.changes, c)
		}
		s.roles = append(s.roles, role)
	}
	return s
}

// cliInPlace runs the CLI in place on dir with the given patch arguments.
func cliInPlace(ctx *core.Ctx, dir string, patchArgs []string, stdin []byte, files []string) *core.CLIResult {
	args := append(append([]string{}, patchArgs...), files...)
	return ctx.RunCLI(core.CLIOpts{Dir: dir, Args: args, Stdin: stdin})
}

func readAll(dir string, files []string) []string {
	out := make([]string, len(files))
	for i, f := range files {
		b, _ := os.ReadFile(filepath.Join(dir, f))
		out[i] = string(b)
	}
	return out
}

func writeAll(dir string, files, contents []string) {
	for i, f := range files {
		os.WriteFile(filepath.Join(dir, f), []byte(contents[i]), 0o644)
	}
}

func init() {
	core.Register(&core.Prop{
		ID:    "C09",
		Level: "exploration",
		Rule: "cases: sequences of 2-5 changes built as chains (change k+1's '-' pattern is change k's '+' pattern over fresh metavariables, so it only matches code produced by k), killers (match what an earlier change removed), " +
			"independent members, no-op members and failing members (metavariable only on the '+' side) at random positions, expression and statement patterns, with and without elision; files with 1-6 planted sites. " +
			"Metamorphic oracle, no reference model: the combined CLI run must equal the chain of single-change in-place CLI runs (canonical trees, ParenExpr elided); if a chain step fails the combined run must exit non-zero and leave the file byte-identical; " +
			"all deliveries of the same sequence (one file, n -p files, -P list, stdin, -p/-P mixture, library API) must agree byte for byte. non-trivial = a later change matches code introduced by an earlier one, or a member fails/no-ops; distinct = (role word, pattern kinds, site count).",
		Assumptions: []string{"stated bounds: no explicit parentheses in patterns or sources, metavariables only in argument slots (printing is parenthesis-neutral there), no imports in the files"},
		Cases: func(tier string) int {
			if tier == "thorough" {
				return 20000
			}
			return 1200
		},
		Floor: func(string) int { return 150 },
		Run:   runC09,
	})
}

// c09ListOrderProbe is the directed input of two known findings about how patches are gathered from the command line:
// of several -P lists only the last one is used, and the patches given with -p always run before those of a -P list,
// whatever the order on the command line.
func c09ListOrderProbe(ctx *core.Ctx, res *core.Result) {
	dir, _ := os.MkdirTemp(ctx.Tmp, "c09p")
	defer os.RemoveAll(dir)
	os.WriteFile(filepath.Join(dir, "c1.patch"), []byte("@@\n@@\n-probeFoo()\n+probeBar()\n"), 0o644)
	os.WriteFile(filepath.Join(dir, "c2.patch"), []byte("@@\n@@\n-probeBar()\n+probeBaz()\n"), 0o644)
	os.WriteFile(filepath.Join(dir, "l1.txt"), []byte("c1.patch\n"), 0o644)
	os.WriteFile(filepath.Join(dir, "l2.txt"), []byte("c2.patch\n"), 0o644)
	src := "package p\n\nfunc f() {\n\tprobeFoo()\n}\n"
	run := func(args ...string) string {
		os.WriteFile(filepath.Join(dir, "x.go"), []byte(src), 0o644)
		ctx.RunCLI(core.CLIOpts{Dir: dir, Args: append(args, "x.go")})
		b, _ := os.ReadFile(filepath.Join(dir, "x.go"))
		return string(b)
	}
	res.Evals++
	if out := run("-p", "c1.patch", "-p", "c2.patch"); !strings.Contains(out, "probeBaz()") {
		res.Violate("C09/combined-differs-from-chain/list-order-probe", "-p c1.patch -p c2.patch does not give probeBaz()", map[string]string{"actual.go": out})
		return
	}
	if out := run("-P", "l1.txt", "-P", "l2.txt"); !strings.Contains(out, "probeBaz()") {
		res.Violate("C09/only-the-last-P-list-is-used", "'-P l1.txt -P l2.txt' (c1: probeFoo->probeBar, c2: probeBar->probeBaz) leaves "+strings.TrimSpace(strings.Split(out, "\n")[3]), map[string]string{"actual.go": out})
	}
	if out := run("-P", "l1.txt", "-p", "c2.patch"); !strings.Contains(out, "probeBaz()") {
		res.Violate("C09/p-patches-run-before-P-lists", "'-P l1.txt -p c2.patch' runs c2 before the list: "+strings.TrimSpace(strings.Split(out, "\n")[3]), map[string]string{"actual.go": out})
	}
}

// c09IntermediateProbe: the file that an earlier change leaves behind cannot be printed as valid Go ('_ = g(){}'), a
// later change turns it into valid Go again. Run one after the other, the first step fails and the file stays as it
// was; the statement wants the combined run to report that failure too (known finding: the tree between two changes is
// never printed). The same changes on a file where the intermediate tree is fine must agree with the chain.
func c09IntermediateProbe(ctx *core.Ctx, res *core.Result) {
	dir, _ := os.MkdirTemp(ctx.Tmp, "c09i")
	defer os.RemoveAll(dir)
	c1 := "@@\n@@\n-interTypeA\n+interMk()\n"
	c2 := "@@\n@@\n-interMk()\n+interTypeB\n"
	os.WriteFile(filepath.Join(dir, "c1.patch"), []byte(c1), 0o644)
	os.WriteFile(filepath.Join(dir, "c2.patch"), []byte(c2), 0o644)
	os.WriteFile(filepath.Join(dir, "both.patch"), []byte(c1+"\n"+c2), 0o644)
	for _, src := range []string{"package p\n\nvar _ = interTypeA{}\n", "package p\n\nvar _ = use(interTypeA)\n"} {
		run := func(args ...string) (string, int) {
			os.WriteFile(filepath.Join(dir, "x.go"), []byte(src), 0o644)
			cr := ctx.RunCLI(core.CLIOpts{Dir: dir, Args: append(args, "x.go")})
			b, _ := os.ReadFile(filepath.Join(dir, "x.go"))
			return string(b), cr.Exit
		}
		res.Evals++
		// the chain: c1, then (if it succeeded) c2 on what it wrote
		os.WriteFile(filepath.Join(dir, "x.go"), []byte(src), 0o644)
		s1 := ctx.RunCLI(core.CLIOpts{Dir: dir, Args: []string{"-p", "c1.patch", "x.go"}})
		chainFailed := s1.Exit != 0
		if !chainFailed {
			s2 := ctx.RunCLI(core.CLIOpts{Dir: dir, Args: []string{"-p", "c2.patch", "x.go"}})
			chainFailed = s2.Exit != 0
		}
		cb, _ := os.ReadFile(filepath.Join(dir, "x.go"))
		chain := string(cb)
		out, exit := run("-p", "both.patch")
		rep := map[string]string{"both.patch": c1 + "\n" + c2, "in.go": src, "actual.go": out, "chain.go": chain}
		switch {
		case chainFailed && exit == 0:
			res.Violate("C09/failure-not-reported/unprintable-intermediate-tree", "chain: the first step fails ('_ = interMk(){}' is no Go) and the file stays as it is; combined run: exit 0, file rewritten to "+strings.TrimSpace(strings.SplitN(out, "\n\n", 2)[1]), rep)
		case !chainFailed && (exit != 0 || out != chain):
			res.Violate("C09/combined-differs-from-chain/intermediate-probe", fmt.Sprintf("exit %d", exit), rep)
		}
	}
}

func runC09(ctx *core.Ctx, idx int) *core.Result {
	res := &core.Result{}
	if idx%48 == 13 {
		c09ListOrderProbe(ctx, res)
	}
	if idx%48 == 37 {
		c09IntermediateProbe(ctx, res)
	}
	r := ctx.Rand("c09", idx)
	g := gen.NewG(r)
	g.NoParen = true
	g.Comment = r.Intn(2) == 0 // comments do not take part in the tree comparison, but the library and the CLI must agree on them byte for byte
	seq := genC09Seq(g)
	switch idx % 12 {
	case 5:
		seq = c09SpecialSeq(g, 0)
	case 11:
		seq = c09SpecialSeq(g, 1)
	case 8:
		seq = c09SpecialSeq(g, 2)
	}
	switch idx % 24 {
	case 2:
		seq = c09SpecialSeq(g, 3)
	case 14:
		seq = c09SpecialSeq(g, 4)
	case 20:
		seq = c09SpecialSeq(g, 5)
	case 17:
		seq = c09SpecialSeq(g, 6)
	case 23:
		seq = c09SpecialSeq(g, 7)
	case 4:
		seq = c09SpecialSeq(g, 8)
	case 10:
		seq = c09SpecialSeq(g, 9)
	case 16:
		seq = c09SpecialSeq(g, 10)
	case 22:
		seq = c09SpecialSeq(g, 11)
	case 19:
		seq = c09SpecialSeq(g, 12)
	case 13:
		seq = c09SpecialSeq(g, 13)
	case 7:
		seq = c09SpecialSeq(g, 14)
	case 1:
		seq = c09SpecialSeq(g, 15)
	case 11:
		seq = c09SpecialSeq(g, 16)
	}
	// files
	nf := 3
	var files, orig []string
	for f := 0; f < nf; f++ {
		var plants []gen.Plant
		ns := 1 + r.Intn(6)
		for p := 0; p < ns; p++ {
			t, _ := seq.base.Instance(g)
			if gen.PlantParses(seq.base.Kind, t) {
				plants = append(plants, gen.Plant{Kind: seq.base.Kind, Text: t})
			}
		}
		if seq.indep != nil {
			for p := 0; p < r.Intn(3); p++ {
				plants = append(plants, gen.Plant{Kind: "expr", Text: "u1(" + g.Atom() + ")"})
			}
		}
		for _, e := range seq.extra {
			for p := 0; p < 1+r.Intn(2); p++ {
				// a literal atom in front of a selector ('017.list') is no Go: take a name there
				t := fmt.Sprintf(e, g.Atom())
				for try := 0; try < 20 && !gen.PlantParses("expr", t); try++ {
					t = fmt.Sprintf(e, g.Ident())
				}
				plants = append(plants, gen.Plant{Kind: "expr", Text: t})
			}
		}
		if len(seq.decls) > 0 {
			plants = append(plants, gen.Plant{Kind: "decl", Text: seq.decls[f%len(seq.decls)]})
		}
		files = append(files, fmt.Sprintf("f%d.go", f))
		orig = append(orig, g.File(gen.FileOpts{Plants: plants, Imports: seq.imports}))
	}
	var texts []string
	for _, c := range seq.changes {
		texts = append(texts, c.PatchText())
	}
	combined := strings.Join(texts, "\n")
	dir, _ := os.MkdirTemp(ctx.Tmp, "c09")
	defer os.RemoveAll(dir)
	// the same change object named several times is the same patch file named several times
	pathOf := make([]int, len(texts))
	for i := range seq.changes {
		pathOf[i] = i
		for j := 0; j < i; j++ {
			if seq.changes[j] == seq.changes[i] {
				pathOf[i] = j
				break
			}
		}
	}
	for i, t := range texts {
		os.WriteFile(filepath.Join(dir, fmt.Sprintf("c%d.patch", pathOf[i])), []byte(t), 0o644)
	}
	os.WriteFile(filepath.Join(dir, "all.patch"), []byte(combined), 0o644)

	// chain: one in-place run per change, per file independently observable
	writeAll(dir, files, orig)
	chainFailed := make([]bool, nf)
	for i := range texts {
		before := readAll(dir, files)
		cr := cliInPlace(ctx, dir, []string{"-p", fmt.Sprintf("c%d.patch", pathOf[i])}, nil, files)
		if cc := cr.CrashClass(); cc != "" {
			res.Violate("C09/"+cc, string(cr.Stderr), map[string]string{"p.patch": combined, "in.go": orig[0]})
			return res
		}
		after := readAll(dir, files)
		for f := range files {
			if cr.Exit != 0 && strings.Contains(string(cr.Stderr), files[f]) {
				chainFailed[f] = true
				if after[f] != before[f] {
					res.Violate("C09/failing-step-changed-file", fmt.Sprintf("step %d failed for %s but the file changed", i, files[f]),
						map[string]string{"p.patch": texts[i], "in.go": before[f], "actual.go": after[f]})
				}
			}
		}
	}
	chain := readAll(dir, files)

	// deliveries of the combined sequence
	var pArgs []string
	for i := range texts {
		pArgs = append(pArgs, "-p", fmt.Sprintf("c%d.patch", pathOf[i]))
	}
	var list strings.Builder
	for i := range texts {
		fmt.Fprintf(&list, "c%d.patch\n", pathOf[i])
	}
	os.WriteFile(filepath.Join(dir, "list.txt"), []byte(list.String()), 0o644)
	half := len(texts) / 2
	var mixArgs []string
	var list2 strings.Builder
	for i := range texts {
		if i < half {
			mixArgs = append(mixArgs, "-p", fmt.Sprintf("c%d.patch", pathOf[i]))
		} else {
			fmt.Fprintf(&list2, "\nc%d.patch\n", pathOf[i])
		}
	}
	os.WriteFile(filepath.Join(dir, "list2.txt"), []byte(list2.String()), 0o644)
	mixArgs = append(mixArgs, "-P", "list2.txt")
	type delivery struct {
		name  string
		args  []string
		stdin []byte
	}
	dels := []delivery{
		{"one-file", []string{"-p", "all.patch"}, nil},
		{"n-p-files", pArgs, nil},
		{"P-list", []string{"-P", "list.txt"}, nil},
		{"stdin", nil, []byte(combined)},
		{"mixture", mixArgs, nil},
	}
	var outs [][]string
	var exits []int
	for _, d := range dels {
		writeAll(dir, files, orig)
		cr := cliInPlace(ctx, dir, d.args, d.stdin, files)
		if cc := cr.CrashClass(); cc != "" {
			res.Violate("C09/"+cc, d.name+": "+string(cr.Stderr), map[string]string{"p.patch": combined, "in.go": orig[0]})
			return res
		}
		outs = append(outs, readAll(dir, files))
		exits = append(exits, cr.Exit)
		res.Ob("cli-runs", 1)
	}
	// API delivery (whole sequence as one patch)
	apiRuns := applyAPI(combined, orig)

	roleWord := strings.Join(seq.roles, ",")
	for f := range files {
		res.Evals++
		rep := map[string]string{"p.patch": combined, "in.go": orig[f], "chain.go": chain[f], "actual.go": outs[0][f]}
		// deliveries agree byte for byte
		for d := 1; d < len(dels); d++ {
			if outs[d][f] != outs[0][f] || exits[d] != exits[0] {
				res.Violate("C09/deliveries-disagree", fmt.Sprintf("%s vs %s differ on %s (exit %d vs %d)", dels[0].name, dels[d].name, files[f], exits[0], exits[d]), rep)
			}
		}
		anyFail := false
		for _, cf := range chainFailed {
			anyFail = anyFail || cf
		}
		if chainFailed[f] {
			res.Ob("files-with-failing-step", 1)
			if exits[0] == 0 {
				res.Violate("C09/failure-not-reported", "a step of the chain fails for "+files[f]+" but the combined run exits 0", rep)
			}
			if outs[0][f] != orig[f] {
				res.Violate("C09/failed-sequence-changed-file", "a step fails for "+files[f]+" but the combined run did not leave it untouched", rep)
			}
			if apiRuns[f].Err == "" && apiRuns[f].Pan == "" {
				res.Violate("C09/failure-not-reported", "a step of the chain fails but the library API returned no error", rep)
			}
			res.Sig(roleWord, seq.base.Kind, "fail")
			continue
		}
		if !anyFail && exits[0] != 0 {
			res.Violate("C09/combined-fails-chain-succeeds", fmt.Sprintf("combined run exits %d although every chain step succeeded", exits[0]), rep)
			continue
		}
		a, _, _, e1 := ref.ParseFile([]byte(outs[0][f]), true)
		b, _, _, e2 := ref.ParseFile([]byte(chain[f]), true)
		if e1 != nil || e2 != nil {
			res.Violate("C09/unparseable", fmt.Sprint(e1, e2), rep)
			continue
		}
		if !ref.Equal(a.Tree, b.Tree) || !sameImports(a.Imports, b.Imports) {
			res.Violate("C09/combined-differs-from-chain", fmt.Sprintf("roles %s: %s", roleWord, ref.FirstDiff(a.Tree, b.Tree, "")), rep)
			continue
		}
		if apiRuns[f].Pan != "" || apiRuns[f].Err != "" {
			res.Violate("C09/api-fails", apiRuns[f].Err+apiRuns[f].Pan, rep)
		} else if apiRuns[f].Out != outs[0][f] {
			res.Violate("C09/api-differs-from-cli", "library API bytes differ from the combined CLI run", map[string]string{"p.patch": combined, "in.go": orig[f], "api.go": apiRuns[f].Out, "actual.go": outs[0][f]})
		}
		changedByLater := chain[f] != orig[f]
		if changedByLater {
			res.Ob("files-rewritten", 1)
			res.Sig(roleWord, seq.base.Kind, strings.Count(orig[f], "t0("))
		}
		if f == 0 {
			res.Sample(map[string]any{"patch": combined, "roles": roleWord, "input": core.Trunc(orig[f], 800), "output": core.Trunc(outs[0][f], 800)})
		}
	}
	return res
}
