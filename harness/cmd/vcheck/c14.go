package main

import (
	"crypto/sha256"
	"fmt"
	"go/token"
	"os"
	"path/filepath"
	"reflect"
	"runtime"
	"sort"
	"strings"
	"sync"
	"time"

	"verif/harness/core"
	"verif/harness/gen"
)

var fsetType = reflect.TypeOf((*token.FileSet)(nil))

// fingerprint hashes everything reachable from x (the *token.FileSet excluded: it
// legitimately grows with every parsed file).
type fingerprinter struct {
	h     interface{ Write([]byte) (int, error) }
	seen  map[uintptr]int
	nodes int
}

func (f *fingerprinter) w(s string) { f.h.Write([]byte(s)); f.h.Write([]byte{0}) }

func (f *fingerprinter) walk(v reflect.Value) {
	f.nodes++
	if !v.IsValid() {
		f.w("invalid")
		return
	}
	t := v.Type()
	if t == fsetType {
		f.w("fset")
		return
	}
	switch v.Kind() {
	case reflect.Ptr:
		if v.IsNil() {
			f.w("nilptr")
			return
		}
		p := v.Pointer()
		if id, ok := f.seen[p]; ok {
			f.w(fmt.Sprintf("ref%d", id))
			return
		}
		f.seen[p] = len(f.seen)
		f.w("ptr:" + t.String())
		f.walk(v.Elem())
	case reflect.Interface:
		if v.IsNil() {
			f.w("niliface")
			return
		}
		f.w("iface")
		f.walk(v.Elem())
	case reflect.Struct:
		f.w("struct:" + t.String())
		for i := 0; i < v.NumField(); i++ {
			f.walk(v.Field(i))
		}
	case reflect.Slice:
		if v.IsNil() {
			f.w("nilslice")
			return
		}
		f.w(fmt.Sprintf("slice%d", v.Len()))
		for i := 0; i < v.Len(); i++ {
			f.walk(v.Index(i))
		}
	case reflect.Array:
		for i := 0; i < v.Len(); i++ {
			f.walk(v.Index(i))
		}
	case reflect.Map:
		f.w(fmt.Sprintf("map%d", v.Len()))
		type kv struct{ k, v string }
		var kvs []kv
		it := v.MapRange()
		for it.Next() {
			sk := &fingerprinter{h: sha256.New(), seen: f.seen}
			sk.walk(it.Key())
			sv := &fingerprinter{h: sha256.New(), seen: f.seen}
			sv.walk(it.Value())
			f.nodes += sk.nodes + sv.nodes
			kvs = append(kvs, kv{fmt.Sprintf("%x", sk.h.(interface{ Sum([]byte) []byte }).Sum(nil)), fmt.Sprintf("%x", sv.h.(interface{ Sum([]byte) []byte }).Sum(nil))})
		}
		sort.Slice(kvs, func(i, j int) bool { return kvs[i].k < kvs[j].k })
		for _, e := range kvs {
			f.w(e.k)
			f.w(e.v)
		}
	case reflect.Func:
		f.w(fmt.Sprintf("func%x", v.Pointer()))
	case reflect.String:
		f.w("s:" + v.String())
	case reflect.Bool:
		f.w(fmt.Sprint(v.Bool()))
	case reflect.Int, reflect.Int8, reflect.Int16, reflect.Int32, reflect.Int64:
		f.w(fmt.Sprint(v.Int()))
	case reflect.Uint, reflect.Uint8, reflect.Uint16, reflect.Uint32, reflect.Uint64, reflect.Uintptr:
		f.w(fmt.Sprint(v.Uint()))
	case reflect.Float32, reflect.Float64:
		f.w(fmt.Sprint(v.Float()))
	default:
		f.w("other:" + v.Kind().String())
	}
}

func fingerprintOf(x any) (string, int) {
	h := sha256.New()
	f := &fingerprinter{h: h, seen: map[uintptr]int{}}
	f.walk(reflect.ValueOf(x))
	return fmt.Sprintf("%x", h.Sum(nil))[:24], f.nodes
}

var c14Patches = []string{
	"@@\nvar x expression\n@@\n-bump(x)\n+bump(x + 1)\n",
	"@@\nvar x, y expression\n@@\n-target(x, ..., y)\n+repl(y, ..., x)\n",
	"@@\nvar e identifier\nvar x expression\n@@\n-e = x\n-if e != nil {\n+if e := x; e != nil {\n   return ..., e\n }\n",
	"@@\nvar x expression\n@@\n for ... {\n   ...\n-  bump(x)\n+  bump(x, x)\n   ...\n }\n",
	"@@\nvar foo, x identifier\n@@\n-import foo \"example.com/old/foo\"\n+import foo \"example.com/new/foo\"\n\n foo.x\n",
	"@@\nvar f identifier\n@@\n-func f() int {\n+func f() (int, error) {\n   ...\n }\n",
	"@@\nvar x expression\n@@\n-pair(x, x)\n+single(x)\n\n@@\nvar y expression\n@@\n-single(y)\n+one(y)\n",
	"@@\nvar N identifier\n@@\n type N struct {\n   ...\n-  TgtField string\n+  NewField string\n   ...\n }\n",
	"@@\nvar t identifier\nvar T expression\n@@\n func (t *T) String() string {\n+  if t == nil {\n+    return \"<nil>\"\n+  }\n   ...\n }\n",
	// a change that cannot be carried out for some files (the captured expression has to stand where only a name can) and
	// replaces code that spans several commented lines in others: what the failing file leaves behind must not reach the next
	"@@\nvar x expression\n@@\n-getField(x)\n+cfg.x\n",
}

func c14Files(g *gen.G, pi int) []string {
	r := g.R
	var out []string
	for f := 0; f < 6; f++ {
		var plants []gen.Plant
		n := r.Intn(4)
		for i := 0; i < n; i++ {
			switch pi {
			case 0:
				plants = append(plants, gen.Plant{Kind: "expr", Text: "bump(" + g.Atom() + ")"})
			case 1:
				plants = append(plants, gen.Plant{Kind: "expr", Text: "target(" + g.Atom() + ", " + g.Run("args", r.Intn(3)+1) + ", " + g.Atom() + ")"})
			case 2:
				plants = append(plants, gen.Plant{Kind: "stmts", Text: "err = " + g.Atom() + "\nif err != nil {\n\treturn 0, err\n}"})
			case 3:
				plants = append(plants, gen.Plant{Kind: "stmts", Text: "for i := range xs {\n\tpre()\n\tbump(i)\n\tpost()\n}"})
			case 4:
				plants = append(plants, gen.Plant{Kind: "expr", Text: "foo.Client"})
			case 5:
				plants = append(plants, gen.Plant{Kind: "decl", Text: fmt.Sprintf("func gen%d_%d() int {\n\treturn %d\n}", f, i, i)})
			case 6:
				a := g.Atom()
				plants = append(plants, gen.Plant{Kind: "expr", Text: "pair(" + a + ", " + a + ")"})
			case 7:
				plants = append(plants, gen.Plant{Kind: "decl", Text: fmt.Sprintf("type St%d_%d struct {\n\tA int\n\tTgtField string\n\tB bool\n}", f, i)})
			case 8:
				plants = append(plants, gen.Plant{Kind: "decl", Text: fmt.Sprintf("func (r *Rc%d_%d) String() string {\n\treturn r.s\n}", f, i)})
			case 9:
				if f%2 == 0 {
					plants = append(plants, gen.Plant{Kind: "stmts", Text: "_ = getField(opts.name)"}) // cannot be updated
				} else {
					plants = append(plants, gen.Plant{Kind: "stmts", Text: fmt.Sprintf("_ = getField( // the old getter\n\tname%d, // which one\n)\nafter()", i)})
				}
			}
		}
		imports := ""
		if pi == 4 && n > 0 {
			imports = "import (\n\t\"fmt\"\n\t\"example.com/old/foo\"\n)\n\nvar _ = fmt.Sprint\n"
		}
		out = append(out, g.File(gen.FileOpts{Plants: plants, Imports: imports, Decls: 2 + r.Intn(5)}))
	}
	if pi == 0 {
		// a file with CRLF line ends directly in front of a file that has no line end at all: what is found out about
		// one file (its line ends, its first line) says nothing about the next
		out = append(out, strings.ReplaceAll(out[0], "\n", "\r\n"), "package p; func oneLine() { bump(7) }")
	}
	out = append(out, "package p\n\nfunc broken( {\n")                                               // unparseable
	out = append(out, "// Code generated by x. DO NOT EDIT.\n\npackage p\n\nfunc g() { bump(1) }\n") // generated
	return out
}

func init() {
	core.Register(&core.Prop{
		ID:    "C14",
		Level: "exploration",
		Rule: "cases: 9 patches exercising every matcher/replacer kind (elision, 'for ...', statement lists, repeated metavariables, imports with cleanup, declaration patterns, multi-change), and for every 4th case a random / schema / abstracted-from-code patch, x 8 files (with sites, without, unparseable, generated). " +
			"Library: one parsed patch shared by G in {2,8,24} goroutines released by a start barrier, 4-13 Apply calls each over a shuffled mix of the files, GOMAXPROCS in {1,4,16}; then the same calls in 3 sequential permutations. " +
			"CLI (-race build): the file set processed solo, grouped, in 4 argument orders, with duplicated arguments and via the directory. Monitors: (1) Go race detector in harness and CLI (GORACE log files, reports counted and attributed); " +
			"(2) every result equals the solo result F(file) computed with a freshly parsed patch in this process (stateless sequential model: a history is linearizable iff every operation returned F(input)); " +
			"(3) reflect fingerprint of the *patch.File (all reachable fields, maps sorted, token.FileSet excluded) before and after every batch. non-trivial = >=2 Apply calls on the same patch.File overlapped in time (measured) or >=2 groupings compared; distinct = (patch, G, GOMAXPROCS, grouping shape).",
		Assumptions: []string{"wall-clock stamps are used only to measure how many calls overlapped, never for a verdict", "race reports inside the Go runtime or this harness' own monitor code would also fail the run (none are expected)"},
		Cases: func(tier string) int {
			if tier == "thorough" {
				return 3000
			}
			return 64
		},
		Floor:     func(string) int { return 60 },
		Run:       runC14,
		Race:      true,
		Workers:   12,
		CPUBudget: 600,
	})
}

func raceReports() (int, string) {
	lp := os.Getenv("VERIF_RACE_LOG")
	if lp == "" {
		return 0, ""
	}
	ms, _ := filepath.Glob(lp + "*")
	n := 0
	var first string
	for _, m := range ms {
		b, err := os.ReadFile(m)
		if err != nil {
			continue
		}
		c := strings.Count(string(b), "WARNING: DATA RACE")
		if c > 0 && first == "" {
			first = core.Trunc(string(b), 4000)
		}
		n += c
	}
	return n, first
}

func runC14(ctx *core.Ctx, idx int) *core.Result {
	res := &core.Result{}
	r := ctx.Rand("c14", idx)
	g := gen.NewG(r)
	pi := idx % len(c14Patches)
	pt := c14Patches[pi]
	files := c14Files(g, pi)
	if idx%4 == 3 {
		// a random / schema / abstracted-from-code patch: whatever matcher and replacer kinds it compiles to are
		// shared by the goroutines (the oracle is the solo run, no reference model needed)
		c := g.RandomChangeWide()
		pt, pi = c.PatchText(), len(c14Patches)+idx
		files = files[len(files)-2:] // keep the unparseable and the generated file
		for f := 0; f < 6; f++ {
			plants, _ := g.InstancePlants(c, r.Intn(4), r.Intn(2))
			files = append([]string{g.File(gen.FileOpts{Plants: plants, Decls: 2 + r.Intn(5)})}, files...)
		}
		res.Ob("random-patch-cases", 1)
	}
	racesBefore, _ := raceReports()

	// solo model F(file): fresh patch per file
	type outcome struct {
		out string
		err bool
	}
	solo := make([]outcome, len(files))
	for i, f := range files {
		ar := core.ApplyAPI(pt, f)
		if ar.Panic != "" {
			res.Violate("C14/engine-panic:"+core.PanicSignature(ar.Panic), ar.Panic, map[string]string{"p.patch": pt, "in.go": f})
			return res
		}
		solo[i] = outcome{string(ar.Out), !ar.OK()}
	}
	pf, err, pan := core.ParsePatch("shared.patch", []byte(pt))
	if err != nil || pan != "" {
		res.Violate("C14/patch-rejected", fmt.Sprint(err, pan), map[string]string{"p.patch": pt})
		return res
	}
	fp0, nodes := fingerprintOf(pf)
	res.Ob("fingerprint-nodes", nodes)

	G := []int{2, 8, 24}[r.Intn(3)]
	procs := []int{1, 4, 16}[r.Intn(3)]
	old := runtime.GOMAXPROCS(procs)
	perG := 4 + r.Intn(10)
	type call struct {
		g, file    int
		start, end int64
		out        string
		err        bool
		pan        string
	}
	calls := make([][]call, G)
	var wg sync.WaitGroup
	barrier := make(chan struct{})
	t0 := time.Now()
	for gi := 0; gi < G; gi++ {
		order := make([]int, perG)
		for k := range order {
			order[k] = r.Intn(len(files))
		}
		calls[gi] = make([]call, perG)
		wg.Add(1)
		go func(gi int, order []int) {
			defer wg.Done()
			<-barrier
			for k, fi := range order {
				c := &calls[gi][k]
				c.g, c.file = gi, fi
				c.start = int64(time.Since(t0))
				out, err, pan := core.ApplyParsed(pf, fmt.Sprintf("g%d_%d.go", gi, k), []byte(files[fi]))
				c.end = int64(time.Since(t0))
				c.out, c.err, c.pan = string(out), err != nil, pan
			}
		}(gi, order)
	}
	close(barrier)
	wg.Wait()
	runtime.GOMAXPROCS(old)
	// overlap measurement
	var all []call
	for _, cs := range calls {
		all = append(all, cs...)
	}
	sort.Slice(all, func(i, j int) bool { return all[i].start < all[j].start })
	overlaps := 0
	for i := range all {
		for j := i + 1; j < len(all) && all[j].start < all[i].end; j++ {
			if all[j].g != all[i].g {
				overlaps++
			}
		}
	}
	res.Ob("concurrent-apply-calls", len(all))
	res.Ob("overlapping-call-pairs", overlaps)
	res.Evals += len(all)
	rep := func(c call) map[string]string {
		return map[string]string{"p.patch": pt, "in.go": files[c.file], "solo.go": solo[c.file].out, "actual.go": c.out}
	}
	for _, c := range all {
		if c.pan != "" {
			res.Violate("C14/engine-panic-under-concurrency:"+core.PanicSignature(c.pan), c.pan, rep(c))
			return res
		}
		if c.err != solo[c.file].err || (!c.err && c.out != solo[c.file].out) {
			res.Violate("C14/concurrent-result-differs-from-solo", fmt.Sprintf("G=%d GOMAXPROCS=%d: goroutine %d, file %d", G, procs, c.g, c.file), rep(c))
			return res
		}
	}
	if fp1, _ := fingerprintOf(pf); fp1 != fp0 {
		res.Violate("C14/parsed-patch-mutated", fmt.Sprintf("fingerprint of *patch.File changed after %d concurrent Apply calls: %s -> %s", len(all), fp0, fp1), map[string]string{"p.patch": pt})
		return res
	}
	// sequential histories on the same parsed patch
	for perm := 0; perm < 3; perm++ {
		order := r.Perm(len(files))
		for _, fi := range order {
			out, err, pan := core.ApplyParsed(pf, fmt.Sprintf("s%d_%d.go", perm, fi), []byte(files[fi]))
			res.Evals++
			if pan != "" || (err != nil) != solo[fi].err || (err == nil && string(out) != solo[fi].out) {
				res.Violate("C14/sequential-result-depends-on-history", fmt.Sprintf("permutation %v, file %d", order, fi),
					map[string]string{"p.patch": pt, "in.go": files[fi], "solo.go": solo[fi].out, "actual.go": string(out)})
				return res
			}
		}
		if fp1, _ := fingerprintOf(pf); fp1 != fp0 {
			res.Violate("C14/parsed-patch-mutated", "fingerprint changed after a sequential batch", map[string]string{"p.patch": pt})
			return res
		}
	}
	if overlaps > 0 {
		res.Sig(pi, G, procs, "api")
	}
	// CLI groupings
	if idx%3 == 0 {
		c14CLI(ctx, res, r.Intn, pt, files, pi)
	}
	if idx%6 == 1 {
		c14CLIGuarded(ctx, res, g)
	}
	if idx%16 == 5 {
		c14ManyFiles(ctx, res, g, idx)
	}
	if idx%2 == 0 {
		c14Repeat(ctx, res, g, idx)
	}
	if n, first := raceReports(); n > racesBefore {
		res.Violate("C14/data-race", fmt.Sprintf("%d new race detector report(s)\n%s", n-racesBefore, first), map[string]string{"p.patch": pt})
	}
	res.Ob("race-detector-reports", 0)
	res.Sample(map[string]any{"patch": pt, "goroutines": G, "gomaxprocs": procs, "calls": len(all), "overlapping_pairs": overlaps})
	return res
}

// c14Repeat: "the same on every run". Inputs with ties - a path imported under several names and named by a metavariable
// that the code of the patch does not pin down, several equally good candidates for a match - are applied many times,
// from one parsed patch and from fresh ones, in process and through the CLI: all results are the same bytes. A choice
// that follows map iteration order or an address shows as two different outputs among a few dozen runs.
func c14Repeat(ctx *core.Ctx, res *core.Result, g *gen.G, idx int) {
	r := g.R
	m := 2 + r.Intn(3)
	var src strings.Builder
	src.WriteString("package p\n\nimport (\n")
	perm := r.Perm(m)
	for _, j := range perm {
		fmt.Fprintf(&src, "\tnm%c \"example.com/tie/old\"\n", 'a'+j)
	}
	src.WriteString("\t\"os\"\n)\n\nfunc f() {\n\tbar(os.Args)\n")
	for _, j := range perm {
		fmt.Fprintf(&src, "\tnm%c.Do(%d)\n", 'a'+j, j)
	}
	src.WriteString("}\n")
	var pt string
	switch idx / 2 % 4 {
	case 0: // the code does not mention the metavariable: any of the names will do, but the same one every time
		pt = "@@\nvar foo identifier\n@@\n-import foo \"example.com/tie/old\"\n+import foo \"example.com/tie/new\"\n\n bar\n"
	case 1: // the code mentions it: every name matches somewhere
		pt = "@@\nvar foo identifier\nvar x expression\n@@\n-import foo \"example.com/tie/old\"\n+import foo \"example.com/tie/new\"\n\n-foo.Do(x)\n+foo.Done(x)\n"
	case 2: // two metavariables for the same path
		pt = "@@\nvar foo, baz identifier\n@@\n import foo \"example.com/tie/old\"\n-import baz \"example.com/tie/old\"\n\n-bar\n+barred\n"
	default: // a guard only
		pt = "@@\nvar foo identifier\nvar x expression\n@@\n import foo \"example.com/tie/old\"\n\n-bar(x)\n+bar(x, foo.Default)\n"
	}
	in := src.String()
	rep := map[string]string{"p.patch": pt, "in.go": in}
	seen := map[string]int{}
	first := ""
	note := func(out, errs, pan string) bool {
		if pan != "" {
			res.Violate("C14/engine-panic:"+core.PanicSignature(pan), pan, rep)
			return false
		}
		k := out + "\x00" + errs
		if len(seen) == 0 {
			first = k
		}
		seen[k]++
		return true
	}
	pf, perr, pan := core.ParsePatch("tie.patch", []byte(pt))
	if perr != nil || pan != "" {
		res.Violate("C14/patch-rejected", fmt.Sprint(perr, pan), rep)
		return
	}
	for i := 0; i < 40; i++ {
		out, err, pan := core.ApplyParsed(pf, "t.go", []byte(in))
		if !note(string(out), fmt.Sprint(err), pan) {
			return
		}
		res.Evals++
	}
	for i := 0; i < 20; i++ {
		ar := core.ApplyAPI(pt, in)
		if !note(string(ar.Out), fmt.Sprint(ar.ApplyErr), ar.Panic) {
			return
		}
		res.Evals++
	}
	dir, _ := os.MkdirTemp(ctx.Tmp, "c14tie")
	defer os.RemoveAll(dir)
	os.WriteFile(filepath.Join(dir, "tie.patch"), []byte(pt), 0o644)
	os.WriteFile(filepath.Join(dir, "t.go"), []byte(in), 0o644)
	cliSeen := map[string]int{}
	for i := 0; i < 12; i++ {
		cr := ctx.RunCLI(core.CLIOpts{Dir: dir, Args: []string{"-p", "tie.patch", "--print-only", "t.go"}})
		cliSeen[string(cr.Stdout)+"\x00"+fmt.Sprint(cr.Exit)]++
		res.Evals++
	}
	res.Ob("repeat-runs", 72)
	res.Sig("repeat", idx/2%4, m, fmt.Sprint(perm))
	if len(seen) > 1 || len(cliSeen) > 1 {
		i := 0
		for k := range seen {
			if k != first {
				rep[fmt.Sprintf("other-output-%d.go", i)] = strings.SplitN(k, "\x00", 2)[0]
				i++
			}
		}
		rep["first-output.go"] = strings.SplitN(first, "\x00", 2)[0]
		res.Violate("C14/result-differs-from-run-to-run", fmt.Sprintf("the same patch and the same file: %d different results among 60 library calls, %d among 12 CLI runs", len(seen), len(cliSeen)), rep)
	}
}

func c14CLI(ctx *core.Ctx, res *core.Result, intn func(int) int, pt string, files []string, pi int) {
	bin := ctx.BinRace
	if _, err := os.Stat(bin); err != nil {
		bin = ctx.Bin
	}
	base, _ := os.MkdirTemp(ctx.Tmp, "c14")
	defer os.RemoveAll(base)
	os.WriteFile(filepath.Join(base, "p.patch"), []byte(pt), 0o644)
	// a second patch whose rewrite is unparseable on one extra file (reformat error for it)
	os.WriteFile(filepath.Join(base, "bad.patch"), []byte("@@\n@@\n-badType\n+1 + 2\n"), 0o644)
	files = append(append([]string{}, files...), "package p\n\nvar vbad badType\n\nfunc h() { bump(2) }\n")
	// a third patch whose '+' side can be built for some captures only: the file on which it fails sorts first,
	// the others have sites for which it works (their results must not depend on the failure before them)
	os.WriteFile(filepath.Join(base, "some.patch"), []byte("@@\nvar f expression\n@@\n-tgtInvoke(f)\n+hooks.f()\n"), 0o644)
	for i := range files {
		if strings.HasPrefix(files[i], "package p\n") && !strings.Contains(files[i], "broken(") && i%2 == 0 {
			files[i] += fmt.Sprintf("\nfunc inv%d() { tgtInvoke(start%d) }\n", i, i)
		}
	}
	files = append([]string{"package p\n\nfunc first() { tgtInvoke(lifecycle.Start) }\n"}, files...)
	names := make([]string, len(files))
	for i := range files {
		names[i] = fmt.Sprintf("f%d.go", i)
	}
	names[len(files)-1] = "f3_rejected_rewrite.go" // sorts into the middle of the run
	names[0] = "a0_replacement_cannot_be_built.go" // sorts first
	raceLog := filepath.Join(base, "clirace")
	run := func(sub string, args []string, which []int) (map[int]string, *core.CLIResult) {
		d := filepath.Join(base, sub)
		os.MkdirAll(d, 0o755)
		for _, i := range which {
			os.WriteFile(filepath.Join(d, names[i]), []byte(files[i]), 0o644)
		}
		args = append([]string{}, args...)
		for i, a := range args {
			args[i] = strings.ReplaceAll(a, "@ABS@", d) // absolute spelling of a path in this run's directory
		}
		cr := ctx.RunCLI(core.CLIOpts{Dir: d, Bin: bin, Args: append([]string{"-p", "../p.patch", "-p", "../bad.patch", "-p", "../some.patch", "--skip-generated"}, args...),
			Env: []string{"GORACE=halt_on_error=0 log_path=" + raceLog}})
		res.Ob("cli-runs", 1)
		out := map[int]string{}
		for _, i := range which {
			b, _ := os.ReadFile(filepath.Join(d, names[i]))
			out[i] = string(b)
		}
		return out, cr
	}
	allIdx := make([]int, len(files))
	for i := range allIdx {
		allIdx[i] = i
	}
	solo := map[int]string{}
	for _, i := range allIdx {
		o, cr := run(fmt.Sprintf("solo%d", i), []string{names[i]}, []int{i})
		if cc := cr.CrashClass(); cc != "" {
			res.Violate("C14/"+cc, string(cr.Stderr), map[string]string{"p.patch": pt, "in.go": files[i]})
			return
		}
		solo[i] = o[i]
	}
	type grouping struct {
		name   string
		args   []string
		covers []int // files the arguments name (nil = all of them); the others must stay untouched
	}
	var groups []grouping
	groups = append(groups, grouping{"all-sorted", append([]string{}, names...), nil})
	for k := 0; k < 4; k++ {
		perm := append([]string{}, names...)
		for i := len(perm) - 1; i > 0; i-- {
			j := intn(i + 1)
			perm[i], perm[j] = perm[j], perm[i]
		}
		groups = append(groups, grouping{fmt.Sprintf("shuffled-%d", k), perm, nil})
	}
	groups = append(groups, grouping{"duplicates", append(append([]string{}, names...), names[0], names[len(names)/2], "./"+names[1]), nil})
	// the same files under several spellings (relative, ./relative, absolute, via the directory): processed once each
	groups = append(groups, grouping{"relative-and-absolute", []string{names[0], "@ABS@/" + names[0], "@ABS@/" + names[1], "./" + names[1], names[2]}, []int{0, 1, 2}})
	groups = append(groups, grouping{"directory-and-absolute", []string{".", "@ABS@/" + names[2], "@ABS@"}, nil})
	groups = append(groups, grouping{"directory", []string{"."}, nil})
	groups = append(groups, grouping{"directory-and-files", []string{"./...", names[2], names[0]}, nil})
	for gi, gr := range groups {
		o, cr := run(fmt.Sprintf("group%d", gi), gr.args, allIdx)
		res.Evals++
		if cc := cr.CrashClass(); cc != "" {
			res.Violate("C14/"+cc, string(cr.Stderr), map[string]string{"p.patch": pt})
			return
		}
		for _, i := range allIdx {
			if gr.covers != nil {
				named := false
				for _, c := range gr.covers {
					named = named || c == i
				}
				if !named {
					if o[i] != files[i] {
						res.Violate("C14/unnamed-file-changed", fmt.Sprintf("grouping %s (%v): %s is not among the arguments but changed", gr.name, gr.args, names[i]),
							map[string]string{"p.patch": pt, "in.go": files[i], "actual.go": o[i]})
						return
					}
					continue
				}
			}
			if o[i] != solo[i] {
				res.Violate("C14/grouped-result-differs-from-solo", fmt.Sprintf("grouping %s (%v): %s differs from its solo run", gr.name, gr.args, names[i]),
					map[string]string{"p.patch": pt, "in.go": files[i], "solo.go": solo[i], "actual.go": o[i]})
				return
			}
		}
		res.Sig(pi, gr.name, "cli")
	}
	// the same invocation again and again, each in a fresh process: bytes, diagnostics and exit status are a
	// function of the inputs (map iteration order, error collection order, ... must not show)
	var firstOut map[int]string
	var firstErr string
	var firstExit int
	for k := 0; k < 3; k++ {
		sub := fmt.Sprintf("again%d", k)
		o, cr := run(sub, groups[0].args, allIdx)
		stderr := strings.ReplaceAll(string(cr.Stderr), filepath.Join(base, sub), "<dir>")
		if k == 0 {
			firstOut, firstErr, firstExit = o, stderr, cr.Exit
			continue
		}
		for _, i := range allIdx {
			if o[i] != firstOut[i] {
				res.Violate("C14/repeated-run-differs", fmt.Sprintf("run %d of the same invocation gives other bytes for %s", k, names[i]),
					map[string]string{"p.patch": pt, "in.go": files[i], "first.go": firstOut[i], "actual.go": o[i]})
				return
			}
		}
		if stderr != firstErr || cr.Exit != firstExit {
			res.Violate("C14/repeated-run-differs", fmt.Sprintf("run %d of the same invocation reports differently (exit %d vs %d)", k, cr.Exit, firstExit),
				map[string]string{"p.patch": pt, "stderr-first.txt": firstErr, "stderr-again.txt": stderr})
			return
		}
	}
	res.Ob("repeated-invocations-compared", 2)
	ms, _ := filepath.Glob(raceLog + "*")
	for _, m := range ms {
		b, _ := os.ReadFile(m)
		if strings.Contains(string(b), "WARNING: DATA RACE") {
			res.Violate("C14/data-race-in-cli", core.Trunc(string(b), 4000), map[string]string{"p.patch": pt})
			return
		}
	}
}

// c14CLIGuarded: every change of every patch carries a package clause, and the files of one directory belong to
// several packages (pk, its external tests pk_test, a main program behind a build tag). What happens to a file must
// not depend on which siblings are processed with it, in whatever order.
func c14CLIGuarded(ctx *core.Ctx, res *core.Result, g *gen.G) {
	r := g.R
	base, _ := os.MkdirTemp(ctx.Tmp, "c14g")
	defer os.RemoveAll(base)
	pt := "@@\nvar x expression\n@@\n package pk\n\n-bump(x)\n+bump(x + 1)\n\n@@\n@@\n-package pk\n+package pk\n\n-oldName\n+newName\n"
	if r.Intn(2) == 0 {
		pt = "@@\nvar x expression\n@@\n package pk\n\n-bump(x)\n+bump(x + 1)\n"
	}
	os.WriteFile(filepath.Join(base, "p.patch"), []byte(pt), 0o644)
	pkgs := []string{"pk_test", "pk", "main", "pk", "documentation", "pk", "pk_test", "pk"}
	var names, files []string
	for i, pk := range pkgs {
		src := g.File(gen.FileOpts{Plants: []gen.Plant{{Kind: "expr", Text: "bump(" + g.Atom() + ")"}, {Kind: "expr", Text: "use(oldName)"}}, Decls: 1 + r.Intn(3)})
		src = strings.Replace(src, "package p\n", "package "+pk+"\n", 1)
		if pk == "main" {
			src = "//go:build ignore\n\n" + src
		}
		dir := []string{"", "", "", "", "sub/", "sub/", "sub/", "other/"}[i]
		names = append(names, fmt.Sprintf("%s%c_%s.go", dir, 'a'+i, pk))
		files = append(files, src)
	}
	run := func(sub string, args []string) (map[int]string, *core.CLIResult) {
		d := filepath.Join(base, sub)
		for i := range files {
			os.MkdirAll(filepath.Dir(filepath.Join(d, names[i])), 0o755)
			os.WriteFile(filepath.Join(d, names[i]), []byte(files[i]), 0o644)
		}
		cr := ctx.RunCLI(core.CLIOpts{Dir: d, Args: append([]string{"-p", "../p.patch"}, args...)})
		res.Ob("cli-runs", 1)
		out := map[int]string{}
		for i := range files {
			b, _ := os.ReadFile(filepath.Join(d, names[i]))
			out[i] = string(b)
		}
		return out, cr
	}
	solo := map[int]string{}
	for i := range files {
		o, cr := run(fmt.Sprintf("solo%d", i), []string{names[i]})
		if cc := cr.CrashClass(); cc != "" {
			res.Violate("C14/"+cc, string(cr.Stderr), map[string]string{"p.patch": pt, "in.go": files[i]})
			return
		}
		solo[i] = o[i]
		if (solo[i] != files[i]) != (pkgs[i] == "pk") {
			res.Violate("C14/package-guard-in-solo-run", fmt.Sprintf("%s (package %s): changed=%v", names[i], pkgs[i], solo[i] != files[i]), map[string]string{"p.patch": pt, "in.go": files[i], "actual.go": solo[i]})
			return
		}
	}
	groups := [][]string{{"."}, {"./..."}, append([]string{}, names...), {names[0], names[1]}, {names[1], names[0]}, {"sub", names[3], names[2]}, {"other", "sub", "."}, {"--skip-generated", "."}, {"-v", "."}}
	perm := append([]string{}, names...)
	r.Shuffle(len(perm), func(i, j int) { perm[i], perm[j] = perm[j], perm[i] })
	groups = append(groups, perm)
	for gi, args := range groups {
		o, cr := run(fmt.Sprintf("group%d", gi), args)
		res.Evals++
		if cc := cr.CrashClass(); cc != "" {
			res.Violate("C14/"+cc, string(cr.Stderr), map[string]string{"p.patch": pt})
			return
		}
		for i := range files {
			covered := false
			for _, a := range args {
				d := strings.TrimSuffix(strings.TrimSuffix(a, "..."), "/")
				if a == names[i] || d == "." || d == "" || (d != "" && strings.HasPrefix(names[i], d+"/")) {
					covered = true
				}
			}
			want := files[i]
			if covered {
				want = solo[i]
			}
			if o[i] != want {
				res.Violate("C14/grouped-result-differs-from-solo", fmt.Sprintf("package-guarded patch, arguments %v: %s (package %s) differs from its solo run", args, names[i], pkgs[i]),
					map[string]string{"p.patch": pt, "in.go": files[i], "solo.go": solo[i], "actual.go": o[i]})
				return
			}
		}
		res.Sig("guarded", gi, "cli")
	}
}

// c14ManyFiles: one invocation over many more files than the process may hold descriptors (RLIMIT_NOFILE 40): what
// happens to a file must not depend on how many files were processed before it. Every file is compared with its
// solo run without the limit.
func c14ManyFiles(ctx *core.Ctx, res *core.Result, g *gen.G, idx int) {
	r := g.R
	base, _ := os.MkdirTemp(ctx.Tmp, "c14m")
	defer os.RemoveAll(base)
	pt := "# bumping\n@@\nvar x expression\n@@\n-bump(x)\n+bump(x + 1)\n"
	os.WriteFile(filepath.Join(base, "p.patch"), []byte(pt), 0o644)
	n := 100 + r.Intn(60)
	var names, files []string
	for i := 0; i < n; i++ {
		var src string
		switch r.Intn(8) {
		case 0:
			src = fmt.Sprintf("package p\n\nfunc broken%d( {\n", i)
		case 1:
			src = fmt.Sprintf("// Code generated by tool. DO NOT EDIT.\n\npackage p\n\nvar g%d = bump(%d)\n", i, i)
		case 2:
			src = fmt.Sprintf("package p\n\nvar n%d = other(%d)\n", i, i)
		default:
			src = fmt.Sprintf("package p\n\nfunc f%d() int {\n\treturn bump(%d) + bump(v%d)\n}\n", i, i, i)
		}
		names = append(names, fmt.Sprintf("d%d/f%03d.go", i%4, i))
		files = append(files, src)
	}
	mode := []string{"inplace", "--diff", "--print-only"}[(idx/16)%3]
	run := func(sub string, idxs []int, args []string, env []string) (map[int]string, *core.CLIResult) {
		d := filepath.Join(base, sub)
		for _, i := range idxs {
			os.MkdirAll(filepath.Dir(filepath.Join(d, names[i])), 0o755)
			os.WriteFile(filepath.Join(d, names[i]), []byte(files[i]), 0o644)
		}
		a := []string{"-p", "../p.patch", "--skip-generated"}
		if mode != "inplace" {
			a = append(a, mode)
		}
		cr := ctx.RunCLI(core.CLIOpts{Dir: d, Args: append(a, args...), Env: env})
		res.Ob("cli-runs", 1)
		out := map[int]string{}
		for _, i := range idxs {
			b, _ := os.ReadFile(filepath.Join(d, names[i]))
			out[i] = string(b)
		}
		return out, cr
	}
	var all []int
	for i := range files {
		all = append(all, i)
	}
	// reference: the same run without a descriptor limit, and solo runs of a sample
	ref, refCr := run("ref", all, []string{"."}, nil)
	if cc := refCr.CrashClass(); cc != "" {
		res.Violate("C14/"+cc, string(refCr.Stderr), map[string]string{"p.patch": pt})
		return
	}
	lim, limCr := run("lim", all, []string{"."}, []string{"VERIF_LIMEXEC_NOFILE=40"})
	res.Evals++
	if cc := limCr.CrashClass(); cc != "" {
		res.Violate("C14/"+cc, string(limCr.Stderr), map[string]string{"p.patch": pt})
		return
	}
	rep := map[string]string{"p.patch": pt, "stderr.txt": string(limCr.Stderr), "names.txt": strings.Join(names, "\n")}
	for _, i := range all {
		if lim[i] != ref[i] {
			rep["in.go"], rep["expected.go"], rep["actual.go"] = files[i], ref[i], lim[i]
			res.Violate("C14/result-depends-on-number-of-files-before", fmt.Sprintf("[%s] %d files in one run with 40 descriptors: %s differs from the run without a limit: %s", mode, n, names[i], core.Trunc(lastLines(string(limCr.Stderr), 2), 300)), rep)
			return
		}
	}
	if string(limCr.Stdout) != string(refCr.Stdout) || limCr.Exit != refCr.Exit {
		res.Violate("C14/result-depends-on-number-of-files-before", fmt.Sprintf("[%s] %d files in one run with 40 descriptors: exit %d vs %d, stdout differs=%v: %s", mode, n, limCr.Exit, refCr.Exit, string(limCr.Stdout) != string(refCr.Stdout), core.Trunc(lastLines(string(limCr.Stderr), 2), 300)), rep)
		return
	}
	// the last files of the run, alone
	for _, i := range all[len(all)-3:] {
		solo, cr := run(fmt.Sprintf("solo%d", i), []int{i}, []string{names[i]}, nil)
		if cr.CrashClass() == "" && solo[i] != lim[i] {
			rep["in.go"], rep["expected.go"], rep["actual.go"] = files[i], solo[i], lim[i]
			res.Violate("C14/grouped-result-differs-from-solo", fmt.Sprintf("[%s] %s as the %dth file of a run differs from its solo run", mode, names[i], i+1), rep)
			return
		}
	}
	res.Ob("many-file-runs-under-descriptor-limit", 1)
	res.Ob("files-in-many-file-runs", n)
	res.Sig("many-files", mode, n)
}

func lastLines(s string, k int) string {
	l := strings.Split(strings.TrimSpace(s), "\n")
	if len(l) > k {
		l = l[len(l)-k:]
	}
	return strings.Join(l, " | ")
}
