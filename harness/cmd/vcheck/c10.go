package main

import (
	"fmt"
	"os"
	"path/filepath"
	"strings"

	"verif/harness/core"
	"verif/harness/gen"
)

// The C10 table.
var (
	c10P = []string{"absent", "unnamed", "named-n", "named-m", "named-base", "metavar", "dot", "blank"}
	c10F = []string{"no-imports", "other-paths-only", "unnamed", "name-n", "name-k", "name-base", "dot", "blank", "twice-n-then-k", "twice-k-then-n", "twice-unnamed-then-k", "unnamed-raw-string-path", "name-n-raw-string-path", "unnamed-other-major-version"}
	// "same-path-named-k": the second guard lists the first path again, under the literal name k (each listing is a guard)
	c10G2    = []string{"none", "second-holds", "second-fails", "same-path-named-k"}
	c10Shape = []string{"single", "grouped", "two-blocks"}
	// "non-matching-metavariable-name": 'package elsewhere' in a change that also declares a metavariable named elsewhere
	// (the package clause is a name, not a pattern)
	c10Pkg  = []string{"none", "matching", "non-matching", "rename-matching", "rename-non-matching", "non-matching-metavariable-name"}
	c10Pref = []string{"context", "minus"}
	// kind of the code pattern behind the guards: the guard has to hold for every kind, also when the two
	// sides of the change are of different kinds (a single expression replaced by several statements)
	c10Code = []string{"expr", "expr-to-stmts", "stmts", "decl"}
	// package of the target file: "pk_test" is another package than "pk"
	// "pk2" is the name a renaming patch gives the package: a file that carries it already is not in package pk
	c10FPkg = []string{"pk", "pk_test", "pk2"}
)

type c10Cell struct{ p, f, g2, shape, pkg, pref, code, fpkg int }

func c10CellOf(i int) c10Cell {
	var c c10Cell
	c.fpkg = i % len(c10FPkg)
	i /= len(c10FPkg)
	c.code = i % len(c10Code)
	i /= len(c10Code)
	c.pref = i % len(c10Pref)
	i /= len(c10Pref)
	c.pkg = i % len(c10Pkg)
	i /= len(c10Pkg)
	c.shape = i % len(c10Shape)
	i /= len(c10Shape)
	c.g2 = i % len(c10G2)
	i /= len(c10G2)
	c.f = i % len(c10F)
	i /= len(c10F)
	c.p = i
	return c
}

func c10Cells() int {
	return len(c10P) * len(c10F) * len(c10G2) * len(c10Shape) * len(c10Pkg) * len(c10Pref) * len(c10Code) * len(c10FPkg)
}

func (c c10Cell) String() string {
	return fmt.Sprintf("patch=%s file=%s second=%s shape=%s package=%s prefix=%s code=%s file-package=%s", c10P[c.p], c10F[c.f], c10G2[c.g2], c10Shape[c.shape], c10Pkg[c.pkg], c10Pref[c.pref], c10Code[c.code], c10FPkg[c.fpkg])
}

// guard1Holds is the statement's table: unnamed matches only unnamed, a literal name only
// that exact name (dot and blank are literal names), a metavariable any name or none.
func (c c10Cell) guard1Holds() bool {
	p, f := c10P[c.p], c10F[c.f]
	if p == "absent" {
		return true
	}
	var names []string // names under which the file imports path1 ("" = unnamed)
	switch f {
	case "no-imports", "other-paths-only", "unnamed-other-major-version":
		return false // path1 + "/v2" is another import path
	case "unnamed", "unnamed-raw-string-path":
		names = []string{""}
	case "name-n", "name-n-raw-string-path":
		names = []string{"n"}
	case "name-k":
		names = []string{"k"}
	case "name-base":
		names = []string{"p"}
	case "dot":
		names = []string{"."}
	case "blank":
		names = []string{"_"}
	case "twice-n-then-k":
		names = []string{"n", "k"}
	case "twice-k-then-n":
		names = []string{"k", "n"}
	case "twice-unnamed-then-k":
		names = []string{"", "k"}
	}
	for _, nm := range names {
		switch p {
		case "unnamed":
			if nm == "" {
				return true
			}
		case "named-n":
			if nm == "n" {
				return true
			}
		case "named-m":
			if nm == "m" {
				return true
			}
		case "named-base":
			if nm == "p" {
				return true
			}
		case "metavar":
			return true
		case "dot":
			if nm == "." {
				return true
			}
		case "blank":
			if nm == "_" {
				return true
			}
		}
	}
	return false
}

func (c c10Cell) expected() bool {
	ok := c.guard1Holds()
	if c10G2[c.g2] == "second-fails" {
		ok = false
	}
	if c10G2[c.g2] == "same-path-named-k" {
		switch c10F[c.f] {
		case "name-k", "twice-n-then-k", "twice-k-then-n", "twice-unnamed-then-k":
		default:
			ok = false
		}
	}
	switch c10Pkg[c.pkg] {
	case "non-matching", "rename-non-matching", "non-matching-metavariable-name":
		ok = false
	case "matching", "rename-matching":
		if c10FPkg[c.fpkg] != "pk" {
			ok = false // the patch says "package pk", the file is in pk_test
		}
	}
	return ok
}

const c10Path1, c10Path2 = "example.com/lib/p", "example.com/lib/q"

func (c c10Cell) patch() string {
	var sb strings.Builder
	sb.WriteString("@@\n")
	if c10P[c.p] == "metavar" {
		sb.WriteString("var imp identifier\n")
	}
	if c10Pkg[c.pkg] == "non-matching-metavariable-name" {
		sb.WriteString("var elsewhere identifier\n")
	}
	sb.WriteString("@@\n")
	pref := " "
	if c10Pref[c.pref] == "minus" {
		pref = "-"
	}
	switch c10Pkg[c.pkg] {
	case "matching":
		sb.WriteString(pref + "package pk\n")
		if pref == "-" {
			sb.WriteString("+package pk\n")
		}
	case "non-matching", "non-matching-metavariable-name":
		sb.WriteString(pref + "package elsewhere\n")
		if pref == "-" {
			sb.WriteString("+package elsewhere\n")
		}
	case "rename-matching":
		sb.WriteString("-package pk\n+package pk2\n")
	case "rename-non-matching":
		sb.WriteString("-package elsewhere\n+package pk2\n")
	}
	imp := func(name, path string) {
		if name != "" {
			name += " "
		}
		sb.WriteString(fmt.Sprintf("%simport %s%q\n", pref, name, path))
	}
	switch c10P[c.p] {
	case "unnamed":
		imp("", c10Path1)
	case "named-n":
		imp("n", c10Path1)
	case "named-m":
		imp("m", c10Path1)
	case "named-base":
		imp("p", c10Path1)
	case "metavar":
		imp("imp", c10Path1)
	case "dot":
		imp(".", c10Path1)
	case "blank":
		imp("_", c10Path1)
	}
	switch c10G2[c.g2] {
	case "none":
	case "same-path-named-k":
		imp("k", c10Path1)
	default:
		imp("", c10Path2)
	}
	switch c10Code[c.code] {
	case "expr":
		sb.WriteString("\n-target(1)\n+repl(1)\n")
	case "expr-to-stmts":
		sb.WriteString("\n-target(1)\n+repl(1)\n+more(2)\n")
	case "stmts":
		sb.WriteString("\n-tv := target(1)\n+tv := repl(1)\n")
	case "decl":
		sb.WriteString("\n-var tgtVar = target(1)\n+var tgtVar = repl(1)\n")
	}
	return sb.String()
}

func (c c10Cell) file() string {
	var specs []string
	var uses []string
	raw := false // the import path is spelled as a raw string literal
	add := func(name, path string) {
		if raw {
			if name != "" {
				name += " "
			}
			specs = append(specs, name+"`"+path+"`")
			if strings.TrimSpace(name) != "" {
				uses = append(uses, strings.TrimSpace(name)+".Use()")
			} else {
				uses = append(uses, path[strings.LastIndex(path, "/")+1:]+".Use()")
			}
			raw = false
			return
		}
		if name == "" {
			specs = append(specs, fmt.Sprintf("%q", path))
			uses = append(uses, path[strings.LastIndex(path, "/")+1:]+".Use()")
			return
		}
		specs = append(specs, fmt.Sprintf("%s %q", name, path))
		if name != "." && name != "_" {
			uses = append(uses, name+".Use()")
		}
	}
	switch c10F[c.f] {
	case "no-imports":
	case "other-paths-only":
		add("", "example.com/lib/zother")
		add("n", "example.com/lib/pp")
	case "unnamed":
		add("", c10Path1)
	case "name-n":
		add("n", c10Path1)
	case "name-k":
		add("k", c10Path1)
	case "name-base":
		add("p", c10Path1)
	case "dot":
		add(".", c10Path1)
	case "blank":
		add("_", c10Path1)
	case "twice-n-then-k":
		add("n", c10Path1)
		add("k", c10Path1)
	case "twice-k-then-n":
		add("k", c10Path1)
		add("n", c10Path1)
	case "twice-unnamed-then-k":
		add("", c10Path1)
		add("k", c10Path1)
	case "unnamed-other-major-version":
		add("", c10Path1+"/v2")
	case "unnamed-raw-string-path":
		raw = true
		add("", c10Path1)
	case "name-n-raw-string-path":
		raw = true
		add("n", c10Path1)
	}
	if c10G2[c.g2] == "second-holds" && c10F[c.f] != "no-imports" {
		add("", c10Path2)
	} else if c10G2[c.g2] == "second-holds" {
		// a file without imports cannot hold the second guard either: keep it import-free
	}
	if c10F[c.f] != "no-imports" {
		add("", "example.com/lib/unrelated")
	}
	var sb strings.Builder
	sb.WriteString("package " + c10FPkg[c.fpkg] + "\n\n")
	if len(specs) > 0 {
		switch c10Shape[c.shape] {
		case "single":
			for _, s := range specs {
				sb.WriteString("import " + s + "\n")
			}
		case "grouped":
			sb.WriteString("import (\n")
			for _, s := range specs {
				sb.WriteString("\t" + s + "\n")
			}
			sb.WriteString(")\n")
		case "two-blocks":
			h := (len(specs) + 1) / 2
			sb.WriteString("import (\n")
			for _, s := range specs[:h] {
				sb.WriteString("\t" + s + "\n")
			}
			sb.WriteString(")\n\nimport (\n")
			for _, s := range specs[h:] {
				sb.WriteString("\t" + s + "\n")
			}
			sb.WriteString(")\n")
		}
		sb.WriteString("\n")
	}
	switch c10Code[c.code] {
	case "expr", "expr-to-stmts":
		sb.WriteString("func f() {\n\ttarget(1)\n")
	case "stmts":
		sb.WriteString("func f() {\n\ttv := target(1)\n")
	case "decl":
		sb.WriteString("var tgtVar = target(1)\n\nfunc f() {\n")
	}
	for _, u := range uses {
		sb.WriteString("\t" + u + "\n")
	}
	sb.WriteString("}\n")
	return sb.String()
}

const c10Batch = 24

func init() {
	core.Register(&core.Prop{
		ID:    "C10",
		Level: "exploration",
		Rule: "exhaustive table of 193536 cells: patch-side import form {absent, unnamed, named n, named other, named like the last path element, metavariable-named, '.', '_'} x file-side form {no imports, other paths only, unnamed, same name, other name, named like the last path element, '.', '_', " +
			"same path twice under two names (both orders), unnamed+named, path spelled as a raw string literal (unnamed / named), the path with a '/v2' suffix (another path)} x second guard import {none, holds, fails, the first path again under another literal name} x import block shape {single, grouped, two blocks} x package clause {none, matching, non-matching, rename of matching, rename of non-matching, non-matching and spelled like a metavariable of the change} " +
			"x guard line prefix {context, '-'} x kind of the code pattern {expression, expression replaced by several statements, statement, declaration} x package of the file {pk, pk_test, pk2 = the name a renaming patch gives it}; when the change applies the package clause must be the file's own (or the renamed one); every cell on a file in which the code pattern occurs; library API for all cells, CLI for every 8th batch. Oracle: the change applies iff every guard holds per the statement's table. " +
			"Every cell is non-trivial and distinct (one configuration each). Side probes: guard orders, rename-then-guard, one parsed patch over all file forms, and cgo files (import \"C\" inside the group of the guarded import, before or behind it, or in a declaration of its own; guards unnamed, named, and import \"C\" itself).",
		Assumptions: []string{"'in the stated form' for a path imported twice: the guard holds if any of the specs has the stated form", "a file without imports cannot hold a second guard: such cells expect 'not applied'"},
		Cases:       func(string) int { return (c10Cells() + c10Batch - 1) / c10Batch },
		Floor:       func(string) int { return c10Cells() - 5000 },
		Exhaustive:  func(string) bool { return true },
		Run:         runC10,
	})
}

func runC10(ctx *core.Ctx, idx int) *core.Result {
	res := &core.Result{}
	for k := 0; k < c10Batch; k++ {
		ci := idx*c10Batch + k
		if ci >= c10Cells() {
			break
		}
		c := c10CellOf(ci)
		pt, src := c.patch(), c.file()
		exp := c.expected()
		if c10G2[c.g2] == "second-holds" && c10F[c.f] == "no-imports" {
			exp = false
		}
		runs := applyAPI(pt, []string{src})
		names := []string{"api"}
		if idx%8 == 0 {
			cr, _ := applyCLI(ctx, pt, []string{src})
			runs = append(runs, cr[0])
			names = append(names, "cli")
		}
		for ri, run := range runs {
			res.Evals++
			rep := replayFiles(pt, src, run.Out)
			if run.Pan != "" {
				res.Violate("C10/engine-panic:"+core.PanicSignature(run.Pan), c.String()+"\n"+run.Pan, rep)
				continue
			}
			if run.Err != "" {
				res.Violate("C10/engine-error", fmt.Sprintf("[%s] %s: %s", names[ri], c, run.Err), rep)
				continue
			}
			applied := strings.Contains(run.Out, "repl(1)")
			if applied && strings.Contains(run.Out, "target(1)") {
				res.Violate("C10/half-applied", c.String(), rep)
				continue
			}
			cls := ""
			switch {
			case exp && !applied:
				cls = "guard-holds-but-not-applied"
			case !exp && applied:
				cls = "guard-fails-but-applied"
			case !exp && run.Out != src:
				cls = "guard-fails-but-file-changed"
			}
			if cls == "" && applied {
				wantPkg := c10FPkg[c.fpkg]
				if c10Pkg[c.pkg] == "rename-matching" {
					wantPkg = "pk2"
				}
				if !strings.HasPrefix(run.Out, "package "+wantPkg+"\n") {
					cls = "package-clause-wrong-after-apply"
				}
			}
			if cls != "" {
				if strings.HasPrefix(c10F[c.f], "twice") {
					cls += "/path-imported-twice"
				}
				res.Violate("C10/"+cls, fmt.Sprintf("[%s] %s (expected applies=%v)", names[ri], c, exp), rep)
				continue
			}
			if ri == 0 {
				res.Sig("cell", ci)
				if exp {
					res.Ob("cells-expected-to-apply", 1)
				} else {
					res.Ob("cells-expected-not-to-apply", 1)
				}
			}
		}
		if k == 0 && idx%50 == 0 {
			res.Sample(map[string]any{"cell": c.String(), "patch": pt, "file": src, "expected_applies": exp})
		}
	}
	if idx%3 == 0 && idx*c10Batch < c10Cells() {
		// (a cell picked by the case's random stream: the first cell of the batch has the same package form whenever
		// idx is a multiple of six, which is when the sweep also goes through the CLI)
		c10FileSweep(ctx, idx, res, c10CellOf(ctx.Rand("c10sweepcell", idx).Intn(c10Cells())))
	}
	if idx%40 == 1 {
		c10GuardOrder(ctx, idx, res)
	}
	if idx%40 == 2 {
		c10RenameThenGuard(ctx, idx, res)
	}
	if idx%40 == 3 {
		c10CgoProbe(res)
	}
	return res
}

// c10GuardOrder: two or three import guards for different paths, in every order of their forms (unnamed, literally named,
// named by a metavariable) and of the paths, on files that satisfy all of them (must apply) or all but one (must not).
func c10GuardOrder(ctx *core.Ctx, idx int, res *core.Result) {
	r := ctx.Rand("c10order", idx)
	paths := []string{"example.com/ga", "example.com/gb", "example.com/gc"}
	n := 2 + r.Intn(2)
	var guards, imports []string
	var metas []string
	broken := -1
	if r.Intn(3) == 0 {
		broken = r.Intn(n)
	}
	for i, pi := range r.Perm(len(paths))[:n] {
		pth := paths[pi]
		name := fmt.Sprintf("nm%d", i)
		fileSpec := ""
		switch r.Intn(3) {
		case 0: // unnamed guard
			guards = append(guards, fmt.Sprintf("import %q", pth))
			fileSpec = fmt.Sprintf("%q", pth)
			if i == broken {
				fileSpec = fmt.Sprintf("%s %q", name, pth)
			}
		case 1: // literal name
			guards = append(guards, fmt.Sprintf("import %s %q", name, pth))
			fileSpec = fmt.Sprintf("%s %q", name, pth)
			if i == broken {
				fileSpec = fmt.Sprintf("%q", pth)
			}
		default: // metavariable name: any name or none
			mv := fmt.Sprintf("mv%d", i)
			metas = append(metas, mv)
			guards = append(guards, fmt.Sprintf("import %s %q", mv, pth))
			fileSpec = []string{fmt.Sprintf("%q", pth), fmt.Sprintf("%s %q", name, pth), fmt.Sprintf("other%d %q", i, pth)}[r.Intn(3)]
			if i == broken {
				fileSpec = "" // the path is not imported at all
			}
		}
		if fileSpec != "" {
			imports = append(imports, fileSpec)
		}
	}
	pref := []string{" ", "-"}[r.Intn(2)]
	var pt strings.Builder
	pt.WriteString("@@\nvar x expression\n")
	if len(metas) > 0 {
		pt.WriteString("var " + strings.Join(metas, ", ") + " identifier\n")
	}
	pt.WriteString("@@\n")
	for _, g := range guards {
		pt.WriteString(pref + g + "\n")
	}
	pt.WriteString("\n-target(x)\n+repl(x)\n")
	r.Shuffle(len(imports), func(i, j int) { imports[i], imports[j] = imports[j], imports[i] })
	src := "package pk\n\nimport (\n\t\"os\"\n"
	for _, im := range imports {
		src += "\t" + im + "\n"
	}
	src += ")\n\nfunc f() {\n\tuse(os.Args)\n\ttarget(1)\n}\n"
	runs := applyAPI(pt.String(), []string{src})
	if cr, _ := applyCLI(ctx, pt.String(), []string{src}); len(cr) == 1 {
		runs = append(runs, cr[0])
	}
	for _, run := range runs {
		res.Evals++
		res.Ob("guard-order-runs", 1)
		rep := replayFiles(pt.String(), src, run.Out)
		if run.Pan != "" {
			res.Violate("C10/engine-panic:"+core.PanicSignature(run.Pan), run.Pan, rep)
			return
		}
		if run.Err != "" {
			res.Violate("C10/engine-error", "guard order: "+run.Err, rep)
			return
		}
		applied := strings.Contains(run.Out, "repl(1)")
		if applied != (broken < 0) || (broken >= 0 && run.Out != src) {
			res.Violate("C10/guard-order", fmt.Sprintf("guards %q (guard %d does not hold: -1 = all hold): applied=%v", guards, broken, applied), rep)
			return
		}
	}
	res.Sig("guard-order", strings.Join(guards, ";"), broken)
}

// c10FileSweep: one parsed patch (one CLI run) over files of every import form, in a shuffled order. Whether the guards of
// a change hold is a matter between the change and the file at hand: what an earlier file of the run imported, and
// under which name, decides nothing for a later one. Every file must come out as its own cell of the table says.
func c10FileSweep(ctx *core.Ctx, idx int, res *core.Result, c c10Cell) {
	r := ctx.Rand("c10sweep", idx)
	pt := c.patch()
	var cells []c10Cell
	var srcs []string
	for _, j := range r.Perm(len(c10F)) {
		d := c
		d.f = j
		// the files of one run (one directory) are of different packages, too
		d.fpkg = r.Intn(len(c10FPkg))
		cells = append(cells, d)
		srcs = append(srcs, d.file())
	}
	runs := [][]engineRun{applyAPI(pt, srcs)}
	names := []string{"api"}
	if idx%6 == 0 {
		cr, _ := applyCLI(ctx, pt, srcs)
		if len(cr) == len(srcs) {
			runs = append(runs, cr)
			names = append(names, "cli")
		}
	}
	for ri, rs := range runs {
		for i, run := range rs {
			d := cells[i]
			res.Evals++
			res.Ob("file-sweep-runs", 1)
			exp := d.expected()
			if c10G2[d.g2] == "second-holds" && c10F[d.f] == "no-imports" {
				exp = false
			}
			rep := replayFiles(pt, srcs[i], run.Out)
			for j := 0; j < i; j++ {
				rep[fmt.Sprintf("earlier-%02d.go", j)] = srcs[j]
			}
			if run.Pan != "" {
				res.Violate("C10/engine-panic:"+core.PanicSignature(run.Pan), d.String()+"\n"+run.Pan, rep)
				return
			}
			if run.Err != "" {
				if names[ri] == "cli" {
					continue // one failing file fails the whole CLI run; the library run tells which
				}
				res.Violate("C10/engine-error", fmt.Sprintf("[%s, file %d of a sweep] %s: %s", names[ri], i, d, run.Err), rep)
				return
			}
			applied := strings.Contains(run.Out, "repl(1)")
			if exp != applied || (!exp && run.Out != srcs[i]) {
				res.Violate("C10/guard-depends-on-earlier-files", fmt.Sprintf("[%s] file %d of a run over all file forms: %s (expected applies=%v, applied=%v)", names[ri], i, d, exp, applied), rep)
				return
			}
		}
	}
	res.Sig("file-sweep", idx)
}

// c10RenameThenGuard: the package a guard speaks of is the package of the file as it is when the change gets its turn: an
// earlier change of the same patch file (or of an earlier patch file) that renamed the package makes a guard for the
// new name hold and a guard for the old name fail; a file that carries the new name from the start is not of the old
// package.
func c10RenameThenGuard(ctx *core.Ctx, idx int, res *core.Result) {
	r := ctx.Rand("c10rename", idx)
	c1 := "@@\nvar x expression\n@@\n-package pk\n+package pk2\n\n-first(x)\n+firstDone(x)\n"
	guardNew := r.Intn(2) == 0
	gname := map[bool]string{true: "pk2", false: "pk"}[guardNew]
	c2 := "@@\nvar x expression\n@@\n package " + gname + "\n\n-target(x)\n+repl(x)\n"
	filePkg := []string{"pk", "pk2", "pk_test"}[r.Intn(3)]
	hasFirst := r.Intn(3) > 0
	src := "package " + filePkg + "\n\nfunc f() {\n"
	if hasFirst {
		src += "\tfirst(0)\n"
	}
	src += "\ttarget(1)\n}\n"
	renamed := filePkg == "pk" && hasFirst
	pkgAfter := filePkg
	if renamed {
		pkgAfter = "pk2"
	}
	wantRepl := pkgAfter == gname
	pt := c1 + "\n" + c2
	runs := applyAPI(pt, []string{src})
	if cr, _ := applyCLI(ctx, pt, []string{src}); len(cr) == 1 {
		runs = append(runs, cr[0])
	}
	// the same two changes as two patch files
	dir, _ := os.MkdirTemp(ctx.Tmp, "c10rn")
	defer os.RemoveAll(dir)
	os.WriteFile(filepath.Join(dir, "c1.patch"), []byte(c1), 0o644)
	os.WriteFile(filepath.Join(dir, "c2.patch"), []byte(c2), 0o644)
	os.WriteFile(filepath.Join(dir, "f.go"), []byte(src), 0o644)
	cr := ctx.RunCLI(core.CLIOpts{Dir: dir, Args: []string{"-p", "c1.patch", "-p", "c2.patch", "f.go"}})
	b, _ := os.ReadFile(filepath.Join(dir, "f.go"))
	runs = append(runs, engineRun{Out: string(b), Err: map[bool]string{true: "", false: string(cr.Stderr)}[cr.Exit == 0]})
	for ri, run := range runs {
		res.Evals++
		res.Ob("rename-then-guard-runs", 1)
		rep := replayFiles(pt, src, run.Out)
		if run.Pan != "" {
			res.Violate("C10/engine-panic:"+core.PanicSignature(run.Pan), run.Pan, rep)
			return
		}
		if run.Err != "" {
			res.Violate("C10/engine-error", "rename then guard: "+run.Err, rep)
			return
		}
		gotRepl := strings.Contains(run.Out, "repl(1)")
		gotPkg := strings.TrimPrefix(strings.SplitN(run.Out, "\n", 2)[0], "package ")
		if gotRepl != wantRepl || gotPkg != pkgAfter {
			res.Violate("C10/guard-after-package-rename", fmt.Sprintf("[delivery %d] file package %s, first() present %v, later change guarded by 'package %s': want package %s and rewritten=%v, got package %s and rewritten=%v", ri, filePkg, hasFirst, gname, pkgAfter, wantRepl, gotPkg, gotRepl), rep)
			return
		}
	}
	res.Sig("rename-then-guard", filePkg, hasFirst, guardNew)
}

// c10CgoProbe: files of a cgo package. The import "C" (with its preamble comment) stands in the same parenthesised declaration
// as the guarded import (before or behind it) or in a declaration of its own (before or behind the others); the guard is an
// unnamed one, a literally named one, or import "C" itself. The change applies iff the file imports the path in the stated form,
// wherever "C" stands (S285: guards matched against the import declarations minus the one that holds "C").
func c10CgoProbe(res *core.Result) {
	const cspec = "// #include <stdlib.h>\n\t\"C\""
	guards := []struct{ guard, holds, fails, use string }{
		{"import \"example.com/ga\"", "\"example.com/ga\"", "nm \"example.com/ga\"", "Use()"},
		{"import nm \"example.com/ga\"", "nm \"example.com/ga\"", "\"example.com/ga\"", "Use()"},
		{"import \"C\"", "\"example.com/ga\"", "", "Use()"},
	}
	for gi, g := range guards {
		for _, layout := range []string{"group-C-last", "group-C-first", "own-decl-first", "own-decl-last", "no-C"} {
			for _, holds := range []bool{true, false} {
				spec := g.holds
				if !holds {
					spec = g.fails
				}
				exp := holds
				if gi == 2 {
					// the guard is import "C": it holds iff the file imports "C"
					spec = g.holds
					exp = layout != "no-C"
					if !holds {
						continue
					}
				}
				name := "ga"
				if strings.HasPrefix(spec, "nm ") {
					name = "nm"
				}
				var imp string
				switch layout {
				case "group-C-last":
					imp = "import (\n\t\"os\"\n\t" + spec + "\n\n\t" + cspec + "\n)\n"
				case "group-C-first":
					imp = "import (\n\t" + cspec + "\n\n\t\"os\"\n\t" + spec + "\n)\n"
				case "own-decl-first":
					imp = "// #include <stdlib.h>\nimport \"C\"\n\nimport (\n\t\"os\"\n\t" + spec + "\n)\n"
				case "own-decl-last":
					imp = "import (\n\t\"os\"\n\t" + spec + "\n)\n\n// #include <stdlib.h>\nimport \"C\"\n"
				case "no-C":
					imp = "import (\n\t\"os\"\n\t" + spec + "\n)\n"
				}
				src := "package pk\n\n" + imp + "\nfunc f() {\n\tuse(os.Args)\n\t" + name + "." + g.use + "\n\ttarget(1)\n"
				if layout != "no-C" {
					src += "\tC.free(nil)\n"
				}
				src += "}\n"
				if !gen.Parses(src) {
					continue
				}
				pt := "@@\nvar x expression\n@@\n " + g.guard + "\n\n-target(x)\n+repl(x)\n"
				runs := applyAPI(pt, []string{src})
				res.Evals++
				res.Ob("cgo-probe-runs", 1)
				rep := replayFiles(pt, src, runs[0].Out)
				if runs[0].Pan != "" || runs[0].Err != "" {
					res.Violate("C10/cgo-probe-failed", runs[0].Pan+runs[0].Err, rep)
					return
				}
				applied := strings.Contains(runs[0].Out, "repl(1)")
				if applied != exp || (!exp && runs[0].Out != src) {
					res.Violate("C10/guard-on-cgo-file", fmt.Sprintf("guard %q, file imports %s, layout %s: expected applies=%v, applied=%v", g.guard, spec, layout, exp, applied), rep)
					return
				}
			}
		}
	}
}
