package main

import (
	"fmt"
	"go/ast"
	"go/parser"
	"go/token"
	"math/rand"
	"sort"
	"strings"

	"verif/harness/core"
)

const (
	c11P = "example.com/old/foo"
	c11Q = "example.com/new/bar"
)

type impSpec struct{ Name, Path string }

func (s impSpec) String() string {
	if s.Name == "" {
		return fmt.Sprintf("%q", s.Path)
	}
	return fmt.Sprintf("%s %q", s.Name, s.Path)
}

// c11Patch is one import-manipulating patch with its import lines described structurally.
type c11Patch struct {
	Name   string
	Text   string
	Minus  []impSpec // '-' imports (Name "$" = identifier metavariable)
	Ctx    []impSpec // context imports
	Plus   []impSpec // '+' imports
	Extra  []string  // further paths the file must import for the patch's guards to hold (each under a random name, used or not)
	Needs  func(name string) bool
	Site   func(name string, r *rand.Rand) string // an instance of the code pattern, given the file's name for P
	Action string
	// Pre: declarations in front of the function with the sites (a place where the pattern matches but its replacement
	// cannot stand, ahead of the sites that are rewritten)
	Pre string
}

var c11Patches = []c11Patch{
	{Name: "replace-unnamed", Action: "replace-path",
		Text:  "@@\n@@\n-import \"" + c11P + "\"\n+import \"" + c11Q + "\"\n\n-foo.Client\n+bar.Client\n",
		Minus: []impSpec{{"", c11P}}, Plus: []impSpec{{"", c11Q}},
		Site: func(n string, r *rand.Rand) string { return n + ".Client" }},
	{Name: "replace-any-keep-name", Action: "replace-path-metavar",
		Text:  "@@\nvar foo, x identifier\n@@\n-import foo \"" + c11P + "\"\n+import foo \"" + c11Q + "\"\n\n foo.x\n",
		Minus: []impSpec{{"$", c11P}}, Plus: []impSpec{{"$", c11Q}},
		Site: func(n string, r *rand.Rand) string { return n + ".Thing" }},
	// the code of the change never spells the package's name: whatever the file calls the import ('_' and '.' too) is
	// the name the metavariable stands for
	{Name: "replace-any-driver", Action: "replace-path-metavar",
		Text:  "@@\nvar foo identifier\nvar x expression\n@@\n-import foo \"" + c11P + "\"\n+import foo \"" + c11Q + "\"\n\n-openDriver(\"old\", x)\n+openDriver(\"new\", x)\n",
		Minus: []impSpec{{"$", c11P}}, Plus: []impSpec{{"$", c11Q}},
		Site: func(n string, r *rand.Rand) string { return "openDriver(\"old\", " + fmt.Sprint(r.Intn(9)) + ")" }},
	// whatever the file calls the import, it becomes a blank import; for a file that has it as a blank import already the
	// '-' and the '+' line name the same import, and it stays
	{Name: "any-to-blank", Action: "replace-path-metavar",
		Text:  "@@\nvar foo identifier\nvar x expression\n@@\n-import foo \"" + c11P + "\"\n+import _ \"" + c11P + "\"\n\n-openDriver(\"old\", x)\n+openDriver(\"new\", x)\n",
		Minus: []impSpec{{"$", c11P}}, Plus: []impSpec{{"_", c11P}},
		Site: func(n string, r *rand.Rand) string { return "openDriver(\"old\", " + fmt.Sprint(r.Intn(9)) + ")" }},
	{Name: "match-only", Action: "match",
		Text: "@@\n@@\n import \"" + c11P + "\"\n\n-foo.Old()\n+foo.New()\n",
		Ctx:  []impSpec{{"", c11P}},
		Site: func(n string, r *rand.Rand) string { return n + ".Old()" }},
	// an import that the change keeps, written as an identical '-'/'+' pair instead of on a context line
	{Name: "keep-as-pair", Action: "match",
		Text:  "@@\n@@\n-import \"" + c11P + "\"\n+import \"" + c11P + "\"\n\n-foo.Old()\n+foo.New()\n",
		Minus: []impSpec{{"", c11P}}, Plus: []impSpec{{"", c11P}},
		Site: func(n string, r *rand.Rand) string { return n + ".Old()" }},
	{Name: "match-only-drop-use", Action: "match-then-unused",
		Text: "@@\nvar x expression\n@@\n import \"" + c11P + "\"\n\n-foo.Do(x)\n+do(x)\n",
		Ctx:  []impSpec{{"", c11P}},
		Site: func(n string, r *rand.Rand) string { return n + ".Do(" + fmt.Sprint(r.Intn(9)) + ")" }},
	{Name: "delete-unnamed", Action: "delete",
		Text:  "@@\nvar x expression\n@@\n-import \"" + c11P + "\"\n\n-foo.Do(x)\n+do(x)\n",
		Minus: []impSpec{{"", c11P}},
		Site:  func(n string, r *rand.Rand) string { return n + ".Do(" + fmt.Sprint(r.Intn(9)) + ")" }},
	{Name: "delete-any", Action: "delete-metavar",
		Text:  "@@\nvar foo identifier\nvar x expression\n@@\n-import foo \"" + c11P + "\"\n\n-foo.Do(x)\n+do(x)\n",
		Minus: []impSpec{{"$", c11P}},
		Site:  func(n string, r *rand.Rand) string { return n + ".Do(" + fmt.Sprint(r.Intn(9)) + ")" }},
	{Name: "delete-two-any", Action: "delete-metavar-two",
		Text:  "@@\nvar foo, qux identifier\nvar x expression\n@@\n-import foo \"" + c11P + "\"\n-import qux \"example.com/old/qux\"\n\n-foo.Do(x)\n+do(x)\n",
		Minus: []impSpec{{"$", c11P}, {"$", "example.com/old/qux"}}, Extra: []string{"example.com/old/qux"},
		Site: func(n string, r *rand.Rand) string { return n + ".Do(" + fmt.Sprint(r.Intn(9)) + ")" }},
	{Name: "delete-two-any-reversed", Action: "delete-metavar-two",
		Text:  "@@\nvar foo, qux identifier\nvar x expression\n@@\n-import qux \"example.com/old/qux\"\n-import foo \"" + c11P + "\"\n\n-foo.Do(x)\n+do(x)\n",
		Minus: []impSpec{{"$", "example.com/old/qux"}, {"$", c11P}}, Extra: []string{"example.com/old/qux"},
		Site: func(n string, r *rand.Rand) string { return n + ".Do(" + fmt.Sprint(r.Intn(9)) + ")" }},
	{Name: "add-only", Action: "add",
		Text: "@@\nvar x expression\n@@\n+import \"" + c11Q + "\"\n\n-legacy(x)\n+bar.New(x)\n",
		Plus: []impSpec{{"", c11Q}},
		Site: func(n string, r *rand.Rand) string { return "legacy(" + fmt.Sprint(r.Intn(9)) + ")" }},
	{Name: "add-for-selector", Action: "add",
		Text: "@@\n@@\n+import \"" + c11Q + "\"\n\n-legacyLimit\n+bar.Limit\n",
		Plus: []impSpec{{"", c11Q}}, Pre: "const legacyLimit = 3\n\n",
		Site: func(n string, r *rand.Rand) string { return "legacyLimit" }},
	// patches without import lines whose code is spelled like an import path or an import name: imports are not code
	{Name: "string-like-import-path", Action: "none",
		Text: "@@\n@@\n-\"" + c11P + "\"\n+\"example.com/elsewhere\"\n",
		Site: func(n string, r *rand.Rand) string { return "\"" + c11P + "\"" }},
	{Name: "identifier-like-import-name", Action: "none",
		Text: "@@\n@@\n-f\n+renamedF\n\n@@\n@@\n-foo\n+renamedFoo\n",
		Site: func(n string, r *rand.Rand) string { return n + ".Thing" }},
	{Name: "add-named", Action: "add-named",
		Text: "@@\nvar x expression\n@@\n+import nb \"" + c11Q + "\"\n\n-legacy(x)\n+nb.New(x)\n",
		Plus: []impSpec{{"nb", c11Q}},
		Site: func(n string, r *rand.Rand) string { return "legacy(" + fmt.Sprint(r.Intn(9)) + ")" }},
	{Name: "name-unnamed", Action: "rename",
		Text:  "@@\nvar x identifier\n@@\n-import \"" + c11P + "\"\n+import foo \"" + c11P + "\"\n\n foo.x\n",
		Minus: []impSpec{{"", c11P}}, Plus: []impSpec{{"foo", c11P}},
		Site: func(n string, r *rand.Rand) string { return n + ".Thing" }},
	{Name: "rename-named", Action: "rename",
		Text:  "@@\nvar x identifier\n@@\n-import f \"" + c11P + "\"\n+import g \"" + c11P + "\"\n\n-f.x\n+g.x\n",
		Minus: []impSpec{{"f", c11P}}, Plus: []impSpec{{"g", c11P}},
		Site: func(n string, r *rand.Rand) string { return n + ".Thing" }},
	{Name: "named-to-unnamed-new-path", Action: "replace-path",
		Text:  "@@\nvar x identifier\n@@\n-import f \"" + c11P + "\"\n+import \"" + c11Q + "\"\n\n-f.x\n+bar.x\n",
		Minus: []impSpec{{"f", c11P}}, Plus: []impSpec{{"", c11Q}},
		Site: func(n string, r *rand.Rand) string { return n + ".Thing" }},
}

// c11Variant rewrites a patch for another pair of import paths whose last elements (the guessed
// package names) are pn and qn: paths ending in a version-like element ("/v1") are ordinary paths.
func c11Variant(p c11Patch, P2, Q2, pn, qn string) c11Patch {
	rep := strings.NewReplacer(c11P, P2, c11Q, Q2, "foo", pn, "bar", qn)
	q := p
	q.Text = rep.Replace(p.Text)
	conv := func(l []impSpec) []impSpec {
		var out []impSpec
		for _, s := range l {
			n := s
			n.Path = rep.Replace(s.Path)
			if s.Name == "foo" {
				n.Name = pn
			} else if s.Name == "bar" {
				n.Name = qn
			}
			out = append(out, n)
		}
		return out
	}
	q.Minus, q.Ctx, q.Plus = conv(p.Minus), conv(p.Ctx), conv(p.Plus)
	q.Name = p.Name + "/" + pn
	return q
}

var c11Others = []impSpec{
	{"", "fmt"}, {"", "os"}, {"str", "strings"}, {"_", "embed"}, {".", "math"}, {"", "example.com/x/y"}, {"yy", "example.com/x/y2"},
	{"", "net/http"}, {"foo2", "example.com/old/foo2"}, {"", "example.com/old/foobar"}, {"bar2", "example.com/new/bar2"}, {"_", "example.com/side/effect"},
}

// renderImports lays specs out in one of several shapes.
func renderImports(specs []impSpec, r *rand.Rand) string {
	if len(specs) == 0 {
		return ""
	}
	var sb strings.Builder
	cm := func() string {
		if r.Intn(4) == 0 {
			return fmt.Sprintf(" // ic%d", r.Intn(100))
		}
		return ""
	}
	switch r.Intn(4) {
	case 0:
		for _, s := range specs {
			sb.WriteString("import " + s.String() + cm() + "\n")
		}
	case 1:
		sb.WriteString("import (\n")
		for _, s := range specs {
			if r.Intn(5) == 0 {
				sb.WriteString("\n")
			}
			sb.WriteString("\t" + s.String() + cm() + "\n")
		}
		sb.WriteString(")\n")
	case 2:
		h := r.Intn(len(specs) + 1)
		for _, part := range [][]impSpec{specs[:h], specs[h:]} {
			if len(part) == 0 {
				continue
			}
			sb.WriteString("import (\n")
			for _, s := range part {
				sb.WriteString("\t" + s.String() + cm() + "\n")
			}
			sb.WriteString(")\n\n")
		}
	default:
		sb.WriteString("import " + specs[0].String() + "\n")
		if len(specs) > 1 {
			sb.WriteString("import (\n\t// group comment\n")
			for _, s := range specs[1:] {
				sb.WriteString("\t" + s.String() + cm() + "\n")
			}
			sb.WriteString(")\n")
		}
	}
	return sb.String()
}

func importSet(src string) (map[impSpec]bool, *ast.File, error) {
	fs := token.NewFileSet()
	// with object resolution: a selector on a local variable that has the package's name is not a reference to the package
	f, err := parser.ParseFile(fs, "x.go", src, 0)
	if err != nil {
		return nil, nil, err
	}
	set := map[impSpec]bool{}
	for _, is := range f.Imports {
		s := impSpec{Path: strings.Trim(is.Path.Value, "\"`")}
		if is.Name != nil {
			s.Name = is.Name.Name
		}
		set[s] = true
	}
	return set, f, nil
}

func usesName(f *ast.File, name string) bool {
	used := false
	ast.Inspect(f, func(n ast.Node) bool {
		if sel, ok := n.(*ast.SelectorExpr); ok {
			if id, ok := sel.X.(*ast.Ident); ok && id.Name == name && id.Obj == nil {
				used = true
			}
		}
		return true
	})
	return used
}

func baseName(path string) string { return path[strings.LastIndex(path, "/")+1:] }

func setString(m map[impSpec]bool) string {
	var out []string
	for s := range m {
		out = append(out, s.String())
	}
	sort.Strings(out)
	return strings.Join(out, ", ")
}

func init() {
	core.Register(&core.Prop{
		ID:    "C11",
		Level: "exploration",
		Rule: "cases: 17 patches (replace path, replace any keeping the captured name - also a blank or dot import when the code never spells the name, match only, delete, delete any, add, add named, name an unnamed import, rename, named->unnamed) x files whose import block has the affected import " +
			"in every form (unnamed, named, named like the package, absent) plus 0-8 other imports (named, blank, dot, several blocks, single lines, commented, unsorted, duplicated, look-alike paths) x remaining uses of the package name {none, elsewhere, only inside the rewritten site}. " +
			"Oracle over the set of (name, path) specs of input and output: unmentioned imports unchanged and nothing unmentioned added; '+' imports present (captured name for a metavariable name); a '-' import absent iff the output no longer refers to its name or a '+' import takes the name over; " +
			"a matched import that is still referred to is kept. non-trivial = change applied and file has >=1 unmentioned import; distinct = (patch, form of the affected import, block shape hash, remaining-use class).",
		Assumptions: []string{"'refers to' = a selector on the import's name (explicit name, else last path element)", "an import on a context line is present afterwards (it is on the '+' side too), referred to or not"},
		Cases: func(tier string) int {
			if tier == "thorough" {
				return 40000
			}
			return 12000
		},
		Floor: func(string) int { return 300 },
		Run:   runC11,
	})
}

// c11SamePathTwice: patches that list one path several times under different names (each listing is an import of its
// own), on files that import the path under those names.
func c11SamePathTwice(ctx *core.Ctx, idx int, res *core.Result) {
	r := ctx.Rand("c11twice", idx)
	const P = "k8s.io/api/core/v1"
	names := []string{"v1", "corev1", "apiv1", "k8score"}
	r.Shuffle(len(names), func(i, j int) { names[i], names[j] = names[j], names[i] })
	n1, n2 := names[0], names[1]
	var patch, body string
	var wantGone, wantKept, wantAdded []impSpec
	specs := []impSpec{{n1, P}, {n2, P}}
	use2 := r.Intn(2) == 0 // the second name is still referred to afterwards
	switch r.Intn(2) {
	case 0:
		patch = fmt.Sprintf("@@\n@@\n-import %s %q\n-import %s %q\n+import core %q\n\n-%s.Pod\n+core.Pod\n", n1, P, n2, P, P, n1)
		body = fmt.Sprintf("\tvar a %s.Pod\n\tuse(a)\n", n1)
		wantGone, wantAdded = []impSpec{{n1, P}}, []impSpec{{"core", P}}
		if use2 {
			body += fmt.Sprintf("\tuse(%s.Other{})\n", n2)
			wantKept = []impSpec{{n2, P}}
		} else {
			wantGone = append(wantGone, impSpec{n2, P})
		}
	default:
		// the path on a context line without a name, and once more, named, on a '-' line
		specs = []impSpec{{"", P}, {n1, P}}
		patch = fmt.Sprintf("@@\n@@\n import %q\n-import %s %q\n\n-%s.Do()\n+v1.Do()\n", P, n1, P, n1)
		if n1 == "v1" {
			n1 = "corev1"
			specs[1].Name = n1
			patch = fmt.Sprintf("@@\n@@\n import %q\n-import %s %q\n\n-%s.Do()\n+v1.Do()\n", P, n1, P, n1)
		}
		body = fmt.Sprintf("\tv1.Other()\n\t%s.Do()\n", n1)
		wantGone, wantKept = []impSpec{{n1, P}}, []impSpec{{"", P}}
	}
	others := append([]impSpec{}, c11Others...)
	r.Shuffle(len(others), func(i, j int) { others[i], others[j] = others[j], others[i] })
	specs = append(specs, others[:r.Intn(4)]...)
	r.Shuffle(len(specs), func(i, j int) { specs[i], specs[j] = specs[j], specs[i] })
	src := "package p\n\n" + renderImports(specs, r) + "\nfunc fnMain() {\n" + body + "}\n"
	run := applyAPI(patch, []string{src})[0]
	res.Evals++
	rep := replayFiles(patch, src, run.Out)
	if run.Pan != "" || run.Err != "" {
		res.Violate("C11/engine-error", "same path listed twice: "+run.Pan+run.Err, rep)
		return
	}
	in, _, err1 := importSet(src)
	out, _, err2 := importSet(run.Out)
	if err1 != nil || err2 != nil || run.Out == src {
		res.Violate("C11/same-path-twice-not-applied", fmt.Sprint(err1, err2), rep)
		return
	}
	fail := func(class, detail string) {
		res.Violate("C11/"+class, fmt.Sprintf("[patch lists %s twice] %s\n  imports in:  %s\n  imports out: %s", P, detail, setString(in), setString(out)), rep)
	}
	for _, s := range wantGone {
		if out[s] {
			fail("minus-import-kept", "import "+s.String()+" is on a '-' line and nothing refers to "+s.Name+" any more, but it is still there")
			return
		}
	}
	for _, s := range append(wantKept, wantAdded...) {
		if !out[s] {
			fail("used-import-removed", "import "+s.String()+" must be there afterwards (still referred to, required by a context line, or added)")
			return
		}
	}
	for s := range in {
		if s.Path != P && !out[s] {
			fail("unmentioned-import-lost", "import "+s.String())
			return
		}
	}
	res.Ob("same-path-listed-twice", 1)
	res.Sig("same-path-twice", use2, strings.Contains(patch, "\n import"))
}

func runC11(ctx *core.Ctx, idx int) *core.Result {
	res := &core.Result{}
	if idx%40 == 9 {
		c11SamePathTwice(ctx, idx, res)
		return res
	}
	r := ctx.Rand("c11", idx)
	p := c11Patches[idx%len(c11Patches)]
	pathP, pn, qn := c11P, "foo", "bar"
	if (idx/len(c11Patches))%3 == 1 {
		qn = "v0"
		// import paths whose last element looks like a version: "example.com/api/core/v1" is package v1
		pathP, pn = "example.com/api/core/v1", "v1"
		p = c11Variant(p, pathP, "example.com/api/apps/v0", "v1", "v0")
	}
	if (idx/len(c11Patches))%3 == 2 && idx%2 == 0 {
		// import paths whose last element is not the name of the package ("gopkg.in/yaml.v2" is package yaml): the name
		// of an unnamed import can only be guessed from the path, and the guess names nothing in the file
		qn = "json"
		pathP, pn = "gopkg.in/old/yaml.v2", "yaml"
		p = c11Variant(p, pathP, "gopkg.in/new/json.v3", "yaml", "json")
	}
	var srcs, forms, usesCls []string
	var bystanders []bool
	var extraNames []map[string]string
	for f := 0; f < 4; f++ {
		// form of the affected import in the file
		form := []string{"unnamed", "named-f", "named-foo", "absent", "unnamed", "named-f", "named-like-new-path"}[r.Intn(7)]
		if (strings.HasPrefix(p.Name, "replace-any-driver") || strings.HasPrefix(p.Name, "any-to-blank")) && r.Intn(2) == 0 {
			form = []string{"blank", "dot"}[r.Intn(2)]
		}
		var specs []impSpec
		name := pn
		switch form {
		case "blank":
			specs = append(specs, impSpec{"_", pathP})
			name = "_"
		case "dot":
			specs = append(specs, impSpec{".", pathP})
			name = "."
		case "unnamed":
			specs = append(specs, impSpec{"", pathP})
		case "named-f":
			specs = append(specs, impSpec{"f", pathP})
			name = "f"
		case "named-foo":
			specs = append(specs, impSpec{pn, pathP})
		case "named-like-new-path":
			// the file's name for the old path is the last element of the new path: a captured name stays a name
			specs = append(specs, impSpec{qn, pathP})
			name = qn
		}
		// a second import of the affected path under a name the patch does not ask for (a blank side-effect import): it is
		// not the one the patch matches and stays, wherever it stands
		bystander := false
		hasMeta := false
		for _, l := range [][]impSpec{p.Minus, p.Ctx} {
			for _, sp := range l {
				hasMeta = hasMeta || sp.Name == "$"
			}
		}
		if form != "absent" && !hasMeta && len(p.Minus)+len(p.Ctx) > 0 && r.Intn(5) == 0 {
			specs = append(specs, impSpec{"_", pathP})
			bystander = true
		}
		bystanders = append(bystanders, bystander)
		// the path of an unnamed '+' import is already imported under a name of its own
		for _, sp := range p.Plus {
			if sp.Name == "" && sp.Path != pathP && r.Intn(6) == 0 {
				specs = append(specs, impSpec{"qalias", sp.Path})
			}
		}
		extraName := map[string]string{}
		for _, ep := range p.Extra {
			en := []string{"", "opts", "qq"}[r.Intn(3)]
			extraName[ep] = en
			specs = append(specs, impSpec{en, ep})
		}
		others := append([]impSpec{}, c11Others...)
		r.Shuffle(len(others), func(i, j int) { others[i], others[j] = others[j], others[i] })
		no := r.Intn(9)
		specs = append(specs, others[:no]...)
		if no > 0 && r.Intn(4) == 0 {
			specs = append(specs, others[0]) // exact duplicate
		}
		r.Shuffle(len(specs), func(i, j int) { specs[i], specs[j] = specs[j], specs[i] })
		var body strings.Builder
		ns := 1 + r.Intn(3)
		for i := 0; i < ns; i++ {
			fmt.Fprintf(&body, "\tuse(%s)\n", p.Site(name, r))
		}
		useCls := "none"
		shadow := ""
		if form != "absent" && form != "blank" && form != "dot" {
			switch r.Intn(7) {
			case 0:
				fmt.Fprintf(&body, "\t%s.Unrelated()\n", name)
				useCls = "elsewhere"
			case 1:
				useCls = "only-in-site"
			case 2:
				fmt.Fprintf(&body, "\tuse(%s.DefaultThing.Member)\n", name)
				useCls = "elsewhere-chained-selector"
			case 3:
				fmt.Fprintf(&body, "\t_ = %s.NewThing(nil).String()\n", name)
				useCls = "elsewhere-method-on-call"
			case 4:
				fmt.Fprintf(&body, "\tvar vt %s.Type\n\tuse(vt, []*%s.Other{}, func(a %s.Arg) {})\n", name, name, name)
				useCls = "elsewhere-in-types"
			case 5:
				// no reference to the package is left, but a local variable of the same name is used as a selector base
				shadow = fmt.Sprintf("\nfunc fnShadow() {\n\t%s := mkLocal()\n\t%s.Info(\"done\")\n\tuse(%s.field.sub)\n}\n", name, name, name)
				useCls = "only-a-shadowing-local"
			}
		}
		for ep, en := range extraName {
			if r.Intn(2) == 0 {
				n := en
				if n == "" {
					n = baseName(ep)
				}
				fmt.Fprintf(&body, "\t%s.StillUsed()\n", n)
			}
		}
		extraNames = append(extraNames, extraName)
		// keep the other named imports "used"
		for _, s := range specs {
			if _, isExtra := extraName[s.Path]; isExtra || s.Path == pathP || s.Name == "_" || s.Name == "." {
				continue
			}
			n := s.Name
			if n == "" {
				n = baseName(s.Path)
			}
			if r.Intn(3) > 0 {
				fmt.Fprintf(&body, "\t%s.Use()\n", n)
			}
		}
		pre := ""
		if p.Pre != "" && r.Intn(2) == 0 {
			pre = p.Pre
		}
		src := "package p\n\n" + renderImports(specs, r) + "\n" + pre + "func fnMain() {\n" + body.String() + "}\n" + shadow
		srcs = append(srcs, src)
		forms = append(forms, form)
		usesCls = append(usesCls, useCls)
	}
	paths := [][]engineRun{applyAPI(p.Text, srcs)}
	pnames := []string{"api"}
	if idx%6 == 0 {
		runs, _ := applyCLI(ctx, p.Text, srcs)
		paths = append(paths, runs)
		pnames = append(pnames, "cli")
	}
	for pi, runs := range paths {
		for i, src := range srcs {
			res.Evals++
			run := runs[i]
			rep := replayFiles(p.Text, src, run.Out)
			if run.Pan != "" {
				res.Violate("C11/engine-panic:"+core.PanicSignature(run.Pan), run.Pan, rep)
				continue
			}
			if run.Err != "" {
				res.Violate("C11/engine-error", fmt.Sprintf("[%s] %s: %s", p.Name, forms[i], run.Err), rep)
				continue
			}
			if run.Out == src {
				res.Ob("not-applied", 1)
				continue
			}
			in, _, err1 := importSet(src)
			out, fout, err2 := importSet(run.Out)
			if err1 != nil || err2 != nil {
				res.Violate("C11/unparseable-output", fmt.Sprint(err1, err2), rep)
				continue
			}
			res.Ob("applied:"+pnames[pi], 1)
			// what the file calls the affected import
			fileName := map[string]string{"unnamed": "", "named-f": "f", "named-foo": pn, "named-like-new-path": qn, "blank": "_", "dot": "."}[forms[i]]
			resolve := func(s impSpec) impSpec {
				if s.Name == "$" {
					if en, ok := extraNames[i][s.Path]; ok {
						return impSpec{en, s.Path}
					}
					return impSpec{fileName, s.Path}
				}
				return s
			}
			mentioned := map[string]bool{}
			for _, l := range [][]impSpec{p.Minus, p.Ctx, p.Plus} {
				for _, s := range l {
					mentioned[s.Path] = true
				}
			}
			fail := func(class, detail string) {
				res.Violate("C11/"+class, fmt.Sprintf("[%s path, patch %s, file form %s, uses %s] %s\n  imports in:  %s\n  imports out: %s", pnames[pi], p.Name, forms[i], usesCls[i], detail, setString(in), setString(out)), rep)
			}
			bad := false
			for s := range in {
				if !mentioned[s.Path] && !out[s] {
					fail("unmentioned-import-lost", "import "+s.String()+" is not mentioned by the patch but is missing from the output")
					bad = true
					break
				}
			}
			if bad {
				continue
			}
			if bystanders[i] && !out[impSpec{"_", pathP}] {
				fail("unmentioned-import-lost", "the blank import of "+pathP+" is not the import the patch matches (another spec of the same path is) but it is missing from the output")
				continue
			}
			plusSet := map[impSpec]bool{}
			taken := map[string]bool{}
			for _, s := range p.Plus {
				rs := resolve(s)
				plusSet[rs] = true
				n := rs.Name
				if n == "" {
					n = baseName(rs.Path)
				}
				if s.Name == "$" {
					n = pn // the metavariable's own name stands for the package when unnamed
					if fileName != "" {
						n = fileName
					}
				}
				taken[n] = true
				if !out[rs] {
					fail("plus-import-missing", "import "+rs.String()+" is on a '+' line but is not in the output under that name")
					bad = true
				}
			}
			if bad {
				continue
			}
			for s := range out {
				if !in[s] && !plusSet[s] {
					fail("import-added", "import "+s.String()+" appears in the output but is neither in the input nor on a '+' line")
					bad = true
					break
				}
			}
			if bad {
				continue
			}
			for _, s := range p.Minus {
				rs := resolve(s)
				n := rs.Name
				if n == "" {
					n = baseName(rs.Path)
					if s.Name == "$" && rs.Path == pathP {
						n = pn // an unnamed import matched by a metavariable goes by the metavariable's own spelling
					}
				}
				stillUsed := usesName(fout, n)
				if plusSet[rs] {
					continue // re-added under the same name and path
				}
				switch {
				case (taken[n] || !stillUsed) && out[rs]:
					fail("minus-import-kept", fmt.Sprintf("import %s is on a '-' line, the output %s, but the import is still there", rs, map[bool]string{true: "gives its name to a '+' import", false: "no longer refers to " + n}[taken[n]]))
					bad = true
				case !taken[n] && stillUsed && !out[rs]:
					fail("used-import-removed", fmt.Sprintf("import %s was removed although the output still refers to %s", rs, n))
					bad = true
				}
			}
			if bad {
				continue
			}
			for _, s := range p.Ctx {
				rs := resolve(s)
				n := rs.Name
				if n == "" {
					n = baseName(rs.Path)
					if s.Name == "$" && rs.Path == pathP {
						n = pn
					}
				}
				if usesName(fout, n) && !out[rs] {
					fail("used-import-removed", fmt.Sprintf("matched import %s was removed although the output still refers to %s", rs, n))
					bad = true
				} else if !out[rs] {
					// an import on a context line is on the '+' side as much as on the '-' side: the patch requires
					// it and keeps it (whether the file still uses it cannot be told from its path)
					fail("context-import-removed", fmt.Sprintf("import %s stands on a context line of the patch but is not in the output", rs))
					bad = true
				}
			}
			if bad {
				continue
			}
			unmentioned := 0
			for s := range in {
				if !mentioned[s.Path] {
					unmentioned++
				}
			}
			if unmentioned > 0 {
				res.Sig(p.Name, forms[i], usesCls[i], core.HashStr(setString(in)))
			}
			if pi == 0 && i == 0 {
				res.Sample(map[string]any{"patch": p.Text, "input": src, "imports_out": setString(out)})
			}
		}
	}
	return res
}
