package main

import (
	"fmt"
	"os"
	"strings"

	"verif/harness/core"
	"verif/harness/gen"
	"verif/harness/ref"
)

// semBatch runs one change against several generated files through the API and (every
// cliEvery-th case) the CLI, judging each run with the reference model.
func semBatch(ctx *core.Ctx, idx int, res *core.Result, c *gen.Change, srcs []string, sigExtra []string, viaCLI bool, prop string) {
	semBatchSeq(ctx, idx, res, []*gen.Change{c}, srcs, sigExtra, viaCLI, prop)
}

// semBatchSeq is semBatch for a patch consisting of several changes.
func semBatchSeq(ctx *core.Ctx, idx int, res *core.Result, cs []*gen.Change, srcs []string, sigExtra []string, viaCLI bool, prop string) {
	var pats []*ref.Pattern
	var pts []string
	skel := ""
	for _, c := range cs {
		pat, err := c.RefPattern()
		if err != nil {
			res.Inconcl++
			res.Ob("inconclusive:pattern-outside-fragment", 1)
			return
		}
		pats = append(pats, pat)
		pts = append(pts, c.PatchText())
		skel += c.Skeleton()
	}
	c := cs[len(cs)-1]
	pt := strings.Join(pts, "\n")
	if os.Getenv("VERIF_DUMP") != "" {
		fmt.Fprintf(os.Stderr, "=== case %d schema %s\n%s\n", idx, c.Schema, pt)
	}
	paths := [][]engineRun{applyAPI(pt, srcs)}
	names := []string{"api"}
	if viaCLI {
		runs, _ := applyCLI(ctx, pt, srcs)
		paths = append(paths, runs)
		names = append(names, "cli")
	}
	for pi, runs := range paths {
		for i, src := range srcs {
			run := runs[i]
			v := judgeSeq(pats, src, runs[i], addedImports(cs...)...)
			res.Evals++
			res.Ob("runs:"+names[pi], 1)
			if v.Inconcl != "" {
				res.Inconcl++
				res.Ob("inconclusive:"+strings.SplitN(v.Inconcl, ":", 2)[0], 1)
				continue
			}
			res.Ob("sites-predicted", v.Stats.Sites)
			res.Ob("nested-instances-dontcare", v.Stats.Nested)
			res.Ob("later-instances-dontcare", v.Stats.Later)
			res.Ob("misfit-sites", v.Stats.Misfit)
			if v.Stats.Sites > 0 {
				res.Ob("files-with-sites", 1)
			} else {
				res.Ob("files-without-sites", 1)
			}
			ex := ""
			if i < len(sigExtra) {
				ex = sigExtra[i]
			}
			if v.Stats.Sites > 0 || ex != "" {
				res.Sig(skel, v.Stats.SiteKinds, ex)
			}
			if v.Class == "engine-error" && strings.Contains(src, gen.RelayoutComment) && strings.Contains(run.Err, ": ") && !strings.HasPrefix(run.Err, "patch rejected") {
				// Known finding (DESIGN section 6): in a site that spans several lines, a comment that trails replaced
				// code stays behind on its old line; go/printer breaks the line in front of it and the result does not
				// parse, so the file is rejected instead of rewritten. Decidable signature: the error is a parse error
				// of the output, and the same source without the relayout marker comments (only those) is rewritten
				// exactly as the reference expects.
				src2 := strings.ReplaceAll(src, gen.RelayoutComment, "")
				if r2 := applyAPI(pt, []string{src2}); len(r2) == 1 {
					if v2 := judgeSeq(pats, src2, r2[0], addedImports(cs...)...); v2.Class == "" && v2.Inconcl == "" && v2.Stats.Sites > 0 {
						v.Class = "comment-after-replaced-code-breaks-multi-line-rewrite"
					}
				}
			}
			if v.Class != "" {
				res.Violate(prop+"/"+v.Class, fmt.Sprintf("[%s path, schema %s] %s", names[pi], c.Schema, v.Detail), replayFiles(pt, src, v.Out))
			} else if i == 0 && pi == 0 && v.Stats.Sites > 0 {
				res.Sample(map[string]any{"patch": pt, "input": core.Trunc(src, 1500), "output": core.Trunc(v.Out, 1500), "sites": v.Stats.Sites})
			}
		}
	}
}

// followUpChain: changes of one patch of which the later ones match only code that the earlier ones wrote (names that
// occur nowhere in the file as it was read; code of which every token was produced by one rewrite), with the plants
// they start from. The operands are names of equal length.
func followUpChain(g *gen.G, variant int) ([]*gen.Change, []gen.Plant, string) {
	q, p := gen.MetaVar{Name: "cq", Kind: "expression"}, gen.MetaVar{Name: "cp", Kind: "expression"}
	mk := func(schema string, metas []gen.MetaVar, minus, plus string) *gen.Change {
		return &gen.Change{Kind: "expr", Schema: schema, Meta: metas, Lines: []gen.Line{gen.L('-', minus), gen.L('+', plus)}}
	}
	names := [][2]string{{"lo", "hi"}, {"a", "b"}, {"left", "rite"}, {"x1", "y1"}}
	var plants []gen.Plant
	plant := func(format string) {
		for i := 0; i < 1+g.R.Intn(2); i++ {
			n := names[g.R.Intn(len(names))]
			plants = append(plants, gen.Plant{Kind: "expr", Text: fmt.Sprintf(format, n[0], n[1])})
		}
	}
	switch variant % 9 {
	case 8:
		// an earlier change reproduces one elided run in two places; a later change matches an element of that run as
		// a whole: both copies are sites
		for i := 0; i < 1+g.R.Intn(2); i++ {
			n := names[g.R.Intn(len(names))]
			plants = append(plants, gen.Plant{Kind: "stmts", Text: fmt.Sprintf("dupLog(\"m\", oldSub(%s), %s)", n[0], n[1])})
		}
		return []*gen.Change{
			{Kind: "stmts", Schema: "c01-chain-1", Lines: []gen.Line{gen.L('-', "dupLog(‹1:args›)"), gen.L('+', "dupLog(‹1:args›)"), gen.L('+', "dupAudit(‹1:args›)")}},
			mk("c01-chain-2", []gen.MetaVar{q}, "oldSub(«cq»)", "newSince(«cq»)"),
		}, plants, "matches-an-element-of-a-run-reproduced-twice"
	case 7:
		// ... and matches an element that an earlier change generated behind an elision, also where the elided run
		// was empty
		plant("chainOld()%.0s%.0s")
		plant("chainOld(%s)%.0s")
		plant("chainOld(%s, %s)")
		return []*gen.Change{
			mk("c01-chain-1", nil, "chainOld(‹1:args›)", "chainMid(‹1:args›, nil)"),
			mk("c01-chain-2", nil, "chainMid(‹1:args›, nil)", "chainNew(‹1:args›, 0)"),
		}, plants, "matches-an-element-generated-behind-an-elision"
	case 6:
		// a later change elides, and reproduces, arguments that an earlier change generated next to captured ones
		plant("chainOld(%s, %s)")
		return []*gen.Change{
			mk("c01-chain-1", []gen.MetaVar{q, p}, "chainOld(«cq», «cp»)", "chainMid(ctxv, «cq», nil, «cp»)"),
			mk("c01-chain-2", nil, "chainMid(ctxv, ‹1:args›)", "chainNew(ctxv, ‹1:args›)"),
		}, plants, "elides-arguments-an-earlier-change-generated"
	case 4:
		// an earlier change tries its metavariable on a node, fails there, and rewrites a site inside that node; a later
		// change binds the node: it stands for the code as it is now
		plant("newServer(%s.Close()).Run(%s)")
		return []*gen.Change{
			mk("c01-chain-1", []gen.MetaVar{q}, "«cq».Close()", "«cq».Shutdown()"),
			mk("c01-chain-2", []gen.MetaVar{q, p}, "«cq».Run(«cp»)", "run(«cq», «cp»)"),
		}, plants, "binds-a-node-an-earlier-change-tried-and-rewrote-inside"
	case 5:
		// the same, and the later change compares two such nodes: after the earlier changes they differ (or agree)
		for i := 0; i < 1+g.R.Intn(2); i++ {
			n := names[g.R.Intn(len(names))]
			plants = append(plants, gen.Plant{Kind: "expr", Text: fmt.Sprintf("wrapG(%s.V1()).Equal(wrapG(%s.V0()))", n[0], n[0])})
			plants = append(plants, gen.Plant{Kind: "expr", Text: fmt.Sprintf("wrapG(%s.V2()).Equal(wrapG(%s.V1()))", n[1], n[1])})
		}
		return []*gen.Change{
			mk("c01-chain-1", []gen.MetaVar{q}, "«cq».V1()", "«cq».V2()"),
			mk("c01-chain-2", []gen.MetaVar{q}, "«cq».V0()", "«cq».V1()"),
			mk("c01-chain-3", []gen.MetaVar{p}, "«cp».Equal(«cp»)", "sameBoth(«cp»)"),
		}, plants, "compares-nodes-earlier-changes-tried-and-rewrote-inside"
	case 0:
		plant("chainOld(%s, %s)")
		return []*gen.Change{
			mk("c01-chain-1", []gen.MetaVar{q, p}, "chainOld(«cq», «cp»)", "chainMid(«cp», «cq»)"),
			mk("c01-chain-2", []gen.MetaVar{q, p}, "chainMid(«cq», «cp»)", "chainNew(«cq», «cp»)"),
		}, plants, "name-only-an-earlier-change-writes"
	case 1:
		plant("both(%s, %s)")
		return []*gen.Change{
			mk("c01-chain-1", []gen.MetaVar{q, p}, "both(«cq», «cp»)", "pair(one(«cq»), one(«cp»))"),
			mk("c01-chain-2", []gen.MetaVar{q}, "one(«cq»)", "single(«cq»)"),
		}, plants, "two-sites-in-code-one-rewrite-wrote"
	case 2:
		// the later change must not apply: its repeated metavariable would stand for two different names
		plant("mk3(%s, %s)")
		return []*gen.Change{
			mk("c01-chain-1", []gen.MetaVar{q, p}, "mk3(«cq», «cp»)", "tri(«cq», «cp», «cq»)"),
			mk("c01-chain-2", []gen.MetaVar{q, p}, "tri(«cq», «cp», «cp»)", "two(«cq», «cp»)"),
		}, plants, "repeated-metavariable-in-code-one-rewrite-wrote"
	default:
		plant("mk3(%s, %s)")
		return []*gen.Change{
			mk("c01-chain-1", []gen.MetaVar{q, p}, "mk3(«cq», «cp»)", "tri(«cq», «cp», «cq»)"),
			mk("c01-chain-2", []gen.MetaVar{q, p}, "tri(«cq», «cp», «cq»)", "two(«cq», «cp»)"),
		}, plants, "repeated-metavariable-in-code-one-rewrite-wrote"
	}
}

func init() {
	core.Register(&core.Prop{
		ID:    "C01",
		Level: "exploration",
		Rule: "cases: (pattern, file) pairs; pattern from the random expression-pattern generator or the schema library (statement, function-, type-, value-declaration patterns); " +
			"file generated with 0-6 planted instances and 0-6 token-level near-misses at random expression/statement/declaration slots and nesting depths. " +
			"Every run (library API; CLI for every 8th pattern) is judged by the reference rewriting: output tree must be in the acceptable set. " +
			"non-trivial = the reference finds >=1 site or the file contains >=1 near-miss; distinct = hash(pattern skeleton, slot kinds of sites, near-miss edit kinds).",
		Assumptions: []string{
			"reference model (ref/) implements the documented semantics; nested and later instances are don't-care",
			"go/parser and go/printer are trusted; ParenExpr nodes are elided when comparing outputs",
		},
		Cases: func(tier string) int {
			if tier == "thorough" {
				return 40000
			}
			return 4000
		},
		Floor: func(tier string) int { return 300 },
		Run:   runC01,
	})
}

func runC01(ctx *core.Ctx, idx int) *core.Result {
	res := &core.Result{}
	r := ctx.Rand("c01", idx)
	g := gen.NewG(r)
	g.Comment = r.Intn(3) == 0
	if idx%500 == 77 {
		// a loop pattern with a written init / post statement never rewrites a loop with another one (shared with C04)
		forWrittenHeaderCase(ctx, idx/500, res, "C01")
		caseClauseCase(ctx, idx/500, res, "C01")
	}
	c := g.RandomChange()
	if idx%3 == 1 {
		// pattern abstracted from a generated code fragment: reaches every node kind on both sides
		if ac := g.AbstractChange([]string{"expr", "stmts", "decl"}[(idx/3)%3]); ac != nil {
			c = ac
			res.Ob("patterns:abstracted-from-code:"+ac.Kind, 1)
		}
	}
	if idx%6 == 5 {
		if runC01Corpus(ctx, idx, res, g) {
			return res
		}
	}
	if idx%7 == 3 {
		// the patch also adds an import (files without an import declaration get a new declaration in front)
		withAddedImport(c)
		res.Ob("patterns:with-added-import", 1)
	}
	var srcs, extra []string
	nfiles := 5
	// every 10th case: a second change in the same patch file uses, as an ordinary name, a name that the first one
	// declares as a metavariable; it matches that name only
	var lit *gen.Change
	litName := ""
	if idx%10 == 7 && idx%7 != 3 && len(c.Meta) > 0 && c.Kind != "decl" {
		litName = c.Meta[r.Intn(len(c.Meta))].Name
		if !strings.ContainsAny(litName, "«»") && litName != "_" {
			lit = &gen.Change{Kind: "expr", Schema: "c01-literal-use-of-neighbours-metavariable",
				Lines: []gen.Line{gen.L('-', "litUse("+litName+", 1)"), gen.L('+', "litUsed("+litName+")")}}
		}
	}
	// every 10th case: two more changes in the same patch file, the second of which matches only what the first wrote
	var chain []*gen.Change
	var chainPlants []gen.Plant
	chainWord := ""
	if idx%10 == 2 && idx%7 != 3 {
		chain, chainPlants, chainWord = followUpChain(g, idx/10)
	}
	for f := 0; f < nfiles; f++ {
		plants, kinds := g.InstancePlants(c, r.Intn(4), r.Intn(4))
		if chain != nil {
			plants = append(plants, chainPlants...)
			kinds = append(kinds, chainWord)
		}
		if lit != nil {
			for i := 0; i < 1+r.Intn(3); i++ {
				arg := litName
				if r.Intn(2) == 0 {
					arg = g.Atom()
				}
				plants = append(plants, gen.Plant{Kind: "expr", Text: "litUse(" + arg + ", 1)"})
			}
			kinds = append(kinds, "literal-use")
		}
		srcs = append(srcs, g.File(gen.FileOpts{Plants: plants}))
		extra = append(extra, strings.Join(kinds, ","))
	}
	if lit != nil {
		seq := []*gen.Change{c, lit}
		if r.Intn(2) == 0 {
			seq = []*gen.Change{lit, c}
		}
		res.Ob("patterns:with-literal-use-of-neighbours-metavariable", 1)
		semBatchSeq(ctx, idx, res, seq, srcs, extra, idx%8 == 0, "C01")
		return res
	}
	if chain != nil {
		seq := append([]*gen.Change{c}, chain...)
		if r.Intn(2) == 0 {
			seq = append(append([]*gen.Change{}, chain...), c)
		}
		res.Ob("patterns:with-follow-up-changes:"+chainWord, 1)
		semBatchSeq(ctx, idx, res, seq, srcs, extra, idx%8 == 0, "C01")
		return res
	}
	semBatch(ctx, idx, res, c, srcs, extra, idx%8 == 0, "C01")
	return res
}

// runC01Corpus abstracts a pattern from a fragment of a real source file (standard library)
// and applies it to that file and two others: the fragment itself is an instance, whatever
// else matches is for the reference to say.
func runC01Corpus(ctx *core.Ctx, idx int, res *core.Result, g *gen.G) bool {
	files := Corpus()
	if len(files) == 0 {
		return false
	}
	r := g.R
	kind := []string{"expr", "stmts", "decl"}[(idx/6)%3]
	for try := 0; try < 8; try++ {
		b, err := os.ReadFile(files[r.Intn(len(files))])
		if err != nil || !gen.Parses(string(b)) || len(b) > 60_000 {
			continue
		}
		fr := g.CorpusFragment(kind, b)
		if fr == "" {
			continue
		}
		c := g.AbstractFrom(kind, fr)
		if c == nil {
			continue
		}
		srcs := []string{string(b)}
		extra := []string{"corpus-origin"}
		for len(srcs) < 3 {
			if b2, err := os.ReadFile(files[r.Intn(len(files))]); err == nil && gen.Parses(string(b2)) && len(b2) < 60_000 {
				srcs = append(srcs, string(b2))
				extra = append(extra, "corpus-other")
			}
		}
		res.Ob("patterns:abstracted-from-corpus:"+kind, 1)
		semBatch(ctx, idx, res, c, srcs, extra, idx%48 == 5, "C01")
		return true
	}
	return false
}
