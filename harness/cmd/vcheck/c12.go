package main

import (
	"fmt"
	"os"
	"path/filepath"
	"regexp"
	"sort"
	"strconv"
	"strings"

	"verif/harness/core"
	"verif/harness/gen"
)

var hunkRe = regexp.MustCompile(`^@@ -(\d+)(?:,(\d+))? \+(\d+)(?:,(\d+))? @@`)

// applyUnifiedDiffs applies the concatenated unified diffs in text to the originals
// (name -> content). Context and '-' lines must match the original exactly.
func applyUnifiedDiffs(text string, orig map[string]string) (map[string]string, error) {
	out := map[string]string{}
	lines := strings.Split(text, "\n")
	if len(lines) > 0 && lines[len(lines)-1] == "" {
		lines = lines[:len(lines)-1]
	}
	i := 0
	for i < len(lines) {
		if !strings.HasPrefix(lines[i], "--- ") {
			return nil, fmt.Errorf("line %d: expected '--- name', got %q", i+1, lines[i])
		}
		name := strings.TrimPrefix(lines[i], "--- ")
		if i+1 >= len(lines) || !strings.HasPrefix(lines[i+1], "+++ ") {
			return nil, fmt.Errorf("line %d: expected '+++ name'", i+2)
		}
		i += 2
		src, ok := orig[name]
		if !ok {
			return nil, fmt.Errorf("diff for unknown file %q", name)
		}
		if _, dup := out[name]; dup {
			return nil, fmt.Errorf("two diffs for %q", name)
		}
		ol := strings.SplitAfter(src, "\n") // every line keeps its terminator; the last one may lack it
		if len(ol) > 0 && ol[len(ol)-1] == "" {
			ol = ol[:len(ol)-1]
		}
		var res []string
		pos := 0 // index into ol
		for i < len(lines) && strings.HasPrefix(lines[i], "@@") {
			m := hunkRe.FindStringSubmatch(lines[i])
			if m == nil {
				return nil, fmt.Errorf("bad hunk header %q", lines[i])
			}
			start, _ := strconv.Atoi(m[1])
			if m[2] == "0" {
				start++ // "-l,0" names the line after which text is inserted
			}
			if start-1 < pos || start-1 > len(ol) {
				return nil, fmt.Errorf("%s: hunk %q out of order/range", name, lines[i])
			}
			res = append(res, ol[pos:start-1]...)
			pos = start - 1
			i++
			for i < len(lines) && !strings.HasPrefix(lines[i], "@@") && !strings.HasPrefix(lines[i], "--- ") {
				l := lines[i]
				if l == "" {
					l = " "
				}
				switch l[0] {
				case ' ':
					if pos >= len(ol) || ol[pos] != l[1:]+"\n" {
						return nil, fmt.Errorf("%s: context line %q does not match original line %d", name, l[1:], pos+1)
					}
					res = append(res, ol[pos])
					pos++
				case '-':
					if pos >= len(ol) || ol[pos] != l[1:]+"\n" {
						return nil, fmt.Errorf("%s: removed line %q does not match original line %d", name, l[1:], pos+1)
					}
					pos++
				case '+':
					res = append(res, l[1:]+"\n")
				case '\\':
					return nil, fmt.Errorf("%s: no-newline marker not supported by this applier", name)
				default:
					return nil, fmt.Errorf("%s: unexpected diff line %q", name, l)
				}
				i++
			}
		}
		res = append(res, ol[pos:]...)
		s := strings.Join(res, "")
		out[name] = s
	}
	return out, nil
}

var c12Patches = []string{
	"# bump it\n@@\nvar x expression\n@@\n-bump(x)\n+bump(x + 1)\n",
	"@@\nvar x, y expression\n@@\n-pair(x, y)\n+pair(y, x)\n",
	"# inline\n# errors\n@@\nvar e identifier\nvar x expression\n@@\n-e = x\n-if e != nil {\n+if e := x; e != nil {\n   return ..., e\n }\n",
	"@@\nvar f identifier\n@@\n-func f() int {\n+func f() (int, error) {\n   ...\n }\n",
	"# use new import\n@@\nvar x expression\n@@\n+import \"example.com/new/bar\"\n\n-legacy(x)\n+bar.New(x)\n",
	"@@\n@@\n-oldName\n+newName\n\n@@\nvar x expression\n@@\n-bump(x)\n+bump(x + 1)\n",
	// two changes that touch neighbouring code with comments around: the second one deletes the statement in front of
	// what the first one rewrote (the changed regions of the second change are relative to the first one's result)
	"@@\nvar x expression\n@@\n-chainFoo(x)\n+chainBar(x)\n\n@@\nvar x expression\n@@\n-chainDrop()\n chainBar(x)\n\n@@\nvar y expression\n@@\n chainBar(y)\n-chainAfter()\n",
	// an import is removed: whether it may go depends on what still refers to the package, which every mode has to decide alike
	"# drop dep\n@@\nvar x expression\n@@\n-import \"example.com/old/dep\"\n\n-dep.Do(x)\n+do(x)\n",
	// the second, described change matches the files only where its replacement cannot stand: it applies to none of
	// them and its description is never printed
	"# bump it\n@@\nvar x expression\n@@\n-bump(x)\n+bump(x + 1)\n\n# qualify helper\n@@\n@@\n-helperFn\n+util.HelperFn\n",
	// the first change cannot be carried out on some files (an expression where only a name can stand), the second applies
	// to all of them: a file for which the library reports an error is not written, printed or diffed by the CLI either
	"# field access\n@@\nvar x expression\n@@\n-getField(x)\n+cfg.x\n\n# bump it\n@@\nvar x expression\n@@\n-bump(x)\n+bump(x + 1)\n",
}

func init() {
	core.Register(&core.Prop{
		ID:    "C12",
		Level: "exploration",
		Rule: "cases: one patch (9 patches incl. a described change that matches only where its replacement cannot stand, multi-change, import-adding, import-removing with shadowing locals, described) x 1-12 generated/corpus files (layouts incl. CRLF, no final newline, blank lines at the end, long lines; an unparseable file mixed in) x flag set from {--skip-import-processing, --skip-generated, -v}; a fourth run passes --diff and --print-only together (either order) and must not write either; " +
			"the same inputs are run in place, with --print-only and with --diff on separate scratch copies, every 4th case with the dry runs under strace -f, plus the library API. Monitors: (1) syscall monitor: in dry-run modes the set of mutating syscalls " +
			"(open for write/create/truncate, write to a file descriptor other than stdout/stderr, rename, unlink, mkdir, chmod, utimensat, ...) must be empty; (2) tree digest (names, bytes, inode, mtime, ctime) identical before/after a dry run; " +
			"(3) agreement: in-place bytes == --print-only bytes == strict application of the printed unified diff == library bytes; descriptions on stderr only and only for rewritten files. non-trivial = >=1 file of the run is rewritten; distinct = (flag set, files-per-run class, patch, layouts).",
		Assumptions: []string{"library bytes are compared only when import processing is on", "-v log lines on stdout are recognised by their '<abs path>: patched|skipped' form and removed before comparing"},
		Cases: func(tier string) int {
			if tier == "thorough" {
				return 8000
			}
			return 500
		},
		Floor: func(string) int { return 100 },
		Run:   runC12,
	})
}

// c12SiblingCwd: the target lies outside the working directory, in a sibling directory whose name begins with the working
// directory's name (zap / zaptest, api / apiv2). The file that the --diff header and the descriptions name must be the file
// the change applied to: applying the diff from the working directory gives the tree that the default mode writes.
func c12SiblingCwd(ctx *core.Ctx, res *core.Result, idx int) {
	r := ctx.Rand("c12sib", idx)
	pair := [][2]string{{"zap", "zaptest"}, {"foo", "foo_test"}, {"api", "apiv2"}, {"a", "ab"}, {"pkg", "pkg-gen"}, {"x", "x.d"}}[r.Intn(6)]
	base, _ := os.MkdirTemp(ctx.Tmp, "c12sib")
	defer os.RemoveAll(base)
	cwd := filepath.Join(base, pair[0])
	tail := strings.TrimPrefix(pair[1], pair[0])
	tail = strings.TrimLeft(tail, "_-.")
	if tail == "" {
		tail = "t"
	}
	src := "package p\n\nfunc f() int {\n\treturn bump(1)\n}\n"
	for _, d := range []string{cwd, filepath.Join(base, pair[1]), filepath.Join(cwd, tail), filepath.Join(cwd, strings.TrimPrefix(pair[1], pair[0]))} {
		os.MkdirAll(d, 0o755)
	}
	target := filepath.Join(base, pair[1], "x.go")
	decoys := []string{filepath.Join(cwd, tail, "x.go"), filepath.Join(cwd, strings.TrimPrefix(pair[1], pair[0]), "x.go"), filepath.Join(cwd, "x.go")}
	os.WriteFile(target, []byte(src), 0o644)
	for _, d := range decoys {
		os.WriteFile(d, []byte(src), 0o644)
	}
	pt := "# bump it\n@@\nvar x expression\n@@\n-bump(x)\n+bump(x + 1)\n"
	os.WriteFile(filepath.Join(base, "p.patch"), []byte(pt), 0o644)
	arg := []string{"../" + pair[1] + "/x.go", "../" + pair[1], "../" + pair[1] + "/..."}[r.Intn(3)]
	rep := map[string]string{"p.patch": pt, "args.txt": "cwd " + pair[0] + ", argument " + arg}
	resolves := func(name string) bool {
		if !filepath.IsAbs(name) {
			name = filepath.Join(cwd, name)
		}
		return filepath.Clean(name) == target
	}
	for _, mode := range []string{"--diff", "--print-only"} {
		cr := ctx.RunCLI(core.CLIOpts{Dir: cwd, Args: []string{"-p", "../p.patch", mode, arg}})
		res.Evals++
		res.Ob("sibling-cwd-runs", 1)
		rep["stdout.txt"], rep["stderr.txt"] = string(cr.Stdout), string(cr.Stderr)
		if cc := cr.CrashClass(); cc != "" || cr.Exit != 0 {
			res.Violate("C12/nonzero-exit/sibling-directory", fmt.Sprintf("[%s] exit %d: %s", mode, cr.Exit, core.Trunc(string(cr.Stderr), 300)), rep)
			return
		}
		// the description names the file the change applied to
		for _, l := range strings.Split(strings.TrimSpace(string(cr.Stderr)), "\n") {
			if i := strings.LastIndex(l, ":bump it"); i >= 0 {
				if !resolves(l[:i]) {
					res.Violate("C12/description-for-another-file", fmt.Sprintf("[%s, cwd %s, argument %s] the description is reported for %q, which is not the file the change applied to", mode, pair[0], arg, l[:i]), rep)
					return
				}
			} else if strings.TrimSpace(l) != "" {
				res.Violate("C12/unexpected-stderr/sibling-directory", l, rep)
				return
			}
		}
		if mode == "--diff" {
			for _, l := range strings.Split(string(cr.Stdout), "\n") {
				for _, pre := range []string{"--- ", "+++ "} {
					if strings.HasPrefix(l, pre) && !resolves(strings.TrimPrefix(l, pre)) {
						res.Violate("C12/diff-names-another-file", fmt.Sprintf("[cwd %s, argument %s] the diff is headed %q, which is not the file the change applied to", pair[0], arg, l), rep)
						return
					}
				}
			}
			if !strings.Contains(string(cr.Stdout), "+\treturn bump(1 + 1)") {
				res.Violate("C12/diff-missing/sibling-directory", "no hunk for the target", rep)
				return
			}
		}
	}
	res.Sig("sibling-cwd", pair[0], arg)
}

// c12LinkedTwice: one file is reached by two arguments, one of them through a symbolic link to a directory, and the change
// still applies to its own result. Whatever the run does with the two names, the three modes agree: the bytes written in
// place are the bytes --print-only prints, and applying the --diff output to the original gives them too.
func c12LinkedTwice(ctx *core.Ctx, res *core.Result, idx int) {
	r := ctx.Rand("c12link", idx)
	base, _ := os.MkdirTemp(ctx.Tmp, "c12link")
	defer os.RemoveAll(base)
	src := "package sub\n\nfunc f() int {\n\treturn bump(1)\n}\n"
	pt := "@@\nvar x expression\n@@\n-bump(x)\n+bump(x + 1)\n"
	argsets := [][]string{{"real/sub", "link/sub"}, {".", "link/sub"}, {"real/sub/x.go", "link/sub/x.go"}, {"link/sub", "real/..."}, {"link/sub/...", "./..."}, {"link/sub", "real/sub", "link/sub/x.go"}}
	args := argsets[r.Intn(len(argsets))]
	setup := func() string {
		d, _ := os.MkdirTemp(base, "t")
		os.MkdirAll(filepath.Join(d, "real", "sub"), 0o755)
		os.Symlink("real", filepath.Join(d, "link"))
		os.WriteFile(filepath.Join(d, "real", "sub", "x.go"), []byte(src), 0o644)
		os.WriteFile(filepath.Join(d, "p.patch"), []byte(pt), 0o644)
		return d
	}
	rep := map[string]string{"p.patch": pt, "in.go": src, "args.txt": strings.Join(args, " ") + "   (link -> real)"}
	outs := map[string]string{}
	for _, mode := range []string{"--print-only", "--diff", ""} {
		d := setup()
		a := []string{"-p", "p.patch"}
		if mode != "" {
			a = append(a, mode)
		}
		cr := ctx.RunCLI(core.CLIOpts{Dir: d, Args: append(a, args...)})
		res.Evals++
		res.Ob("linked-twice-runs", 1)
		if cc := cr.CrashClass(); cc != "" || cr.Exit != 0 {
			res.Violate("C12/nonzero-exit/file-reached-under-two-names", fmt.Sprintf("[%s] exit %d: %s", mode, cr.Exit, core.Trunc(string(cr.Stderr), 300)), rep)
			return
		}
		now, _ := os.ReadFile(filepath.Join(d, "real", "sub", "x.go"))
		switch mode {
		case "":
			outs["inplace"] = string(now)
		case "--print-only":
			outs["print"] = string(cr.Stdout)
		case "--diff":
			outs["diff"] = string(cr.Stdout)
		}
		if mode != "" && string(now) != src {
			res.Violate("C12/dry-run-wrote/file-reached-under-two-names", mode, rep)
			return
		}
	}
	rep["inplace.go"], rep["print.txt"], rep["diff.txt"] = outs["inplace"], outs["print"], outs["diff"]
	if outs["inplace"] != outs["print"] {
		res.Violate("C12/modes-disagree/file-reached-under-two-names", fmt.Sprintf("[arguments %s] the bytes written in place differ from what --print-only prints", strings.Join(args, " ")), rep)
		return
	}
	if n := strings.Count(outs["diff"], "\n+++ "); n != 1 || !strings.Contains(outs["diff"], "+\treturn bump(1 + 1)") {
		res.Violate("C12/modes-disagree/file-reached-under-two-names", fmt.Sprintf("[arguments %s] --diff prints %d file headers for one file that is written once", strings.Join(args, " "), n), rep)
		return
	}
	res.Sig("linked-twice", strings.Join(args, " "))
}

func runC12(ctx *core.Ctx, idx int) *core.Result {
	res := &core.Result{}
	if idx%10 == 3 {
		c12SiblingCwd(ctx, res, idx)
	}
	if idx%10 == 7 {
		c12LinkedTwice(ctx, res, idx)
	}
	r := ctx.Rand("c12", idx)
	g := gen.NewG(r)
	g.Comment = r.Intn(2) == 0
	pi := r.Intn(len(c12Patches))
	pt := c12Patches[pi]
	nf := 1 + r.Intn(12)
	type fi struct{ name, src, layout string }
	var files []fi
	orig := map[string]string{}
	for f := 0; f < nf; f++ {
		var plants []gen.Plant
		if r.Intn(4) > 0 {
			for i := 0; i < 1+r.Intn(3); i++ {
				switch pi {
				case 9:
					plants = append(plants, gen.Plant{Kind: "expr", Text: "bump(" + g.Atom() + ")"})
					if i == 0 {
						plants = append(plants, gen.Plant{Kind: "expr", Text: []string{"getField(a + b)", "getField(name)", "getField(f())", "getField(fld)"}[f%4]})
					}
				case 0, 5, 8:
					plants = append(plants, gen.Plant{Kind: "expr", Text: "bump(" + g.Atom() + ")"})
				case 1:
					plants = append(plants, gen.Plant{Kind: "expr", Text: "pair(" + g.Atom() + ", " + g.Expr(1, nil) + ")"})
				case 2:
					plants = append(plants, gen.Plant{Kind: "stmts", Text: "err = " + g.Atom() + "\nif err != nil {\n\treturn 0, err\n}"})
				case 3:
					plants = append(plants, gen.Plant{Kind: "decl", Text: fmt.Sprintf("func gen%d_%d() int {\n\treturn %d\n}", f, i, i)})
				case 4:
					plants = append(plants, gen.Plant{Kind: "expr", Text: "legacy(" + g.Atom() + ")"})
				case 7:
					plants = append(plants, gen.Plant{Kind: "expr", Text: "dep.Do(" + g.Atom() + ")"})
				case 6:
					a := g.Atom()
					switch r.Intn(3) {
					case 0:
						plants = append(plants, gen.Plant{Kind: "stmts", Text: "setup()\nchainDrop()\n// about foo\nchainFoo(" + a + ")\nteardown()"})
					case 1:
						plants = append(plants, gen.Plant{Kind: "stmts", Text: "chainFoo(" + a + ")\n// about after\nchainAfter()\nother()"})
					default:
						plants = append(plants, gen.Plant{Kind: "stmts", Text: "// before drop\nchainDrop() // drop it\n// about foo\nchainFoo(" + a + ") // trailing foo\n// about after\nchainAfter() // trailing after\n// kept\nother()"})
					}
				}
			}
		}
		fo := gen.FileOpts{Plants: plants}
		if pi == 8 {
			fo.Plants = append(fo.Plants, gen.Plant{Kind: "decl", Text: fmt.Sprintf("func helperFn%s() {}", map[bool]string{true: "", false: fmt.Sprint(f)}[f == 0])})
			if f%2 == 1 {
				fo.Plants = append(fo.Plants, gen.Plant{Kind: "decl", Text: fmt.Sprintf("type holder%d struct {\n\thelperFn int\n}", f)})
			}
		}
		if pi == 7 {
			fo.Imports = "import (\n\t\"example.com/old/dep\"\n\t\"os\"\n)\n"
			switch r.Intn(4) {
			case 0:
				// a local variable with the name of the package is not a reference to the package
				fo.Plants = append(fo.Plants, gen.Plant{Kind: "decl", Text: fmt.Sprintf("func shadow%d(dep *local) int {\n\treturn dep.Len() + dep.field.n\n}", f)})
			case 1:
				fo.Plants = append(fo.Plants, gen.Plant{Kind: "stmts", Text: "dep := mk()\ndep.Info(1)"})
			case 2:
				fo.Plants = append(fo.Plants, gen.Plant{Kind: "expr", Text: "dep.Other(2)"})
			}
			if r.Intn(3) == 0 {
				// a file that does not import the path at all: the change does not apply to it whatever its code looks
				// like, and it is an unmatched file in every mode (echoed by --print-only, silent otherwise)
				fo.Imports = "import \"os\"\n"
			}
		}
		src := g.File(fo)
		layout := "gofmt-like"
		switch r.Intn(10) {
		case 0:
			src, layout = uglify(src, 2)
		case 1:
			src, layout = uglify(src, 3)
		case 2:
			src, layout = uglify(src, 1)
		case 3:
			src, layout = uglify(src, 6)
		case 4:
			if r.Intn(3) == 0 {
				src += "\nvar long = \"" + strings.Repeat("x", 70000) + "\"\n"
				layout = "line-over-64k"
			}
		case 5:
			src, layout = "package p\n\nfunc broken( {\n", "unparseable"
		case 6:
			if r.Intn(2) == 0 {
				src, layout = uglify(src, 8) // byte order mark
			}
		case 7:
			if pi == 0 && r.Intn(2) == 0 {
				// the whole file on one line: the rewritten file shares no line with it
				src, layout = "package p; func oneLiner() int { return bump(1) }\n", "one-line-file"
			}
		case 8:
			if r.Intn(2) == 0 {
				// blank lines behind the last declaration: the printer drops them, the diff has to say so
				src, layout = src+strings.Repeat("\n", 1+r.Intn(3)), "trailing-blank-lines"
			}
		}
		if layout != "unparseable" && !gen.Parses(src) {
			src, layout = g.File(gen.FileOpts{Plants: plants}), "gofmt-like"
		}
		name := fmt.Sprintf("d%d/f%02d.go", f%3, f)
		files = append(files, fi{name, src, layout})
		orig[name] = src
	}
	var flags []string
	if r.Intn(3) == 0 {
		flags = append(flags, "--skip-import-processing")
	}
	if r.Intn(3) == 0 {
		flags = append(flags, "--skip-generated")
	}
	verbose := r.Intn(4) == 0
	if verbose {
		flags = append(flags, "-v")
	}
	skipImp := len(flags) > 0 && flags[0] == "--skip-import-processing"
	flagWord := strings.Join(flags, " ")
	straced := idx%4 == 0

	setup := func(tag string) string {
		dir, _ := os.MkdirTemp(ctx.Tmp, "c12"+tag)
		os.WriteFile(filepath.Join(dir, "p.patch"), []byte(pt), 0o644)
		for _, f := range files {
			os.MkdirAll(filepath.Join(dir, "tree", filepath.Dir(f.name)), 0o755)
			os.WriteFile(filepath.Join(dir, "tree", f.name), []byte(f.src), 0o644)
		}
		// bystanders: files a tidy-minded tool might be tempted to clean up (leftovers of an interrupted in-place run,
		// editor backups, lock files): a dry run leaves every one of them alone
		for i, f := range files {
			if (i+len(files))%3 != 0 {
				continue
			}
			d, b := filepath.Join(dir, "tree", filepath.Dir(f.name)), filepath.Base(f.name)
			os.WriteFile(filepath.Join(d, "."+b+".2750341986.tmp"), []byte("leftover"), 0o644)
			os.WriteFile(filepath.Join(d, b+".orig"), []byte("backup"), 0o644)
			os.WriteFile(filepath.Join(d, b+"~"), []byte("backup"), 0o644)
			os.WriteFile(filepath.Join(d, ".#"+b+".lock"), []byte("lock"), 0o644)
		}
		return dir
	}
	var names []string
	for _, f := range files {
		names = append(names, f.name)
	}
	sort.Strings(names)
	argNames := append([]string{}, names...)
	r.Shuffle(len(argNames), func(i, j int) { argNames[i], argNames[j] = argNames[j], argNames[i] })
	if r.Intn(3) == 0 {
		argNames = []string{"."}
	}
	rep := map[string]string{"p.patch": pt, "flags.txt": flagWord + " | args: " + strings.Join(argNames, " ")}
	for _, f := range files {
		rep["tree/"+f.name] = f.src
	}

	stripVerbose := func(dir string, out string) string {
		if !verbose {
			return out
		}
		absTree := regexp.QuoteMeta(filepath.Join(dir, "tree"))
		re := regexp.MustCompile(`(generated file )?` + absTree + `/[^\n:]*: (patched|skipped|failed: [^\n]*)\n`)
		return re.ReplaceAllString(out, "")
	}

	// R1: in place
	d1 := setup("a")
	defer os.RemoveAll(d1)
	c1 := ctx.RunCLI(core.CLIOpts{Dir: filepath.Join(d1, "tree"), Args: append(append([]string{"-p", "../p.patch"}, flags...), argNames...)})
	if cc := c1.CrashClass(); cc != "" {
		res.Violate("C12/"+cc, string(c1.Stderr), rep)
		return res
	}
	inplace := map[string]string{}
	rewritten := 0
	for _, n := range names {
		b, _ := os.ReadFile(filepath.Join(d1, "tree", n))
		inplace[n] = string(b)
		if inplace[n] != orig[n] {
			rewritten++
		}
	}
	res.Evals++
	res.Ob("files-in-runs", len(names))
	res.Ob("files-rewritten", rewritten)

	dry := func(tag string, dryFlags ...string) (*core.CLIResult, string, bool) {
		flag := strings.Join(dryFlags, " ")
		d := setup(tag)
		defer os.RemoveAll(d)
		tree := filepath.Join(d, "tree")
		before := core.TreeDigest(d)
		args := append(append(append([]string{"-p", "../p.patch"}, dryFlags...), flags...), argNames...)
		var cr *core.CLIResult
		if straced {
			var evs []core.Sys
			cr, evs, _ = ctx.RunCLIStrace(core.CLIOpts{Dir: tree, Args: args})
			fsev := core.FSTrace(evs, tree)
			res.Ob("strace-dry-runs", 1)
			res.Ob("strace-fs-events-classified", len(fsev))
			for _, e := range fsev {
				if e.Kind == "open-read" {
					res.Ob("strace-open-read", 1)
					continue
				}
				if strings.HasPrefix(e.Path, "/dev/") || strings.HasPrefix(e.Path, "/proc/") || strings.HasPrefix(e.Path, "/sys/") {
					continue
				}
				res.Violate("C12/dry-run-mutating-syscall", fmt.Sprintf("[%s %s] %s", flag, flagWord, e.Raw), rep)
				return cr, "", false
			}
		} else {
			cr = ctx.RunCLI(core.CLIOpts{Dir: tree, Args: args})
		}
		after := core.TreeDigest(d)
		if diff := core.DiffDigests(before, after); len(diff) > 0 {
			res.Violate("C12/dry-run-changed-tree", fmt.Sprintf("[%s %s] %s", flag, flagWord, strings.Join(diff, "; ")), rep)
			return cr, "", false
		}
		if cc := cr.CrashClass(); cc != "" {
			res.Violate("C12/"+cc, string(cr.Stderr), rep)
			return cr, "", false
		}
		return cr, stripVerbose(d, string(cr.Stdout)), true
	}
	c2, printOut, ok2 := dry("b", "--print-only")
	c3, diffOut, ok3 := dry("c", "--diff")
	if !ok2 || !ok3 {
		return res
	}
	// both dry-run flags at once, in either order: still a dry run (nothing on disk may change)
	both := []string{"--diff", "--print-only"}
	if r.Intn(2) == 0 {
		both = []string{"--print-only", "--diff"}
	}
	if c4, _, ok4 := dry("d", both...); !ok4 {
		return res
	} else if (c4.Exit == 0) != (c3.Exit == 0) && (c4.Exit == 0) != (c2.Exit == 0) {
		res.Violate("C12/exit-status-differs-between-modes", fmt.Sprintf("[%s] %s exit %d, --print-only exit %d, --diff exit %d", flagWord, strings.Join(both, " "), c4.Exit, c2.Exit, c3.Exit), rep)
		return res
	}
	res.Ob("runs-with-both-dry-run-flags", 1)
	if (c1.Exit == 0) != (c2.Exit == 0) || (c1.Exit == 0) != (c3.Exit == 0) {
		cls := "exit-status-differs-between-modes"
		for _, f := range files {
			if f.layout == "line-over-64k" && c3.Exit != 0 && c1.Exit == 0 && c2.Exit == 0 {
				cls = "diff-mode/line-too-long"
			}
		}
		res.Violate("C12/"+cls, fmt.Sprintf("[%s] in-place exit %d, --print-only exit %d, --diff exit %d\nstderr(diff): %s", flagWord, c1.Exit, c2.Exit, c3.Exit, core.Trunc(string(c3.Stderr), 300)), rep)
		return res
	}
	// print-only: concatenation in sorted absolute-path order; generated files skipped print nothing
	var want strings.Builder
	hasSkipGen := strings.Contains(flagWord, "--skip-generated")
	for _, n := range names {
		if orig[n] == "package p\n\nfunc broken( {\n" {
			continue
		}
		_ = hasSkipGen
		want.WriteString(inplace[n])
	}
	if printOut != want.String() {
		rep["stdout-print.txt"] = printOut
		res.Violate("C12/print-only-differs-from-in-place", fmt.Sprintf("[%s] --print-only stdout is not the concatenation of the bytes the default mode writes", flagWord), rep)
		return res
	}
	// diff: apply strictly. Names in the diff are the provided (relative) paths.
	applied := map[string]string{}
	diffErr := map[string]string{}
	for _, chunk := range splitDiffs(diffOut) {
		one, err := applyUnifiedDiffs(chunk.text, orig)
		if err != nil {
			diffErr[chunk.name] = err.Error()
			continue
		}
		for k, v := range one {
			applied[k] = v
		}
	}
	for _, f := range files {
		n := f.name
		got, has := applied[n]
		if !has {
			got = orig[n]
		}
		if got != inplace[n] || diffErr[n] != "" {
			cls := "diff-applied-differs-from-in-place"
			if diffErr[n] != "" {
				cls = "diff-not-applicable"
			}
			switch {
			case f.layout == "line-over-64k" && strings.Contains(string(c3.Stderr), "token too long"):
				cls = "diff-mode/line-too-long"
			case f.layout == "one-line-file":
				cls = "diff-mode/no-common-line"
			case strings.Contains(orig[n], "\r\n"):
				cls = "diff-mode/crlf-input"
			case !strings.HasSuffix(orig[n], "\n"):
				cls = "diff-mode/no-final-newline"
			}
			rep["stdout-diff.txt"] = diffOut
			rep["applied.go"] = got
			rep["inplace.go"] = inplace[n]
			res.Violate("C12/"+cls, fmt.Sprintf("[%s, layout %s] applying the printed diff to %s does not give the bytes written in place %s", flagWord, f.layout, n, diffErr[n]), rep)
			continue
		}
		if !skipImp && f.layout != "unparseable" {
			ar := core.ApplyAPI(pt, orig[n])
			if ar.Panic != "" {
				res.Violate("C12/engine-panic:"+core.PanicSignature(ar.Panic), ar.Panic, rep)
			} else if ar.ApplyErr != nil && ar.ParseErr == nil && inplace[n] != orig[n] {
				rep["inplace.go"] = inplace[n]
				res.Violate("C12/written-although-the-library-reports-an-error", fmt.Sprintf("[%s] %s: the library returns no bytes (%v), the default mode rewrote the file", flagWord, n, ar.ApplyErr), rep)
			} else if ar.OK() && string(ar.Out) != inplace[n] {
				isGen := strings.Contains(orig[n], "generated")
				if !(hasSkipGen && isGen) {
					rep["api.go"] = string(ar.Out)
					rep["inplace.go"] = inplace[n]
					res.Violate("C12/api-differs-from-in-place", fmt.Sprintf("[%s] library bytes differ from in-place bytes for %s", flagWord, n), rep)
				}
			}
		}
	}
	// descriptions: stderr only, only for rewritten files
	for _, cr := range []*core.CLIResult{c2, c3} {
		for _, l := range strings.Split(string(cr.Stderr), "\n") {
			for _, n := range names {
				if strings.HasPrefix(l, n+":") && inplace[n] == orig[n] && !strings.Contains(l, "could not") && !strings.Contains(l, "expected") {
					res.Violate("C12/description-for-unchanged-file", l, rep)
				}
			}
		}
		if strings.Contains(string(cr.Stderr), ":qualify helper") {
			res.Violate("C12/description-of-a-change-that-did-not-apply", core.Trunc(string(cr.Stderr), 300), rep)
		}
		if strings.Contains(string(cr.Stdout), ":bump it\n") || strings.Contains(string(cr.Stdout), ":inline\n") {
			res.Violate("C12/description-on-stdout", core.Trunc(string(cr.Stdout), 300), rep)
		}
	}
	if rewritten > 0 {
		var lay []string
		for _, f := range files {
			lay = append(lay, f.layout)
		}
		sort.Strings(lay)
		res.Sig(flagWord, len(files) > 4, pi, strings.Join(lay, ","), argNames[0] == ".")
		res.Sample(map[string]any{"patch": pt, "flags": flagWord, "files": len(files), "rewritten": rewritten, "layouts": lay})
	}
	return res
}

type diffChunk struct{ name, text string }

// splitDiffs splits concatenated unified diffs into one chunk per file.
func splitDiffs(text string) []diffChunk {
	var out []diffChunk
	lines := strings.SplitAfter(text, "\n")
	var cur *diffChunk
	for i, l := range lines {
		if strings.HasPrefix(l, "--- ") && i+1 < len(lines) && strings.HasPrefix(lines[i+1], "+++ ") {
			out = append(out, diffChunk{name: strings.TrimSuffix(strings.TrimPrefix(l, "--- "), "\n")})
			cur = &out[len(out)-1]
		}
		if cur != nil {
			cur.text += l
		}
	}
	return out
}
