package main

import (
	"fmt"
	"strings"

	"verif/harness/core"
	"verif/harness/gen"
	"verif/harness/ref"
)

// repeat templates: metavariables occurring 1-3 times in different list/selector/
// declaration/label/elided positions.
var c02Templates = []struct {
	kind  string
	meta  []gen.MetaVar
	lines []string
	hosts string // "expr" | "stmts" | "decl"
}{
	{"expr", mv2("x", "expression"), []string{"-target(«x», «x»)", "+repl(«x»)"}, ""},
	{"expr", mv2("x", "expression"), []string{"-target(«x», ‹1:args›, «x»)", "+repl(«x», ‹1:args›)"}, ""},
	{"expr", mv2("x", "expression"), []string{"-target(‹1:args›, «x», «x»)", "+repl(‹1:args›, «x»)"}, ""},
	{"expr", mv2("x", "expression", "y", "expression"), []string{"-target(«x», «y», «x», «y»)", "+repl(«y», «x»)"}, ""},
	{"expr", mv2("x", "expression"), []string{"-«x».Tgt == «x»", "+same(«x»)"}, ""},
	{"expr", mv2("x", "identifier"), []string{"-target(«x», «x»)", "+repl(«x»)"}, ""},
	{"expr", mv2("x", "identifier"), []string{"-«x».Tgt(«x»)", "+repl(«x»)"}, ""},
	{"expr", mv2("x", "identifier", "y", "expression"), []string{"-target(«x», «y», «x».F)", "+repl(«y», «x»)"}, ""},
	{"expr", mv2("x", "expression"), []string{"-Tgt{A: «x», B: «x»}", "+Tgt{AB: «x»}"}, ""},
	{"expr", mv2("x", "expression"), []string{"-target(«x»)[«x»]", "+repl(«x»)"}, ""},
	{"stmts", mv2("v", "identifier", "x", "expression"), []string{"-«v» := target(«x»)", "-use(«v»)", "+use(repl(«x»))"}, ""},
	{"stmts", mv2("v", "identifier", "x", "expression"), []string{" «v» := target(«x»)", " ‹1:stmts›", "-use(«v»)", "+used(«v», «x»)"}, ""},
	{"stmts", mv2("v", "identifier"), []string{"-«v» = target(«v»)", "+retarget(&«v»)"}, ""},
	{"stmts", mv2("e", "identifier"), []string{" if «e» != nil {", "-  return tgtWrap(«e»)", "+  return «e»", " }"}, ""},
	{"stmts", mv2("l", "identifier"), []string{"-goto «l»", "+tgtJump(«l»)"}, ""},
	{"decl", mv2("r", "identifier", "T", "identifier"), []string{" func («r» *«T») TgtClone() *«T» {", "-  return tgtCopy(«r»)", "+  return «r».copy()", " }"}, ""},
	{"decl", mv2("f", "identifier", "p", "identifier"), []string{"-func «f»(«p» TgtIn) TgtOut {", "+func «f»(«p» TgtIn, extra int) TgtOut {", "   return tgtConv(«p»)", " }"}, ""},
	{"decl", mv2("N", "identifier"), []string{" type «N» struct {", "-  tgtNext *«N»", "+  next *«N»", " }"}, ""},
	{"decl", mv2("n", "identifier", "v", "expression"), []string{"-var «n», tgtPair = «v», «v»", "+var «n» = «v»"}, ""},
}

func mv2(pairs ...string) []gen.MetaVar {
	var out []gen.MetaVar
	for i := 0; i+1 < len(pairs); i += 2 {
		out = append(out, gen.MetaVar{Name: pairs[i], Kind: pairs[i+1]})
	}
	return out
}

func c02Change(i int) *gen.Change {
	t := c02Templates[i%len(c02Templates)]
	c := &gen.Change{Kind: t.kind, Schema: fmt.Sprintf("c02-%d", i%len(c02Templates)), Meta: t.meta}
	for _, l := range t.lines {
		c.Lines = append(c.Lines, gen.L(l[0], l[1:]))
	}
	return c
}

// substituteOcc replaces the k-th occurrence of «name» with fillers[k] (last filler repeats).
func substituteOcc(tmpl, name string, fillers []string) string {
	ph := "«" + name + "»"
	var sb strings.Builder
	k := 0
	for {
		i := strings.Index(tmpl, ph)
		if i < 0 {
			break
		}
		sb.WriteString(tmpl[:i])
		f := fillers[len(fillers)-1]
		if k < len(fillers) {
			f = fillers[k]
		}
		sb.WriteString(f)
		tmpl = tmpl[i+len(ph):]
		k++
	}
	sb.WriteString(tmpl)
	return sb.String()
}

// fillerVariant derives a filler for a repeated occurrence from the base filler.
func fillerVariant(g *gen.G, base string, rel int, ident bool) (string, string) {
	switch rel {
	case 0:
		return base, "equal"
	case 1:
		if ident {
			return base, "equal"
		}
		return base + " /* c */", "equal-modulo-comment"
	case 2:
		m, kind := g.Mutate(base)
		if kind == "" {
			return base + "Z", "leaf-different"
		}
		return m, "leaf-different:" + kind
	case 3:
		if ident {
			return base + "2", "leaf-different"
		}
		return "(" + base + ")", "parenthesised-copy"
	case 4:
		if ident {
			return "o." + base, "selector-for-identifier"
		}
		return "id(" + base + ")", "deeper-copy"
	default:
		if ident {
			return base + "()", "call-for-identifier"
		}
		return strings.ReplaceAll(base, " ", "  "), "equal-modulo-space"
	}
}

func init() {
	core.Register(&core.Prop{
		ID:    "C02",
		Level: "exploration",
		Rule: "cases: 19 templates with metavariables of both kinds occurring 1-3 times (argument lists, selectors, declaration names, labels, inside and around elisions) x fillers per occurrence in " +
			"relation {equal, equal modulo comment/space, one leaf different, parenthesised copy, deeper copy, selector/call for an identifier metavariable} planted at random slots; " +
			"kind probes (identifier metavariable vs non-identifiers and absent labels); undeclared names spelled like metavariables; judged by the reference model. " +
			"Plus a reference-free metamorphic relation: inserting a failing partial match before a site must not change how the site is rewritten and must stay unchanged itself. " +
			"non-trivial = pattern has a repeated or kind-constrained metavariable and the file has a site or a consistency/kind near-miss; distinct = (template, filler relation vector, slot kinds).",
		Assumptions: []string{"reference model as in C01; syntactic identity of fillers = equal canonical trees (comments, spacing ignored; parentheses significant)"},
		Cases: func(tier string) int {
			if tier == "thorough" {
				return 60000
			}
			return 6000
		},
		Floor: func(string) int { return 300 },
		Run:   runC02,
	})
}

// packageClauseProbe: a name in the package clause of a change is a name, also when the change declares a metavariable
// that is spelled like it: the clause guards the file's package, and the metavariable is bound by the code alone.
func packageClauseProbe(res *core.Result) {
	pt := "@@\nvar p identifier\nvar x expression\n@@\n package p\n\n-register(p, x)\n+registerAll(x)\n"
	for _, c := range []struct {
		src  string
		want bool
	}{
		{"package main\n\nfunc f() {\n\tregister(other, 2)\n}\n", false}, // not package p
		{"package main\n\nfunc f() {\n\tregister(main, 2)\n}\n", false},
		{"package p\n\nfunc f() {\n\tregister(other, 2)\n}\n", true}, // package p; the metavariable is bound by the code
		{"package q\n\nfunc f() {\n\tregister(p, 2)\n}\n", false},
	} {
		run := applyAPI(pt, []string{c.src})[0]
		res.Evals++
		res.Ob("package-clause-probes", 1)
		got := strings.Contains(run.Out, "registerAll(2)")
		if run.Pan != "" || run.Err != "" || got != c.want || (!c.want && run.Out != c.src) {
			res.Violate("C02/package-clause-spelled-like-a-metavariable", fmt.Sprintf("'package p' with 'var p identifier' on %q: rewritten=%v, want %v %s%s", strings.SplitN(c.src, "\n", 2)[0], got, c.want, run.Pan, run.Err), replayFiles(pt, c.src, run.Out))
			return
		}
	}
}

func runC02(ctx *core.Ctx, idx int) *core.Result {
	res := &core.Result{}
	if idx%200 == 77 {
		packageClauseProbe(res)
	}
	r := ctx.Rand("c02", idx)
	g := gen.NewG(r)
	stream := idx % 5
	if stream == 4 {
		kindCensus(ctx, idx, res, g)
		return res
	}
	if idx%35 == 1 {
		// list patterns whose sections share metavariables, on lists with dead-end candidates: what a failed attempt
		// bound must not decide what the next attempt may bind
		c := g.SharedSectionsChange()
		var srcs, extra []string
		for f := 0; f < 4; f++ {
			plants, _ := g.InstancePlants(c, 1+r.Intn(3), r.Intn(2))
			srcs = append(srcs, g.File(gen.FileOpts{Plants: plants}))
			extra = append(extra, "shared-sections")
		}
		semBatch(ctx, idx, res, c, srcs, extra, idx%70 == 1, "C02")
		return res
	}
	if idx%35 == 6 {
		importBindingCase(ctx, idx, res, g)
		return res
	}
	if idx%35 == 11 {
		// a later change of the same patch binds its metavariables in code that one rewrite of an earlier change wrote
		chain, plants, word := followUpChain(g, idx/35)
		var srcs, extra []string
		for f := 0; f < 4; f++ {
			srcs = append(srcs, g.File(gen.FileOpts{Plants: plants}))
			extra = append(extra, word)
		}
		res.Ob("patterns:follow-up-changes:"+word, 1)
		semBatchSeq(ctx, idx, res, chain, srcs, extra, idx%70 == 11, "C02")
		return res
	}
	switch stream {
	case 0, 1:
		c := c02Change(idx / 5)
		minus := c.Side('-')
		var srcs, extra []string
		for f := 0; f < 4; f++ {
			var plants []gen.Plant
			var rels []string
			np := 1 + r.Intn(4)
			for p := 0; p < np; p++ {
				text := minus
				fill := &gen.Fill{Meta: map[string]string{}, Runs: map[string]string{}}
				for _, m := range c.Meta {
					ident := m.Kind == "identifier"
					var base string
					switch {
					case ident && c.Kind == "decl":
						base = fmt.Sprintf("nm%d_%d_%d", f, p, r.Intn(1000))
					case ident:
						base = g.Ident()
					case r.Intn(2) == 0:
						base = g.Atom()
					default:
						base = g.Expr(2, nil)
					}
					n := strings.Count(minus, "«"+m.Name+"»")
					// code in the file that uses a name spelled like a metavariable of the patch is still ordinary code:
					// occurrences that differ in exactly that name are different code
					hot, hotForm := "", ""
					if !ident && n >= 2 && r.Intn(4) == 0 {
						hot = c.Meta[r.Intn(len(c.Meta))].Name
						hotForm = []string{"arr[%s]", "%s.fld", "conv(%s, 1)", "%s + 1", "&%s", "%s"}[r.Intn(6)]
						base = fmt.Sprintf(hotForm, hot)
					}
					// two spellings that mean the same to the type checker and are different code all the same
					// (interface{} and any, byte and uint8, rune and int32, a redundant conversion or parenthesis in a type)
					alias := [2]string{}
					if hot == "" && !ident && n >= 2 && r.Intn(6) == 0 {
						pairs := [][2]string{{"interface{}", "any"}, {"byte", "uint8"}, {"rune", "int32"}, {"[]interface{}", "[]any"}, {"map[string]interface{}", "map[string]any"}, {"func(interface{})", "func(any)"}}
						alias = pairs[r.Intn(len(pairs))]
						if r.Intn(2) == 0 {
							alias[0], alias[1] = alias[1], alias[0]
						}
						hotForm = []string{"conv[%s](v)", "[]%s{v}", "v.(%s)", "make(chan %s, 1)", "func(p %s) {}", "new(%s)"}[r.Intn(6)]
						base = fmt.Sprintf(hotForm, alias[0])
					}
					fillers := []string{base}
					for k := 1; k < n; k++ {
						if alias[0] != "" {
							fv, name := base, "equal-spelling"
							if r.Intn(2) == 0 {
								fv, name = fmt.Sprintf(hotForm, alias[1]), "alias-spelling-differs"
							}
							fillers = append(fillers, fv)
							rels = append(rels, name)
							continue
						}
						rel := 0
						if r.Intn(2) == 0 {
							rel = 1 + r.Intn(5)
						}
						fv, name := fillerVariant(g, base, rel, ident)
						if hot != "" {
							fv, name = base, "equal-with-metavariable-named-identifier"
							if r.Intn(2) == 0 {
								fv, name = fmt.Sprintf(hotForm, "q"+fmt.Sprint(r.Intn(90))), "differs-at-metavariable-named-identifier"
							}
						}
						fillers = append(fillers, fv)
						rels = append(rels, name)
					}
					// kind probe on a single occurrence
					if n == 1 && ident && r.Intn(3) == 0 {
						fv, name := fillerVariant(g, base, 4+r.Intn(2), true)
						fillers[0] = fv
						rels = append(rels, "kind-probe:"+name)
					}
					text = substituteOcc(text, m.Name, fillers)
				}
				// remaining: elisions
				for _, sm := range dotsIn(text) {
					fill.Runs[sm[0]] = g.Run(sm[1], r.Intn(3))
				}
				text = c.Substitute(text, fill)
				if gen.PlantParses(c.Kind, text) {
					plants = append(plants, gen.Plant{Kind: c.Kind, Text: text})
				}
			}
			srcs = append(srcs, g.File(gen.FileOpts{Plants: plants}))
			extra = append(extra, strings.Join(rels, ","))
		}
		semBatch(ctx, idx, res, c, srcs, extra, idx%16 == 0, "C02")
	case 2:
		// undeclared names are ordinary code: the pattern mentions y, which is not declared
		// in this change (but is declared in the next change of the same patch file).
		// (or in the previous one: a metavariable's scope is the change that declares it, in both directions)
		ykind := []string{"expression", "identifier"}[r.Intn(2)]
		c1 := &gen.Change{Kind: "expr", Schema: "c02-undeclared", Meta: mv2("x", "expression"),
			Lines: []gen.Line{gen.L('-', "target(«x», y)"), gen.L('+', "repl(«x», y)")}}
		c2 := &gen.Change{Kind: "expr", Schema: "c02-undeclared-2-" + ykind, Meta: mv2("y", ykind),
			Lines: []gen.Line{gen.L('-', "zzOther(«y»)"), gen.L('+', "zzOther2(«y»)")}}
		seq := []*gen.Change{c1, c2}
		order := "declared-later"
		if r.Intn(2) == 0 {
			seq = []*gen.Change{c2, c1}
			order = "declared-earlier"
		}
		var srcs, extra []string
		for f := 0; f < 4; f++ {
			var plants []gen.Plant
			for p := 0; p < 1+r.Intn(4); p++ {
				second := "y"
				switch r.Intn(4) {
				case 0:
					second = g.Ident()
				case 1:
					second = g.Expr(1, nil)
				}
				plants = append(plants, gen.Plant{Kind: "expr", Text: "target(" + g.Expr(2, nil) + ", " + second + ")"})
			}
			if r.Intn(2) == 0 {
				// the change that declares y is live in this file
				plants = append(plants, gen.Plant{Kind: "expr", Text: "zzOther(" + g.Ident() + ")"})
			}
			srcs = append(srcs, g.File(gen.FileOpts{Plants: plants}))
			extra = append(extra, "undeclared-name-"+order)
		}
		semBatchSeq(ctx, idx, res, seq, srcs, extra, idx%16 == 2, "C02")
		if idx%4 == 2 {
			// an expression metavariable does not stand for 'key: value': go/ast types it as an expression, Go does not
			kv := &gen.Change{Kind: "expr", Schema: "c02-keyed-element-is-not-an-expression", Meta: mv2("x", "expression"),
				Lines: []gen.Line{gen.L('-', "wrapKV(T{«x»})"), gen.L('+', "wrapKV2(«x»)")}}
			if r.Intn(2) == 0 {
				kv.Lines = []gen.Line{gen.L('-', "wrapKV(T{‹1:elts›, «x»})"), gen.L('+', "wrapKV2(«x», ‹1:elts›)")}
			}
			var ksrcs, kextra []string
			for f := 0; f < 3; f++ {
				var plants []gen.Plant
				for p := 0; p < 2+r.Intn(4); p++ {
					el := []string{"fld: " + g.Atom(), g.Atom(), g.Expr(1, nil), "3: " + g.Atom(), "k: v"}[r.Intn(5)]
					pre := []string{"", "", g.Atom() + ", ", "kk: 1, "}[r.Intn(4)]
					plants = append(plants, gen.Plant{Kind: "expr", Text: "wrapKV(T{" + pre + el + "})"})
				}
				ksrcs = append(ksrcs, g.File(gen.FileOpts{Plants: plants}))
				kextra = append(kextra, "keyed-element-probe")
			}
			semBatch(ctx, idx, res, kv, ksrcs, kextra, idx%16 == 2, "C02")
			// ... nor for the '...' of an array type or of a variadic parameter
			el := &gen.Change{Kind: "expr", Schema: "c02-ellipsis-is-not-an-expression", Meta: mv2("x", "expression"),
				Lines: []gen.Line{gen.L('-', "wrapArr([«x»]int{})"), gen.L('+', "wrapLen(«x»)")}}
			var esrcs, eextra []string
			for f := 0; f < 2; f++ {
				var plants []gen.Plant
				for p := 0; p < 2+r.Intn(4); p++ {
					ln := []string{"...", "3", g.Ident(), "len(" + g.Ident() + ")", "..."}[r.Intn(5)]
					plants = append(plants, gen.Plant{Kind: "expr", Text: "wrapArr([" + ln + "]int{})"})
				}
				esrcs = append(esrcs, g.File(gen.FileOpts{Plants: plants}))
				eextra = append(eextra, "ellipsis-probe")
			}
			semBatch(ctx, idx, res, el, esrcs, eextra, false, "C02")
		}
	case 3:
		leakCase(ctx, idx, res, g)
	}
	return res
}

func dotsIn(text string) [][2]string {
	var out [][2]string
	rest := text
	for {
		i := strings.Index(rest, "‹")
		if i < 0 {
			return out
		}
		j := strings.Index(rest[i:], "›")
		body := rest[i+len("‹") : i+j]
		parts := strings.SplitN(body, ":", 2)
		if len(parts) == 2 {
			out = append(out, [2]string{parts[0], parts[1]})
		}
		rest = rest[i+j+len("›"):]
	}
}

// importBindingCase: an identifier metavariable that names an import of the patch is bound by the file's import; in the
// code of the patch it stands for that name only (all occurrences stand for identical code). Reference-free: the file
// has the same call shape under the imported name and under other qualifiers.
func importBindingCase(ctx *core.Ctx, idx int, res *core.Result, g *gen.G) {
	r := g.R
	name := []string{"oldlog", "log", "", "lg"}[r.Intn(4)] // "" = unnamed import, the package is 'log'
	patch := "@@\nvar log identifier\nvar x expression\n@@\n import log \"example.com/legacy/log\"\n\n-log.Warn(x)\n+log.Warning(x)\n"
	if r.Intn(2) == 0 {
		patch = "@@\nvar log identifier\nvar x expression\n@@\n-import log \"example.com/legacy/log\"\n+import log \"example.com/new/log\"\n\n-log.Warn(x)\n+log.Warning(x)\n"
	}
	spec := "\"example.com/legacy/log\""
	qual := "log"
	if name != "" {
		spec, qual = name+" "+spec, name
	}
	others := []string{"zap", "other", "s.logger", "pkg2"}
	var body strings.Builder
	want := 0
	for i := 0; i < 3+r.Intn(5); i++ {
		a := g.Atom()
		if r.Intn(2) == 0 {
			fmt.Fprintf(&body, "\t%s.Warn(%s)\n", qual, a)
			want++
		} else {
			fmt.Fprintf(&body, "\t%s.Warn(%s)\n", others[r.Intn(len(others))], a)
		}
	}
	// the same path may be imported once more under another name, before or behind: whichever of the two the code of
	// the patch matches with is what the metavariable stands for
	twice := ""
	specs := "\t" + spec + "\n"
	switch r.Intn(4) {
	case 0:
		specs, twice = "\tlegacyalias \"example.com/legacy/log\"\n"+specs, "second-import-in-front"
		fmt.Fprintf(&body, "\tlegacyalias.Setup()\n")
	case 1:
		specs, twice = specs+"\tlegacyalias \"example.com/legacy/log\"\n", "second-import-behind"
		fmt.Fprintf(&body, "\tlegacyalias.Setup()\n")
	}
	src := "package p\n\nimport (\n" + specs + "\tzap \"example.com/zap\"\n)\n\nfunc f() {\n" + body.String() + "}\n"
	runs := applyAPI(patch, []string{src})
	res.Evals++
	run := runs[0]
	rep := replayFiles(patch, src, run.Out)
	if run.Pan != "" {
		res.Violate("C02/engine-panic:"+core.PanicSignature(run.Pan), run.Pan, rep)
		return
	}
	if run.Err != "" {
		res.Violate("C02/engine-error", "import-bound metavariable: "+run.Err, rep)
		return
	}
	got := strings.Count(run.Out, ".Warning(")
	for _, o := range others {
		if strings.Contains(run.Out, o+".Warning(") {
			res.Violate("C02/false-positive", fmt.Sprintf("the metavariable that names the import (bound to %q by the file) also stood for %q in the code", qual, o), rep)
			return
		}
	}
	if got != want {
		res.Violate("C02/missed-instance", fmt.Sprintf("%d of %d calls through the imported name %q were rewritten %s", got, want, qual, twice), rep)
		return
	}
	if want > 0 {
		res.Sig("import-bound-metavariable", name, want, strings.Contains(patch, "+import"), twice)
	}
}

// leakCase checks, without the reference model, that a failed attempt before a site does
// not influence the site.
func leakCase(ctx *core.Ctx, idx int, res *core.Result, g *gen.G) {
	r := g.R
	type tpl struct{ patch, site, decoy string }
	a, b := g.Atom(), g.Atom()
	for a == b {
		b = g.Atom()
	}
	e := g.Expr(2, nil)
	tpls := []tpl{
		{"@@\nvar x expression\n@@\n-target(x, x)\n+repl(x)\n", "target(" + e + ", " + e + ")", "target(" + a + ", " + b + ")"},
		{"@@\nvar x, y expression\n@@\n-target(x, y, x)\n+repl(y, x)\n", "target(" + a + ", " + e + ", " + a + ")", "target(" + b + ", " + e + ", " + a + ")"},
		{"@@\nvar x expression\n@@\n-target(x, ..., x)\n+repl(x, ...)\n", "target(" + a + ", 1, 2, " + a + ")", "target(" + b + ", " + a + ", \"zq\")"},
		{"@@\nvar v identifier\nvar x expression\n@@\n-v := target(x)\n-use(v)\n+use(repl(x))\n", "w1 := target(" + e + ")\n\tuse(w1)", "w0 := target(" + a + ")\n\tuse(w9)"},
	}
	t := tpls[r.Intn(len(tpls))]
	stmt := func(s string) string {
		if strings.Contains(s, ":=") {
			return "\t" + s + "\n"
		}
		return "\t_ = " + s + "\n"
	}
	pre := g.Stmts(1, "\t", r.Intn(3))
	post := g.Stmts(1, "\t", r.Intn(3))
	var F, F2 string
	if strings.Contains(t.site, ":=") {
		// statement pattern: decoy lives in its own nested block before the site's block
		F = "package p\n\nfunc f() {\n" + pre + "\tif ok {\n\t" + strings.ReplaceAll(stmt(t.site), "\n\t", "\n\t\t") + "\t}\n" + post + "}\n"
		F2 = "package p\n\nfunc f() {\n" + pre + "\tif dk {\n\t" + strings.ReplaceAll(stmt(t.decoy), "\n\t", "\n\t\t") + "\t}\n\tif ok {\n\t" + strings.ReplaceAll(stmt(t.site), "\n\t", "\n\t\t") + "\t}\n" + post + "}\n"
	} else {
		F = "package p\n\nfunc f() {\n" + pre + stmt(t.site) + post + "}\n"
		F2 = "package p\n\nfunc f() {\n" + pre + stmt(t.decoy) + stmt(t.site) + post + "}\n"
	}
	if !gen.Parses(F) || !gen.Parses(F2) {
		res.Inconcl++
		return
	}
	runs := applyAPI(t.patch, []string{F, F2})
	res.Evals++
	res.Ob("leak-relation-runs", 1)
	if runs[0].Err != "" || runs[1].Err != "" || runs[0].Pan != "" || runs[1].Pan != "" {
		res.Violate("C02/leak-relation-engine-error", runs[0].Err+runs[1].Err+runs[0].Pan+runs[1].Pan, map[string]string{"p.patch": t.patch, "in.go": F, "in2.go": F2})
		return
	}
	o1, _, _, e1 := ref.ParseFile([]byte(runs[0].Out), true)
	o2, _, _, e2 := ref.ParseFile([]byte(runs[1].Out), true)
	i2, _, _, _ := ref.ParseFile([]byte(F2), true)
	if e1 != nil || e2 != nil {
		res.Violate("C02/leak-relation-unparseable", fmt.Sprint(e1, e2), map[string]string{"p.patch": t.patch, "in.go": F, "in2.go": F2})
		return
	}
	// statements of the function body
	body := func(f *ref.File) []*ref.N {
		fd := f.Decls[0]
		blk := fd.Kids[len(fd.Kids)-1]
		return blk.Kids[1].Kids
	}
	b1, b2, bi := body(o1), body(o2), body(i2)
	np := strings.Count(pre, "\n")
	_ = np
	// locate decoy: it is the statement at the index where F2 has one more statement than F
	if len(b2) != len(b1)+1 {
		res.Violate("C02/binding-leak", fmt.Sprintf("statement counts differ: %d vs %d", len(b1), len(b2)), map[string]string{"p.patch": t.patch, "in.go": F, "in2.go": F2, "actual.go": runs[0].Out, "actual2.go": runs[1].Out})
		return
	}
	k := 0
	for k < len(b1) && ref.Equal(b1[k], b2[k]) {
		k++
	}
	// b2[k] must be the unchanged decoy, and the rest must agree
	ok := ref.Equal(b2[k], bi[k])
	for j := k; j < len(b1) && ok; j++ {
		ok = ref.Equal(b1[j], b2[j+1])
	}
	res.Sig("leak", t.patch, len(b1), k)
	if !ok || runs[0].Out == F {
		why := "the site is rewritten differently (or the decoy changed) when a failing partial match precedes it"
		if runs[0].Out == F {
			why = "site not rewritten at all"
		}
		res.Violate("C02/binding-leak", why, map[string]string{"p.patch": t.patch, "in.go": F, "in2.go": F2, "actual.go": runs[0].Out, "actual2.go": runs[1].Out})
	}
}

// exprKindFillers has at least one filler per go/ast expression node type (value and type
// expressions): an expression metavariable has to bind every one of them, an identifier
// metavariable only the first group.
var exprKindFillers = []struct{ kind, text string }{
	{"Ident", "plainName"}, {"Ident", "_"}, {"Ident", "nil"},
	{"BasicLit", "42"}, {"BasicLit", `"str"`}, {"BasicLit", "'r'"}, {"BasicLit", "1.5i"},
	{"CompositeLit", "T{1, 2}"}, {"CompositeLit", "[]int{}"}, {"CompositeLit", "map[string]int{\"a\": 1}"},
	{"FuncLit", "func() {}"}, {"FuncLit", "func(a int) error { return nil }"},
	{"ParenExpr", "(a)"}, {"ParenExpr", "(a + b)"},
	{"SelectorExpr", "a.b"}, {"SelectorExpr", "a.b.c"},
	{"IndexExpr", "a[0]"}, {"IndexExpr", "G[int]"},
	{"IndexListExpr", "Map[string, int]"}, {"IndexListExpr", "pkg.Pair[string, []byte]"},
	{"SliceExpr", "a[1:2]"}, {"SliceExpr", "a[:]"}, {"SliceExpr", "a[1:2:3]"},
	{"TypeAssertExpr", "a.(T)"},
	{"CallExpr", "f(1)"}, {"CallExpr", "f()"}, {"CallExpr", "f(xs...)"}, {"CallExpr", "mk[int, string](1)"},
	{"StarExpr", "*p"}, {"StarExpr", "*pkg.T"},
	{"UnaryExpr", "-a"}, {"UnaryExpr", "<-ch"}, {"UnaryExpr", "&x"}, {"UnaryExpr", "!ok"}, {"UnaryExpr", "^m"},
	{"BinaryExpr", "a + b"}, {"BinaryExpr", "a && b || c"}, {"BinaryExpr", "a << 2"},
	{"ArrayType", "[]int"}, {"ArrayType", "[3]int"},
	{"StructType", "struct{ A int }"}, {"StructType", "struct{}"},
	{"FuncType", "func(int) string"},
	{"InterfaceType", "interface{ M() }"}, {"InterfaceType", "interface{}"},
	{"MapType", "map[string]int"},
	{"ChanType", "chan int"}, {"ChanType", "<-chan int"}, {"ChanType", "chan<- int"},
	// types that end in a qualified name, a bracket, a brace or a parenthesis: what follows them in the rewritten code
	// (a selector, an index) attaches differently than behind a type that ends in a plain name
	{"ArrayType", "[]pkg.T"}, {"ArrayType", "[2][]G[int]"}, {"ArrayType", "[]struct{ A int }"}, {"ArrayType", "[]*T"},
	{"MapType", "map[string]pkg.T"}, {"MapType", "map[K][]func() error"}, {"ChanType", "chan pkg.T"}, {"ChanType", "chan func() int"},
	{"FuncType", "func() (int, error)"}, {"FuncType", "func() pkg.T"}, {"FuncType", "func(...int) (n int)"}, {"StarExpr", "*[]int"},
}

// kindCensus binds one metavariable, in several pattern positions, to every kind of expression.
func kindCensus(ctx *core.Ctx, idx int, res *core.Result, g *gen.G) {
	r := g.R
	mk := "expression"
	if r.Intn(3) == 0 {
		mk = "identifier"
	}
	type shape struct{ minus, plus string }
	shapes := []shape{
		{"target(«x»)", "repl(«x», «x»)"},
		{"target(1, «x», 2)", "repl(«x»)"},
		{"new(«x»)", "ptrTo[«x»]()"},
		{"tgtWrap{Field: «x»}", "tgtWrap{Other: «x»}"},
		{"target(«x», ‹1:args›)", "repl(‹1:args›, «x»)"},
		{"target(«x», «x»)", "repl(«x»)"},
	}
	sh := shapes[r.Intn(len(shapes))]
	c := &gen.Change{Kind: "expr", Schema: "c02-kind-census-" + mk, Meta: mv2("x", mk),
		Lines: []gen.Line{gen.L('-', sh.minus), gen.L('+', sh.plus)}}
	var srcs, extra []string
	for f := 0; f < 4; f++ {
		var plants []gen.Plant
		var kinds []string
		perm := r.Perm(len(exprKindFillers))
		for _, pi := range perm[:6] {
			fl := exprKindFillers[pi]
			fill := &gen.Fill{Meta: map[string]string{"x": fl.text}, Runs: map[string]string{"1": g.Run("args", r.Intn(3))}}
			text := c.Substitute(sh.minus, fill)
			if gen.PlantParses("expr", text) {
				plants = append(plants, gen.Plant{Kind: "expr", Text: text})
				kinds = append(kinds, fl.kind)
				res.Ob("kind-census:"+mk+"-metavariable-vs-"+fl.kind, 1)
			}
		}
		srcs = append(srcs, g.File(gen.FileOpts{Plants: plants}))
		extra = append(extra, "census:"+strings.Join(kinds, ","))
	}
	semBatch(ctx, idx, res, c, srcs, extra, idx%20 == 4, "C02")
}
