package main

import (
	"fmt"
	"go/parser"
	"go/token"
	"os"
	"path/filepath"
	"strings"

	"verif/harness/core"
	"verif/harness/gen"
)

// c07Misfits are patches that compile but splice code into positions where it does not fit,
// with a file on which the splice produces unparseable text and one on which it is fine.
var c07Misfits = []struct {
	Name, Patch, Bad, Good string
}{
	{"expression-into-type-position", "@@\n@@\n-tgtType\n+1 + 2\n",
		"package p\n\nvar v tgtType\n\nfunc f(a tgtType) {}\n", "package p\n\nvar v = tgtType\n"},
	{"composite-literal-into-if-header", "@@\nvar x expression\n@@\n-target(x)\n+Repl{x}\n",
		"package p\n\nfunc f() {\n\tif target(a) == nil {\n\t\tg()\n\t}\n}\n", "package p\n\nfunc f() {\n\tuse(target(a))\n}\n"},
	{"composite-literal-into-for-header", "@@\nvar x expression\n@@\n-target(x)\n+Repl{x}\n",
		"package p\n\nfunc f() {\n\tfor target(a) != b {\n\t\tg()\n\t}\n}\n", "package p\n\nfunc f() {\n\tfor {\n\t\tuse(target(a))\n\t}\n}\n"},
	{"composite-literal-into-switch-tag", "@@\nvar x expression\n@@\n-target(x)\n+pkg.Repl{x}\n",
		"package p\n\nfunc f() {\n\tswitch target(a) {\n\tcase 1:\n\t}\n}\n", "package p\n\nfunc f() {\n\tswitch {\n\tcase target(a) == nil:\n\t}\n}\n"},
	{"key-value-outside-composite", "@@\nvar x expression\n@@\n-Tgt{x}\n+use(x)\n",
		"package p\n\nvar v = Tgt{K: 1}\n", "package p\n\nvar v = Tgt{1}\n"},
	{"variadic-type-as-plain-type", "@@\nvar f identifier\nvar T expression\n@@\n-func f(tgtArg T) {\n+func f() {\n+  var tgtArg T\n   ...\n }\n",
		"package p\n\nfunc g(tgtArg ...int) {\n\tuse(tgtArg)\n}\n", "package p\n\nfunc g(tgtArg []int) {\n\tuse(tgtArg)\n}\n"},
	{"label-removed-but-still-used", "@@\n@@\n-tgtLabel:\n for {\n   ...\n }\n",
		"package p\n\nfunc f() {\ntgtLabel:\n\tfor {\n\t\tbreak tgtLabel\n\t}\n}\n", "package p\n\nfunc f() {\ntgtLabel:\n\tfor {\n\t\tbreak\n\t}\n}\n"},
	{"statement-keyword-expression", "@@\nvar x expression\n@@\n-target(x)\n+<-x\n",
		"package p\n\nfunc f() {\n\tvar v chan<- target(a)\n\tuse(v)\n}\n", "package p\n\nfunc f() {\n\tuse(target(a))\n}\n"},
	{"slice-expression-into-type", "@@\n@@\n-tgtLen\n+a[1:2]\n",
		"package p\n\nvar v tgtLen\n", "package p\n\nvar v = f(tgtLen)\n"},
	{"func-literal-into-type", "@@\n@@\n-tgtType\n+(func() {})\n",
		"package p\n\ntype T struct {\n\tF tgtType\n}\n", "package p\n\nvar v = tgtType\n"},
	{"star-into-package-selector", "@@\nvar x expression\n@@\n-tgt.Sel(x)\n+*x.Sel\n",
		"package p\n\ntype T struct {\n\ttgt.Sel(a)\n}\n", "package p\n\nvar v = tgt.Sel(a)\n"},
}

func parsesFull(src string) error {
	fs := token.NewFileSet()
	_, err := parser.ParseFile(fs, "x.go", src, parser.AllErrors|parser.ParseComments)
	return err
}

// c07NoLongerMatches: misfit patterns whose "bad" file is no instance any more since an expression metavariable does not
// stand for 'key: value' or for the '...' of a variadic parameter (fixes 0959322, 4dab963): the file stays as it is.
var c07NoLongerMatches = map[string]bool{"variadic-type-as-plain-type": true, "key-value-outside-composite": true}

var c07HostileHeaders = []string{
	"/*\nCopyright notice. The code exported from this\npackage is covered by the licence\nimport (\nfunc init() {\n*/\n\n",
	"// Copyright\n\n/*\nPackage p does things; see\npackage main\nfor more.\n*/\n",
	"/* leading */ ",
	"//go:build linux\n\n/*\n\tpackage q\n*/\n\n// Package p is documented like this:\n//\n//\tpackage p\n//\n// end.\n",
	"/*\n * Licence\n */\n\n// +build !windows\n\n/* package\npackage\n*/\n",
}

func init() {
	core.Register(&core.Prop{
		ID:    "C07",
		Level: "exploration",
		Rule: "cases: (a) misfit stream: 11 patches that compile but put code where it does not fit (expression into a type position, composite literal into if/for/switch headers, key:value outside a composite literal, variadic type as plain type, " +
			"label removed while still used, channel arrow / function literal / expression list into type positions) x {file where the splice is unparseable, file where it is fine} x surrounding files; (b) random stream: random patterns on generated files. " +
			"Configurations {in place, --print-only, --diff (printed diff applied), library API} x --skip-import-processing x --skip-generated x -v. Oracle: go/parser (same mode gopatch reads files with) on every emitted content; " +
			"success with unparseable content, or a failure that nevertheless wrote/printed the new content, is a violation; a misfit file must fail without disturbing the good files of the same run. " +
			"non-trivial = the run contains a file whose splice is unparseable, or emitted rewritten content; distinct = (misfit class or pattern skeleton, mode, flags).",
		Assumptions: []string{"'parses' = go/parser.ParseFile with AllErrors|ParseComments and identifier resolution, the mode gopatch itself uses to read targets"},
		Cases: func(tier string) int {
			if tier == "thorough" {
				return 12000
			}
			return 3000
		},
		Floor: func(string) int { return 100 },
		Run:   runC07,
	})
}

var c07RiskyHosts = []string{
	"\tif %s {\n\t}", "\tfor %s {\n\t}", "\tswitch %s {\n\t}", "\tif v := %s; v != nil {\n\t}", "\tfor i := %s; i < n; i++ {\n\t}",
	"\tswitch v := %s; v {\n\t}", "\tfor range %s {\n\t}", "\t_ = x.(%s)", "\t_ = []%s{}", "\t_ = map[%s]int{}", "\tvar _ chan %s",
	"\t_ = func(a %s) {}", "\t_ = %s{}", "\t_ = &%s{}", "\tgo %s", "\tdefer %s", "\t%s", "\t_ = *%s", "\t_ = -%s.f", "\t%s++", "\t%s = 1",
	"var riskyV%d %s", "type riskyT%d %s",
}

func runC07(ctx *core.Ctx, idx int) *core.Result {
	res := &core.Result{}
	r := ctx.Rand("c07", idx)
	g := gen.NewG(r)
	type fi struct {
		name, src string
		bad       bool
	}
	var files []fi
	var pt, class string
	if idx%3 != 2 {
		m := c07Misfits[(idx/3*2+idx%3)%len(c07Misfits)]
		pt, class = m.Patch, m.Name
		order := r.Intn(3)
		if order == 0 {
			files = append(files, fi{"a_good.go", m.Good, false})
		}
		bad := m.Bad
		if k := r.Intn(4); k > 0 && strings.HasPrefix(bad, "package p\n") && !strings.Contains(bad, "import") {
			// the shape of the import section must not decide whether the rewritten text is looked at again: none, one
			// declaration, several declarations (a cgo preamble, a group and a single line), all of them unused by
			// the code and untouched by the patch
			imp := []string{"", "import \"os\"\n\nvar _ = os.Args\n", "import \"C\"\n\nimport \"os\"\n\nvar _ = os.Args\n", "import (\n\t\"os\"\n)\n\nimport \"io\"\n\nimport (\n\t\"fmt\"\n)\n\nvar _, _, _ = os.Args, io.EOF, fmt.Sprint\n"}[k]
			if nb := strings.Replace(bad, "package p\n", "package p\n\n"+imp, 1); gen.Parses(nb) {
				bad = nb
				res.Ob("misfit-files-with-import-declarations", 1)
			}
		}
		files = append(files, fi{"b_bad.go", bad, true})
		if r.Intn(3) == 0 {
			// the same bytes again under other names (vendored copies): each copy is a file of its own and is refused
			// like the first
			files = append(files, fi{"b_bad_copy.go", bad, true})
			if r.Intn(2) == 0 {
				files = append(files, fi{"z_bad_copy.go", bad, true})
			}
			res.Ob("misfit-files-with-identical-copies", 1)
		}
		if order != 0 {
			files = append(files, fi{"c_good.go", m.Good, false})
		}
		if r.Intn(2) == 0 {
			files = append(files, fi{"d_other.go", g.File(gen.FileOpts{}), false})
		}
	} else {
		c := g.RandomChangeWide()
		pt, class = c.PatchText(), "random:"+c.Schema
		for f := 0; f < 3; f++ {
			plants, _ := g.InstancePlants(c, 1+r.Intn(3), r.Intn(2))
			// plant into risky hosts too: the judge only needs parseability
			files = append(files, fi{fmt.Sprintf("r%d.go", f), g.File(gen.FileOpts{Plants: plants}), false})
		}
		if c.Kind == "expr" {
			// risky hosts: positions in which not every expression prints as valid Go (control clause headers,
			// type positions, conversions): the rewrite must either parse or be reported
			var sb strings.Builder
			sb.WriteString("package p\n\n")
			n := 0
			for _, h := range c07RiskyHosts {
				inst, _ := c.Instance(g)
				cand := fmt.Sprintf("func risky%d() {\n%s\n}\n\n", n, fmt.Sprintf(h, inst))
				if strings.HasPrefix(h, "var ") || strings.HasPrefix(h, "type ") {
					cand = fmt.Sprintf(h, n, inst) + "\n\n"
				}
				if gen.Parses("package p\n\n" + cand) {
					sb.WriteString(cand)
					n++
				}
			}
			if n > 0 {
				files = append(files, fi{"risky.go", sb.String(), false})
				res.Ob("risky-host-sites", n)
			}
		}
	}
	mode := []string{"inplace", "print", "diff", "api"}[r.Intn(4)]
	hostile := false
	if idx%3 == 2 && r.Intn(2) == 0 {
		// text that looks like Go clauses where it is not code: comments in front of the package clause and raw
		// strings behind it with lines that begin with "package", "import (", "func"; whatever is done to the
		// printed text after it was checked must still leave something that parses
		hostile = true
		hdr := c07HostileHeaders[r.Intn(len(c07HostileHeaders))]
		files[0].src = hdr + files[0].src + "\nvar rawDoc = `\npackage inside\n\nimport (\n\t\"x\"\n`\n"
		if !gen.Parses(files[0].src) {
			panic("c07: hostile header does not parse:\n" + files[0].src)
		}
		if r.Intn(3) == 0 {
			// CRLF line ends and, inside a function in front of the rest of the code, a line longer than any line buffer: whatever re-flows
			// the checked text line by line must not lose the tail
			files[0].src = strings.Replace(files[0].src, "package p\n", "package p\n\nfunc blobLine() string {\n\treturn \""+strings.Repeat("0123456789abcdef", 4200)+"\"\n}\n", 1)
			files[0].src = strings.ReplaceAll(files[0].src, "\n", "\r\n")
			if mode == "diff" {
				mode = "inplace" // --diff on such a file is the known finding of C12 (pkg/diff)
			}
			res.Ob("crlf-long-line-files", 1)
		}
		if mode == "print" {
			files = files[:1] // the printed text is not split into files
		}
		res.Ob("hostile-header-files", 1)
	}
	longLine := false
	if idx%5 == 1 && !hostile && len(files) > 0 {
		// a line of 4-60 KiB (an embedded blob, a generated table) in front of the code, LF line ends: below the 64 KiB at
		// which --diff gives up (known finding of C12), above the size of common line buffers. Whatever splits the text
		// into lines must not cut it: the content a diff implies has to parse
		longLine = true
		k := r.Intn(len(files))
		n := []int{4097, 5000, 8193, 20000, 40000, 60000}[r.Intn(6)]
		blob := "func blobLine" + fmt.Sprint(k) + "() string {\n\treturn \"" + strings.Repeat("x", n) + "\"\n}\n\n"
		if r.Intn(2) == 0 {
			blob = "// " + strings.Repeat("y", n) + "\n\n" + blob
		}
		// (not for the files that are unparseable on purpose)
		if ns := strings.Replace(files[k].src, "package p\n", "package p\n\n"+blob, 1); gen.Parses(ns) {
			files[k].src = ns
			res.Ob("long-line-files", 1)
		} else {
			longLine = false
		}
	}
	if idx%7 == 6 {
		hostile = false
		longLine = false
		// a target whose name is so long that no temporary file can be created next to it, and a rewrite that
		// makes it shorter: whatever the write path falls back to, what ends up on disk has to parse
		pt, class, mode = "@@\nvar x expression\n@@\n-shrinkThisLongCall(x)\n+s(x)\n", "long-name-shrinking-rewrite", "inplace"
		src := "package p\n\nfunc f() {\n"
		for i := 0; i < 3+r.Intn(5); i++ {
			src += "\tshrinkThisLongCall(" + g.Atom() + ")\n"
		}
		src += "}\n\n" + strings.TrimPrefix(g.File(gen.FileOpts{}), "package p\n")
		files = []fi{{strings.Repeat("L", 240+r.Intn(10)) + ".go", src, false}, {"z_other.go", g.File(gen.FileOpts{}), false}}
	}
	var flags []string
	if r.Intn(2) == 0 {
		flags = append(flags, "--skip-import-processing")
	}
	if r.Intn(4) == 0 {
		flags = append(flags, "--skip-generated")
	}
	if r.Intn(4) == 0 {
		flags = append(flags, "-v")
	}
	flagWord := mode + " " + strings.Join(flags, " ")
	rep := map[string]string{"p.patch": pt, "flags.txt": flagWord}
	for _, f := range files {
		rep[f.name] = f.src
	}
	fail := func(cls, detail string) {
		res.Violate("C07/"+cls, fmt.Sprintf("[%s, %s] %s", class, flagWord, detail), rep)
	}
	nontrivial := false
	if mode == "api" {
		for _, f := range files {
			res.Evals++
			ar := core.ApplyAPI(pt, f.src)
			if ar.Panic != "" {
				fail("engine-panic:"+core.PanicSignature(ar.Panic), ar.Panic)
				continue
			}
			if ar.OK() {
				if err := parsesFull(string(ar.Out)); err != nil {
					rep["emitted-"+f.name] = string(ar.Out)
					fail("unparseable-content-returned", fmt.Sprintf("Apply returned nil error and content that does not parse (%s): %v", f.name, err))
				} else if f.bad && string(ar.Out) != f.src {
					res.Ob("misfit-was-parseable-after-all", 1)
				} else if f.bad && !c07NoLongerMatches[class] {
					// the change matches this file; its result is either emitted (and parses) or reported
					fail("unparseable-rewrite-silently-dropped", fmt.Sprintf("Apply returned the input of %s unchanged and no error although the change matches it", f.name))
				}
				if string(ar.Out) != f.src {
					nontrivial = true
				}
			} else if f.bad {
				nontrivial = true
				res.Ob("misfit-rejected", 1)
			}
		}
		if nontrivial {
			res.Sig(class, flagWord)
		}
		return res
	}
	dir, _ := os.MkdirTemp(ctx.Tmp, "c07")
	defer os.RemoveAll(dir)
	os.WriteFile(filepath.Join(dir, "p.patch"), []byte(pt), 0o644)
	os.Mkdir(filepath.Join(dir, "t"), 0o755)
	var names []string
	orig := map[string]string{}
	for _, f := range files {
		os.WriteFile(filepath.Join(dir, "t", f.name), []byte(f.src), 0o644)
		names = append(names, f.name)
		orig[f.name] = f.src
	}
	args := []string{"-p", "../p.patch"}
	switch mode {
	case "print":
		args = append(args, "--print-only")
	case "diff":
		args = append(args, "--diff")
	}
	args = append(append(args, flags...), names...)
	cr := ctx.RunCLI(core.CLIOpts{Dir: filepath.Join(dir, "t"), Args: args})
	res.Evals++
	rep["stdout.txt"], rep["stderr.txt"] = string(cr.Stdout), string(cr.Stderr)
	if cc := cr.CrashClass(); cc != "" {
		fail(cc, string(cr.Stderr))
		return res
	}
	if strings.HasPrefix(class, "random:") && cr.Exit != 0 && strings.Contains(string(cr.Stderr), "reformat") {
		res.Ob("random-pattern-runs-with-a-rejected-rewrite", 1)
	}
	verbose := strings.Contains(flagWord, "-v")
	stdout := string(cr.Stdout)
	if verbose {
		var keep []string
		for _, l := range strings.SplitAfter(stdout, "\n") {
			t := strings.TrimSuffix(l, "\n")
			if strings.HasPrefix(t, dir) && (strings.HasSuffix(t, ": patched") || strings.HasSuffix(t, ": skipped") || strings.Contains(t, ": failed: ")) {
				continue
			}
			keep = append(keep, l)
		}
		stdout = strings.Join(keep, "")
	}
	// emitted contents per file
	emitted := map[string]string{}
	switch mode {
	case "inplace":
		for _, f := range files {
			b, _ := os.ReadFile(filepath.Join(dir, "t", f.name))
			if string(b) != f.src {
				emitted[f.name] = string(b)
			}
		}
	case "diff":
		for _, ch := range splitDiffs(stdout) {
			one, err := applyUnifiedDiffs(ch.text, orig)
			if err != nil {
				if longLine {
					// every line is shorter than 64 KiB and ends in LF: none of the known limits of --diff applies
					rep["diff.txt"] = ch.text
					fail("diff-implies-no-content/long-line", fmt.Sprintf("the diff printed for a file with a line of 4-60 KiB does not apply to it: %v", err))
				}
				res.Inconcl++
				continue
			}
			for k, v := range one {
				emitted[k] = v
			}
		}
	case "print":
		// stdout is a concatenation of whole files; split at "package " clauses at line starts
		parts := splitPrinted(stdout)
		if hostile {
			parts = []string{stdout}
		}
		for i, p := range parts {
			emitted[fmt.Sprintf("printed-%d", i)] = p
		}
	}
	for name, content := range emitted {
		if content == orig[name] {
			continue
		}
		nontrivial = true
		if err := parsesFull(content); err != nil {
			rep["emitted-"+name] = content
			cls := "unparseable-content-emitted"
			if cr.Exit != 0 {
				cls = "unparseable-content-emitted-with-error-exit"
			}
			if strings.Contains(flagWord, "--skip-import-processing") {
				cls += "/skip-import-processing"
			}
			fail(cls, fmt.Sprintf("exit %d; %s does not parse: %v", cr.Exit, name, err))
		}
	}
	for _, f := range files {
		if !f.bad {
			continue
		}
		nontrivial = true
		// was the bad file reported?
		if cr.Exit == 0 {
			b, _ := os.ReadFile(filepath.Join(dir, "t", f.name))
			content := string(b)
			if mode != "inplace" {
				content = stdout
			}
			_ = content
			res.Ob("misfit-run-exit-0:"+class, 1)
			if mode == "inplace" && string(b) == f.src && !c07NoLongerMatches[class] {
				// the change matches this file; its result is either written (and parses) or reported
				fail("unparseable-rewrite-silently-dropped", fmt.Sprintf("exit 0, empty diagnostics, and %s is unchanged although the change matches it", f.name))
			}
		} else {
			res.Ob("misfit-rejected", 1)
			if !strings.Contains(string(cr.Stderr), f.name) && !strings.Contains(string(cr.Stderr), "load patch") {
				fail("failure-does-not-name-file", core.Trunc(string(cr.Stderr), 300))
			}
		}
		// good files of the same run must still be processed
		for _, gf := range files {
			if gf.bad || gf.name == "d_other.go" || mode != "inplace" || strings.Contains(string(cr.Stderr), "load patch") {
				continue
			}
			b, _ := os.ReadFile(filepath.Join(dir, "t", gf.name))
			if string(b) == gf.src {
				fail("good-file-not-processed-next-to-misfit", gf.name+" was left unchanged")
			}
		}
	}
	if nontrivial {
		res.Sig(class, flagWord)
		res.Sample(map[string]any{"class": class, "flags": flagWord, "patch": pt, "exit": cr.Exit, "stderr": core.Trunc(string(cr.Stderr), 300)})
	}
	return res
}

// splitPrinted splits the concatenated --print-only output into files at package clauses.
func splitPrinted(out string) []string {
	var parts []string
	lines := strings.SplitAfter(out, "\n")
	start := 0
	seenPkg := false
	for i, l := range lines {
		if strings.HasPrefix(l, "package ") {
			if seenPkg {
				// a new file begins at the first comment line preceding this clause: keep it simple
				// and cut right before the clause (generated inputs have no header comments here)
				parts = append(parts, strings.Join(lines[start:i], ""))
				start = i
			}
			seenPkg = true
		}
	}
	if start < len(lines) {
		parts = append(parts, strings.Join(lines[start:], ""))
	}
	return parts
}
