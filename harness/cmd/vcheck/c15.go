package main

import (
	"fmt"
	"math/rand"
	"os"
	"path/filepath"
	"sort"
	"strings"
	"syscall"

	"verif/harness/core"
)

// treeEntry is one entry of a generated directory tree (path relative to the tree root).
type treeEntry struct {
	Path   string
	Kind   string // dir, file, symlink
	Target string // for symlinks
	LinkTo string // for files: another name (hard link) of this earlier regular file
}

var (
	c15DirNames  = []string{"pkg", "internal", "cmd", "vendor", "testdata", ".git", "_tools", "sub", "x.go", "a", "b", "_", ".hidden", "vendored", "Testdata", "mytestdata", ".go", "_legacy.go", ".cache.go", "vendor.go"}
	c15FileNames = []string{"main.go", "a.go", "b_test.go", ".hidden.go", "_under.go", "README.md", "go.mod", "x.go.txt", "gen.go", "z.GO", "go", "c.go", "sp ace.go", "\u00fcn\u00ef.go", "a.go.go", ".go", "x.go~", "#x.go#", "x_test.go"}
)

func genTree(r *rand.Rand) []treeEntry {
	var entries []treeEntry
	dirs := []string{""}
	n := 5 + r.Intn(40)
	seen := map[string]bool{"": true}
	for i := 0; i < n; i++ {
		parent := dirs[r.Intn(len(dirs))]
		if strings.Count(parent, "/") >= 4 {
			parent = ""
		}
		switch k := r.Intn(10); {
		case k < 3:
			p := filepath.Join(parent, c15DirNames[r.Intn(len(c15DirNames))])
			if !seen[p] {
				seen[p] = true
				entries = append(entries, treeEntry{Path: p, Kind: "dir"})
				dirs = append(dirs, p)
			}
		case k < 8:
			p := filepath.Join(parent, c15FileNames[r.Intn(len(c15FileNames))])
			if !seen[p] {
				seen[p] = true
				e := treeEntry{Path: p, Kind: "file"}
				// now and then a second name of a file that exists already: two directory entries, one inode. Both
				// are regular files named *.go, and each of them is a file to process
				if strings.HasSuffix(p, ".go") && r.Intn(5) == 0 {
					for _, o := range entries {
						if o.Kind == "file" && o.LinkTo == "" && strings.HasSuffix(o.Path, ".go") && filepath.Base(o.Path) != "x.go" {
							e.LinkTo = o.Path
							break
						}
					}
				}
				entries = append(entries, e)
			}
		default:
			// symlinks and FIFOs, also under names that would prune a directory (they are not directories: their
			// siblings must not be affected) and under editor lock-file names
			p := filepath.Join(parent, []string{"link.go", "linkdir", "dangling.go", "ln", "vendor", "testdata", ".hidden", "_x", ".#lock.go", "a_first.go"}[r.Intn(10)])
			if seen[p] {
				continue
			}
			seen[p] = true
			if r.Intn(4) == 0 {
				entries = append(entries, treeEntry{Path: p, Kind: "fifo"})
				continue
			}
			var target string
			switch filepath.Base(p) {
			case "dangling.go":
				target = "nowhere.go"
			default:
				// point at an existing entry if any
				if len(entries) > 0 {
					t := entries[r.Intn(len(entries))]
					rel, err := filepath.Rel(filepath.Dir(p), t.Path)
					if err == nil {
						target = rel
					}
				}
				if target == "" {
					target = "nowhere"
				}
			}
			entries = append(entries, treeEntry{Path: p, Kind: "symlink", Target: target})
		}
	}
	return entries
}

func pruned(name string) bool {
	return name == "" || name == "vendor" || name == "testdata" || name[0] == '.' || name[0] == '_'
}

// modelFiles is the statement transcribed: which files (relative to the tree root, the
// cwd) are processed for the given arguments, in processing order.
func modelFiles(entries []treeEntry, args []string, cwdBase string) []string {
	kind := map[string]string{"": "dir"}
	for _, e := range entries {
		kind[e.Path] = e.Kind
	}
	set := map[string]bool{}
	for _, a := range args {
		a = strings.TrimSuffix(a, "...")
		p := filepath.Clean(a)
		if p == "." {
			p = ""
		}
		switch kind[p] {
		case "file":
			if strings.HasSuffix(p, ".go") {
				set[p] = true
			}
		case "dir":
			base := filepath.Base(p)
			if p == "" {
				base = cwdBase
			}
			if pruned(base) {
				continue
			}
			for _, e := range entries {
				if e.Kind != "file" || !strings.HasSuffix(e.Path, ".go") {
					continue
				}
				if p != "" && !strings.HasPrefix(e.Path, p+"/") {
					continue
				}
				rest := strings.TrimPrefix(e.Path, p+"/")
				if p == "" {
					rest = e.Path
				}
				ok := true
				comps := strings.Split(rest, "/")
				for _, c := range comps[:len(comps)-1] {
					if pruned(c) {
						ok = false
					}
				}
				if ok {
					set[e.Path] = true
				}
			}
		}
	}
	var out []string
	for p := range set {
		out = append(out, p)
	}
	sort.Strings(out) // same order as absolute paths under one root
	return out
}

func genArgs(r *rand.Rand, entries []treeEntry, root string) ([]string, string) {
	n := 1 + r.Intn(5)
	var args, forms []string
	var dirs, files []string
	for _, e := range entries {
		switch e.Kind {
		case "dir":
			dirs = append(dirs, e.Path)
		default:
			files = append(files, e.Path)
		}
	}
	for i := 0; i < n; i++ {
		switch k := r.Intn(12); {
		case k == 0:
			args, forms = append(args, "."), append(forms, "dot")
		case k == 1:
			args, forms = append(args, "./..."), append(forms, "dot-ellipsis")
		case k <= 4 && len(dirs) > 0:
			d := dirs[r.Intn(len(dirs))]
			switch r.Intn(11) {
			case 9:
				// the argument ends in "..": the parent of d, not d with its dots trimmed off
				args, forms = append(args, d+"/.."), append(forms, "dir/..")
			case 10:
				args, forms = append(args, filepath.Join(root, d)+"/.."), append(forms, "abs-dir/..")
			case 5:
				args, forms = append(args, filepath.Join(root, d)+"/."), append(forms, "abs-dir/.")
			case 6:
				args, forms = append(args, filepath.Join(root, d)+"/../"+filepath.Base(d)+"/..."), append(forms, "abs-dir/../dir/...")
			case 7:
				args, forms = append(args, root+"/./"+d), append(forms, "abs/./dir")
			case 8:
				args, forms = append(args, d+"/./"), append(forms, "dir/./")
			case 0:
				args, forms = append(args, d+"/..."), append(forms, "dir/...")
			case 1:
				args, forms = append(args, d+"..."), append(forms, "dir...")
			case 2:
				args, forms = append(args, filepath.Join(root, d)), append(forms, "abs-dir")
			case 3:
				args, forms = append(args, "./"+d+"/"), append(forms, "./dir/")
			default:
				args, forms = append(args, d), append(forms, "dir")
			}
		case k <= 9 && len(files) > 0:
			f := files[r.Intn(len(files))]
			if k := r.Intn(8); k == 0 {
				args, forms = append(args, filepath.Join(root, f)), append(forms, "abs-file")
			} else if k == 1 {
				args, forms = append(args, root+"/./"+f), append(forms, "abs/./file")
			} else if k == 2 && filepath.Dir(f) != "." {
				dd := filepath.Dir(f)
				args, forms = append(args, root+"//"+dd+"/../"+filepath.Base(dd)+"/"+filepath.Base(f)), append(forms, "abs//dir/../dir/file")
			} else if k == 3 {
				args, forms = append(args, "./"+filepath.Dir(f)+"/./"+filepath.Base(f)), append(forms, "./dir/./file")
			} else {
				args, forms = append(args, f), append(forms, "file")
			}
		case len(args) > 0:
			args, forms = append(args, args[r.Intn(len(args))]), append(forms, "duplicate")
		default:
			args, forms = append(args, "."), append(forms, "dot")
		}
	}
	return args, strings.Join(forms, ",")
}

const c15Src = "package p\n\nfunc f() int { return bump(0) }\n"
const c15Patch = "@@\nvar x expression\n@@\n-bump(x)\n+bump(x + 1)\n"

func init() {
	core.Register(&core.Prop{
		ID:    "C15",
		Level: "exploration",
		Rule: "cases: random directory trees (5-45 entries, depth<=5: directories named vendor/testdata/.x/_x/x.go and look-alikes at any depth, hidden and underscore files, non-Go files, symlinks to files and directories, dangling symlinks, FIFOs; symlinks and FIFOs also under directory-pruning names (vendor, testdata, .x, _x) and lock-file names) " +
			"x argument lists of 1-5 arguments (relative, absolute, '.', './...', 'dir/...', 'dir...', './dir/', non-canonical relative and absolute spellings (/./, //, /../, trailing /.), overlapping, duplicated, explicit files inside excluded directories, explicit symlinks and non-Go files). Every .go file holds one site of a non-idempotent patch. " +
			"Three observations must equal the model (a transcription of the statement): (1) bytes: the number of times each file was rewritten, read off the file; (2) -v log lines (patched/skipped) and their order; " +
			"(3) every 5th run the strace event log: each model file opened for reading exactly once and modified exactly once, nothing else under the tree modified, opens in sorted order. " +
			"non-trivial = the tree has an excluded directory containing Go files or a symlink, or arguments overlap; distinct = (tree shape hash, argument-form word).",
		Assumptions: []string{"the working directory itself never has an excluded name", "symlinks are never followed: a symlink named explicitly is not processed"},
		Cases: func(tier string) int {
			if tier == "thorough" {
				return 30000
			}
			return 1500
		},
		Floor: func(string) int { return 300 },
		Run:   runC15,
	})
}

// processedCount reads from a file's bytes how often the non-idempotent patch was applied to it.
func processedCount(src string) int { return strings.Count(src, "+ 1") }

// c15Aliases: the same files reached under several names because a directory on the way to them is a symbolic link. Each
// file is still processed exactly once; a symbolic link that is itself named (or met during the walk) is not followed.
func c15Aliases(ctx *core.Ctx, idx int, res *core.Result) {
	r := ctx.Rand("c15alias", idx)
	base, _ := os.MkdirTemp(ctx.Tmp, "c15a")
	defer os.RemoveAll(base)
	root := filepath.Join(base, "work")
	os.MkdirAll(filepath.Join(root, "real", "sub"), 0o755)
	os.WriteFile(filepath.Join(base, "p.patch"), []byte(c15Patch), 0o644)
	// (top.go next to the links is what 'abslink/../top.go' would name if '..' were taken off the spelling of the path)
	files := []string{"real/sub/x.go", "real/sub/y.go", "real/top.go", "top.go"}
	for _, f := range files {
		os.WriteFile(filepath.Join(root, f), []byte(c15Src), 0o644)
	}
	os.Symlink("real", filepath.Join(root, "link"))
	os.Symlink(filepath.Join(root, "real", "sub"), filepath.Join(root, "abslink"))
	type variant struct {
		cwd    string
		args   []string
		covers []string // files that must be processed exactly once; all others not at all
	}
	vs := []variant{
		{"", []string{"real/sub", "link/sub"}, []string{"real/sub/x.go", "real/sub/y.go"}},
		{"", []string{"link/sub", "real/sub"}, []string{"real/sub/x.go", "real/sub/y.go"}},
		{"", []string{"link/sub/x.go", "real/sub/x.go"}, []string{"real/sub/x.go"}},
		{"", []string{"link/sub/...", filepath.Join(root, "real/sub/y.go")}, []string{"real/sub/x.go", "real/sub/y.go"}},
		{"link", []string{"sub/x.go", filepath.Join(root, "real/sub/x.go")}, []string{"real/sub/x.go"}},
		{"link", []string{".", filepath.Join(root, "real")}, []string{"real/sub/x.go", "real/sub/y.go", "real/top.go"}},
		{"", []string{"real", "link"}, []string{"real/sub/x.go", "real/sub/y.go", "real/top.go"}}, // 'link' itself is a symbolic link: not followed
		{"", []string{"abslink"}, nil},
		{"", []string{"real/sub/x.go", "real/sub/y.go", "link/sub/y.go"}, []string{"real/sub/x.go", "real/sub/y.go"}},
		// the working directory itself was entered through a link (the shell's $PWD keeps that name): it is a
		// directory, '.' and what lies beneath it are processed
		{"link", []string{"."}, []string{"real/sub/x.go", "real/sub/y.go", "real/top.go"}},
		{"link", []string{"./..."}, []string{"real/sub/x.go", "real/sub/y.go", "real/top.go"}},
		{"link", []string{"sub"}, []string{"real/sub/x.go", "real/sub/y.go"}},
		{"link", []string{"top.go", "sub/..."}, []string{"real/sub/x.go", "real/sub/y.go", "real/top.go"}},
		{"abslink", []string{"."}, []string{"real/sub/x.go", "real/sub/y.go"}},
		// '..' behind a link to a directory is the parent of the directory linked to: the file the operating system
		// opens under that name is the file that is named
		{"", []string{"abslink/../top.go"}, []string{"real/top.go"}},
		{"", []string{"abslink/.."}, []string{"real/sub/x.go", "real/sub/y.go", "real/top.go"}},
		{"", []string{"abslink/../...", "real/top.go"}, []string{"real/sub/x.go", "real/sub/y.go", "real/top.go"}},
		{"", []string{"abslink/../../real/sub/x.go"}, []string{"real/sub/x.go"}},
		{"link", []string{"sub/../top.go", "sub/.."}, []string{"real/sub/x.go", "real/sub/y.go", "real/top.go"}},
		{"", []string{"real/sub/../top.go", "./real/../top.go"}, []string{"real/top.go", "top.go"}},
		// a link that is the last element of an argument is not followed, however the argument is spelled
		{"", []string{"real/../link/"}, nil},
		{"", []string{"real/../link", "real/../abslink/."}, nil},
		{"", []string{"real/../link/sub/x.go"}, []string{"real/sub/x.go"}},
	}
	v := vs[r.Intn(len(vs))]
	var env []string
	if v.cwd != "" {
		env = []string{"PWD=" + filepath.Join(root, v.cwd)} // as a shell sets it after 'cd link'
	}
	// the order in which the files are processed (read from the -v log of two dry runs) does not depend on the order
	// of the arguments or on which of a file's names was given last
	var orders []string
	for pass := 0; pass < 2; pass++ {
		args := append([]string{}, v.args...)
		if pass == 1 {
			for i, j := 0, len(args)-1; i < j; i, j = i+1, j-1 {
				args[i], args[j] = args[j], args[i]
			}
		}
		dr := ctx.RunCLI(core.CLIOpts{Dir: filepath.Join(root, v.cwd), Args: append([]string{"-p", filepath.Join(base, "p.patch"), "-v", "--diff"}, args...), Env: env})
		var seq []string
		for _, l := range strings.Split(string(dr.Stdout), "\n") {
			if strings.HasSuffix(l, ": patched") || strings.HasSuffix(l, ": skipped") {
				name := strings.TrimSuffix(strings.TrimSuffix(l, ": patched"), ": skipped")
				if rp, err := filepath.EvalSymlinks(name); err == nil {
					name = rp
				}
				seq = append(seq, name)
			}
		}
		orders = append(orders, strings.Join(seq, "\n"))
	}
	if orders[0] != orders[1] {
		res.Violate("C15/order-depends-on-argument-order", fmt.Sprintf("arguments %v and the same reversed process the files in different orders:\n%s\n--\n%s", v.args, orders[0], orders[1]),
			map[string]string{"args.txt": "cwd work/" + v.cwd + "\n" + strings.Join(v.args, " ")})
		return
	}
	cr := ctx.RunCLI(core.CLIOpts{Dir: filepath.Join(root, v.cwd), Args: append([]string{"-p", filepath.Join(base, "p.patch")}, v.args...), Env: env})
	res.Evals++
	rep := map[string]string{"args.txt": "cwd work/" + v.cwd + "\n" + strings.Join(v.args, " "), "stderr.txt": string(cr.Stderr)}
	if cc := cr.CrashClass(); cc != "" || cr.Exit != 0 {
		res.Violate("C15/"+cc+"nonzero-exit/aliases", string(cr.Stderr), rep)
		return
	}
	for _, f := range files {
		b, _ := os.ReadFile(filepath.Join(root, f))
		n := processedCount(string(b))
		want := 0
		for _, c := range v.covers {
			if c == f {
				want = 1
			}
		}
		switch {
		case n > 1:
			res.Violate("C15/file-processed-more-than-once", fmt.Sprintf("%s was processed %d times (arguments %v, reached through a symbolic link to a directory)", f, n, v.args), rep)
		case n < want:
			res.Violate("C15/requested-file-not-processed", fmt.Sprintf("%s (arguments %v)", f, v.args), rep)
		case n > want:
			res.Violate("C15/file-processed-that-should-not-be", fmt.Sprintf("%s (arguments %v)", f, v.args), rep)
		}
	}
	res.Sig("aliases", v.cwd, strings.Join(v.args, " "))
}

func runC15(ctx *core.Ctx, idx int) *core.Result {
	res := &core.Result{}
	if idx%25 == 7 {
		c15Aliases(ctx, idx, res)
		return res
	}
	r := ctx.Rand("c15", idx)
	entries := genTree(r)
	base, _ := os.MkdirTemp(ctx.Tmp, "c15")
	defer os.RemoveAll(base)
	root := filepath.Join(base, "work")
	os.Mkdir(root, 0o755)
	os.WriteFile(filepath.Join(base, "p.patch"), []byte(c15Patch), 0o644)
	hardLinks := 0
	defer func() { res.Ob("hard-linked-go-files", hardLinks) }()
	for _, e := range entries {
		p := filepath.Join(root, e.Path)
		switch e.Kind {
		case "dir":
			os.MkdirAll(p, 0o755)
		case "file":
			os.MkdirAll(filepath.Dir(p), 0o755)
			if e.LinkTo == "" || os.Link(filepath.Join(root, e.LinkTo), p) != nil {
				os.WriteFile(p, []byte(c15Src), 0o644)
			} else {
				hardLinks++
			}
		case "symlink":
			os.MkdirAll(filepath.Dir(p), 0o755)
			os.Symlink(e.Target, p)
		case "fifo":
			os.MkdirAll(filepath.Dir(p), 0o755)
			syscall.Mkfifo(p, 0o644)
		}
	}
	args, formWord := genArgs(r, entries, root)
	model := modelFiles(entries, relArgs(args, root), "work")
	cli := append([]string{"-p", "../p.patch", "-v"}, args...)
	var cr *core.CLIResult
	var fsev []core.FSEvent
	straced := idx%5 == 0
	if straced {
		var evs []core.Sys
		cr, evs, _ = ctx.RunCLIStrace(core.CLIOpts{Dir: root, Args: cli})
		fsev = core.FSTrace(evs, root)
		res.Ob("strace-runs", 1)
	} else {
		cr = ctx.RunCLI(core.CLIOpts{Dir: root, Args: cli})
	}
	res.Evals++
	var treeDesc []string
	for _, e := range entries {
		d := e.Kind + ":" + e.Path
		if e.Kind == "symlink" {
			d += "->" + e.Target
		}
		treeDesc = append(treeDesc, d)
	}
	rep := map[string]string{"tree.txt": strings.Join(treeDesc, "\n"), "args.txt": strings.Join(args, " "), "model.txt": strings.Join(model, "\n"),
		"stdout.txt": string(cr.Stdout), "stderr.txt": string(cr.Stderr)}
	if cc := cr.CrashClass(); cc != "" {
		res.Violate("C15/"+cc, string(cr.Stderr), rep)
		return res
	}
	if cr.Exit != 0 {
		res.Violate("C15/nonzero-exit", string(cr.Stderr), rep)
		return res
	}
	inModel := map[string]bool{}
	for _, m := range model {
		inModel[m] = true
	}
	// (1) bytes
	excludedWithGo, hasSymlink := false, false
	for _, e := range entries {
		if e.Kind == "symlink" {
			hasSymlink = true
		}
		if e.Kind != "file" {
			continue
		}
		b, _ := os.ReadFile(filepath.Join(root, e.Path))
		times := strings.Count(string(b), " + 1")
		want := 0
		if inModel[e.Path] {
			want = 1
		}
		if strings.HasSuffix(e.Path, ".go") {
			for _, c := range strings.Split(filepath.Dir(e.Path), "/") {
				if c != "." && pruned(c) {
					excludedWithGo = true
				}
			}
		}
		if times != want {
			cls := "file-processed-that-should-not-be"
			if times < want {
				cls = "requested-file-not-processed"
			} else if want == 1 {
				cls = "file-processed-more-than-once"
			}
			res.Violate("C15/"+cls, fmt.Sprintf("%s rewritten %d time(s), model says %d (args: %s)", e.Path, times, want, strings.Join(args, " ")), rep)
			return res
		}
		if !strings.HasSuffix(e.Path, ".go") && string(b) != c15Src {
			res.Violate("C15/non-go-file-changed", e.Path, rep)
			return res
		}
	}
	// (2) -v lines and their order
	var logged []string
	for _, l := range strings.Split(string(cr.Stdout), "\n") {
		if strings.HasSuffix(l, ": patched") || strings.HasSuffix(l, ": skipped") {
			p := strings.TrimSuffix(strings.TrimSuffix(l, ": patched"), ": skipped")
			rel, err := filepath.Rel(root, p)
			if err != nil {
				rel = p
			}
			logged = append(logged, rel)
		}
	}
	if strings.Join(logged, "\n") != strings.Join(model, "\n") {
		rep["logged.txt"] = strings.Join(logged, "\n")
		cls := "verbose-log-differs-from-model"
		if sameSet(logged, model) {
			cls = "processing-order-not-sorted"
		}
		res.Violate("C15/"+cls, fmt.Sprintf("-v lines: %v\nmodel:    %v", logged, model), rep)
		return res
	}
	// (3) strace: exactly-once and ordering over the recorded event log
	if straced {
		reads := map[string]int{}
		mods := map[string]int{}
		var readOrder []string
		for _, e := range fsev {
			if !strings.HasPrefix(e.Path, root+"/") {
				continue
			}
			rel := strings.TrimPrefix(e.Path, root+"/")
			switch e.Kind {
			case "open-read":
				if e.OK && strings.Contains(e.Raw, "O_RDONLY") && !strings.Contains(e.Raw, "O_DIRECTORY") && kindOf(entries, rel) == "file" {
					reads[rel]++
					readOrder = append(readOrder, rel)
				}
			case "open-write":
				if kindOf(entries, rel) == "file" {
					mods[rel]++
				} else if kindOf(entries, rel) != "" || !isTempFor(rel, model) {
					res.Violate("C15/unexpected-file-created", e.Raw, rep)
					return res
				}
			case "rename-dest":
				// an atomic replace: the rename onto the target is its one modification
				if e.OK {
					mods[rel]++
				}
			case "mutate":
				if strings.HasPrefix(e.Sys, "rename") {
					continue // source side of the rename (the temporary file)
				}
				if kindOf(entries, rel) != "" {
					res.Violate("C15/unexpected-mutation", e.Raw, rep)
					return res
				}
			}
		}
		res.Ob("strace-read-opens", len(readOrder))
		for _, m := range model {
			if reads[m] != 1 {
				res.Violate("C15/file-not-read-exactly-once", fmt.Sprintf("%s opened for reading %d times", m, reads[m]), rep)
				return res
			}
		}
		for p, n := range reads {
			if !inModel[p] && n > 0 {
				res.Violate("C15/unrequested-file-read", p, rep)
				return res
			}
		}
		for _, m := range model {
			if mods[m] != 1 {
				res.Violate("C15/file-not-modified-exactly-once", fmt.Sprintf("%s modified %d times", m, mods[m]), rep)
				return res
			}
		}
		for p, n := range mods {
			if !inModel[p] || n != 1 {
				res.Violate("C15/file-not-modified-exactly-once", fmt.Sprintf("%s opened for writing %d times (in model: %v)", p, n, inModel[p]), rep)
				return res
			}
		}
		if strings.Join(readOrder, "\n") != strings.Join(model, "\n") {
			res.Violate("C15/read-order-not-sorted", fmt.Sprintf("%v vs %v", readOrder, model), rep)
			return res
		}
	}
	overlap := strings.Contains(formWord, "duplicate") || strings.Count(formWord, ",") > 0
	if excludedWithGo || hasSymlink || overlap {
		var shape []string
		for _, e := range entries {
			shape = append(shape, e.Kind+strings.Repeat("/", strings.Count(e.Path, "/"))+filepath.Base(e.Path))
		}
		sort.Strings(shape)
		res.Sig(core.HashStr(strings.Join(shape, "|")), formWord)
	}
	res.Ob("files-processed", len(model))
	res.Sample(map[string]any{"args": args, "tree_entries": len(entries), "model": model})
	return res
}

func kindOf(entries []treeEntry, rel string) string {
	for _, e := range entries {
		if e.Path == rel {
			return e.Kind
		}
	}
	return ""
}

// isTempFor accepts a temporary sibling of a model file (atomic replace).
func isTempFor(rel string, model []string) bool {
	for _, m := range model {
		if filepath.Dir(rel) == filepath.Dir(m) && !strings.HasSuffix(rel, ".go") {
			return true
		}
	}
	return false
}

func relArgs(args []string, root string) []string {
	var out []string
	for _, a := range args {
		if filepath.IsAbs(a) {
			r, err := filepath.Rel(root, strings.TrimSuffix(a, "..."))
			if err == nil {
				a = r
			}
		}
		out = append(out, a)
	}
	return out
}

func sameSet(a, b []string) bool {
	x := append([]string{}, a...)
	y := append([]string{}, b...)
	sort.Strings(x)
	sort.Strings(y)
	return strings.Join(x, "\n") == strings.Join(y, "\n")
}
