package main

import (
	"fmt"
	"math/rand"
	"os"
	"path/filepath"
	"strings"

	"verif/harness/core"
)

var c19FaultKinds = []string{
	"name-bad-first-char", "name-bad-inner-char", "name-multibyte-bad", "name-space-inside",
	"header-missing-trailing-at", "header-text-after-atat", "header-plain-text-first-line", "header-short",
	"meta-unknown-type", "meta-duplicate-same-line", "meta-duplicate-later-line", "meta-duplicate-later-group",
	"meta-missing-var", "meta-missing-type", "meta-missing-name-after-comma", "meta-non-identifier", "meta-trailing-junk",
	"meta-cut-short-at-end-of-section", "meta-repeated-section",
}

// c19Patch builds a valid multi-change patch and injects one fault; it returns the text and
// the 1-based line and byte column of the offending token (cols lists acceptable columns).
func c19Patch(r *rand.Rand, kind string) (text string, line int, cols []int, changeIdx int, shape string, also []string) {
	return c19PatchAlt(r, kind, nil)
}

// c19PatchAlt: alt, when not nil, receives further acceptable "line:col" spellings of the fault's position.
func c19PatchAlt(r *rand.Rand, kind string, alt *[]string) (text string, line int, cols []int, changeIdx int, shape string, also []string) {
	if kind == "meta-repeated-section" {
		// several changes whose metavariable sections are the same text, copied with its fault (an unknown type, a
		// duplicate): every one of them is reported where it stands
		n := 2 + r.Intn(3)
		decl, col := "var é, q1 strng", len("var é, q1 ")+1
		if r.Intn(2) == 0 {
			decl, col = "var rdup identifier; var é8, rdup expression", len("var rdup identifier; var é8, ")+1
		}
		extra := []string{"", "var w expression\n", "# shared note\n"}[r.Intn(3)]
		var lines []string
		for c := 0; c < n; c++ {
			for i := r.Intn(3); i > 0; i-- {
				lines = append(lines, []string{"# note", "", "# é multi-byte"}[r.Intn(3)])
			}
			lines = append(lines, []string{"@@", fmt.Sprintf("@ rep%d @", c)}[r.Intn(2)])
			if extra != "" {
				lines = append(lines, strings.TrimSuffix(extra, "\n"))
			}
			lines = append(lines, decl)
			if c == 0 {
				line, cols = len(lines), []int{col}
			} else {
				also = append(also, fmt.Sprintf("%d:%d", len(lines), col))
			}
			lines = append(lines, "@@", fmt.Sprintf("-foo%d(1)", c), fmt.Sprintf("+bar%d(1)", c), "")
		}
		return strings.Join(lines, "\n") + "\n", line, cols, 0, fmt.Sprintf("repeated-section changes=%d", n), also
	}
	indented := false
	atClose := false // the offending token is the "@@" that closes the section
	defer func() {
		if indented {
			shape += "+indented-declaration"
		}
	}()
	nChanges := 1 + r.Intn(5)
	faultAt := r.Intn(nChanges)
	if kind == "header-plain-text-first-line" {
		faultAt = 0
	}
	// faults found when the patch is compiled are all reported: every other such patch carries a second one in
	// another change, and both positions must be right
	compAt := -1
	if (kind == "meta-unknown-type" || strings.HasPrefix(kind, "meta-duplicate")) && nChanges > 1 && r.Intn(2) == 0 {
		compAt = r.Intn(nChanges - 1)
		if compAt >= faultAt {
			compAt++
		}
	}
	var lines []string
	noise := func(max int) int {
		n := r.Intn(max + 1)
		for i := 0; i < n; i++ {
			switch r.Intn(4) {
			case 0:
				lines = append(lines, "# note "+fmt.Sprint(r.Intn(99)))
			case 1:
				lines = append(lines, "\t# indented café ☕ note")
			default:
				lines = append(lines, "# é multi-byte")
			}
			if r.Intn(4) == 0 {
				// a pasted comment line with a CRLF line end: one more byte in front of everything that follows
				lines[len(lines)-1] += "\r"
			}
		}
		return n
	}
	pre := 0
	for c := 0; c < nChanges; c++ {
		isFault := c == faultAt
		// lines before the header (blank lines are only legal before the first header or as
		// part of the previous diff)
		if c > 0 {
			for i := 0; i < r.Intn(3); i++ {
				lines = append(lines, "")
			}
		} else if r.Intn(2) == 0 {
			// the file begins with blank or white-space-only lines: they count
			for i := 0; i < 1+r.Intn(4); i++ {
				lines = append(lines, []string{"", "", "  ", "\t"}[r.Intn(4)])
			}
		}
		pre += noise(3)
		// header
		header := "@@"
		if r.Intn(2) == 0 {
			header = fmt.Sprintf("@ change_%d @", c)
		}
		if isFault {
			switch kind {
			case "name-bad-first-char":
				header = "@ 1bad @"
				line, cols = len(lines)+1, []int{3}
			case "name-bad-inner-char":
				// the padding around a name is any white space, each byte of it counts
				pads := []struct {
					h string
					c int
				}{{"@   go-od @", 7}, {"@\tgo-od\t@", 5}, {"@ \tgo-od @", 6}, {"@\u00a0go-od\u00a0@", 6}, {"@go-od\t @", 4}}
				pd := pads[r.Intn(len(pads))]
				header = pd.h
				line, cols = len(lines)+1, []int{pd.c}
			case "name-multibyte-bad":
				header = "@ né€x @"
				// n(3) é(4,5) €(6..8): column of the euro sign
				line, cols = len(lines)+1, []int{6}
			case "name-space-inside":
				header = "@ a b @"
				line, cols = len(lines)+1, []int{4}
			case "header-missing-trailing-at":
				header = "@foo"
				line, cols = len(lines)+1, []int{1}
			case "header-text-after-atat":
				header = "@@ x"
				line, cols = len(lines)+1, []int{1}
			case "header-short":
				// header lines too short to hold a name: a lone '@', '@' and white space, three of them
				header = []string{"@", "@ ", "@\t", "@@@", "@x", "@\u00e9"}[r.Intn(6)]
				line, cols = len(lines)+1, []int{1}
				if header == "@@@" {
					cols = []int{1, 2} // a change named "@": the name is the offending token
				}
			case "header-plain-text-first-line":
				// plain text where the first header is expected
				lines = append(lines, "foo(bar)")
				line, cols = len(lines), []int{1}
			}
		}
		lines = append(lines, header)
		// metavariable section
		type decl struct{ text string }
		var metaLines []string
		names := []string{"x", "y", "é", "zed"}
		r.Shuffle(len(names), func(i, j int) { names[i], names[j] = names[j], names[i] })
		nd := r.Intn(3)
		for i := 0; i < nd; i++ {
			k := []string{"expression", "identifier"}[r.Intn(2)]
			switch r.Intn(3) {
			case 0:
				metaLines = append(metaLines, fmt.Sprintf("var %s %s", names[i], k))
			case 1:
				metaLines = append(metaLines, fmt.Sprintf("var\t%s  %s", names[i], k))
			default:
				metaLines = append(metaLines, fmt.Sprintf("var %s %s; var w%d identifier", names[i], k, i))
			}
		}
		used := map[string]bool{}
		for i := 0; i < nd; i++ {
			used[names[i]] = true
		}
		if isFault && strings.HasPrefix(kind, "meta-") {
			var fl string
			col := 0
			switch kind {
			case "meta-unknown-type":
				fl = "var é, q1 strng"
				col = len("var é, q1 ") + 1
			case "meta-duplicate-same-line":
				fl = "var dup, é2, dup expression"
				col = len("var dup, é2, ") + 1
			case "meta-duplicate-later-line":
				metaLines = append(metaLines, "var dup identifier")
				fl = "var\tother, dup expression"
				col = len("var\tother, ") + 1
			case "meta-duplicate-later-group":
				metaLines = append(metaLines, "var dup identifier; var k1, k2 expression")
				metaLines = append(metaLines, "# between")
				fl = "var é3 identifier; var dup identifier"
				col = len("var é3 identifier; var ") + 1
			case "meta-missing-var":
				fl = "q2 expression"
				col = 1
			case "meta-missing-type":
				fl = "var q3"
				col = len(fl) + 1
			case "meta-missing-name-after-comma":
				fl = "var é4, , q4 expression"
				col = len("var é4, ") + 1
			case "meta-non-identifier":
				fl = "var é5, 42 expression"
				col = len("var é5, ") + 1
			case "meta-trailing-junk":
				fl = "var q5 expression junk"
				col = len("var q5 expression ") + 1
			case "meta-cut-short-at-end-of-section":
				// the last declaration of the section stops in the middle: what the parser runs into is the "@@" that
				// closes the section (the end of the cut line is accepted as well)
				fl = []string{"var é6,", "var", "var é7, q7,"}[r.Intn(3)]
				col = len(fl) + 1
				atClose = true
			}
			// place the faulty line at a random position among the declarations, with noise
			pos := len(metaLines)
			if kind != "meta-duplicate-later-line" && kind != "meta-duplicate-later-group" && !atClose {
				pos = r.Intn(len(metaLines) + 1)
			}
			metaLines = append(metaLines[:pos], append([]string{fl}, metaLines[pos:]...)...)
			for i, ml := range metaLines {
				if r.Intn(3) == 0 {
					lines = append(lines, "# in meta")
				}
				if r.Intn(4) == 0 {
					lines = append(lines, "")
				}
				// declarations may be indented (blanks, tabs): the column counts the indentation
				// ... and so does a Go comment in front of a declaration, also one that spells a line directive: the
				// diagnostic is about the patch file
				ind := []string{"", "", "  ", "\t", " \t ", "", "", "  ", "\t", "/* note */ ", "/*line zz.go:100:1*/ ", "/*line zz.go:7*/\t"}[r.Intn(12)]
				if strings.HasPrefix(ml, "#") && strings.HasPrefix(ind, "/*") {
					ind = "" // a '#' line is a comment of the patch only at the start of its line
				}
				lines = append(lines, ind+ml)
				if i == pos {
					line, cols = len(lines), []int{col + len(ind)}
					if ind != "" {
						indented = true
					}
				}
			}
		} else {
			if c == compAt {
				if r.Intn(2) == 0 {
					metaLines = append(metaLines, "var cq, é9 strng2")
					also = append(also, fmt.Sprintf("%d:%d", len(lines)+len(metaLines), len("var cq, é9 ")+1))
				} else {
					metaLines = append(metaLines, "var cdup identifier; var é8, cdup expression")
					also = append(also, fmt.Sprintf("%d:%d", len(lines)+len(metaLines), len("var cdup identifier; var é8, ")+1))
				}
				for _, ml := range metaLines {
					lines = append(lines, ml)
				}
				metaLines = nil
			}
			for _, ml := range metaLines {
				if r.Intn(4) == 0 {
					lines = append(lines, "# in meta")
				}
				lines = append(lines, ml)
			}
		}
		if isFault && atClose {
			if alt != nil {
				for _, c := range cols {
					*alt = append(*alt, fmt.Sprintf("%d:%d", line, c))
				}
			}
			if r.Intn(2) == 0 {
				lines = append(lines, "# before the end of the section")
			}
			line, cols = len(lines)+1, []int{1}
		}
		lines = append(lines, "@@")
		arg := "1"
		if used["x"] {
			arg = "x"
		}
		lines = append(lines, fmt.Sprintf("-foo%d(%s)", c, arg), fmt.Sprintf("+bar%d(%s)", c, arg))
	}
	shape = fmt.Sprintf("changes=%d at=%d pre=%d", nChanges, faultAt, pre)
	if compAt >= 0 {
		shape += fmt.Sprintf(" second-fault-at=%d", compAt)
	}
	text = strings.Join(lines, "\n") + "\n"
	return text, line, cols, faultAt, shape, also
}

func init() {
	core.Register(&core.Prop{
		ID:    "C19",
		Level: "exploration",
		Rule: "cases: valid patches of 1-5 changes with 0-6 '#'/blank lines before and inside sections, tabs and multi-byte characters before the fault, into which one fault of 17 kinds is injected (bad change name: first / inner / multi-byte / space; " +
			"text where a header is expected: '@foo', '@@ x', plain text; unknown metavariable type; duplicate metavariable on the same line / a later line / a later group; missing 'var'; missing type; missing name after a comma; non-identifier token; trailing junk; a declaration cut short at the end of the section, where the offending token is the closing '@@') " +
			"at every change index, white space of several kinds around a bad name, and for faults found at compile time a second such fault in another change (both positions must be reported); delivered by -p (two path spellings), stdin and patch.Parse. Oracle: the injector knows the byte offset of the token it corrupted; a diagnostic must contain '<patch name>:<line>:<byte column>', exit != 0, at least one diagnostic names the patch, no target file changes. " +
			"non-trivial = >=1 line precedes the faulty section; distinct = (fault kind, change index, preceding-lines shape, delivery).",
		Assumptions: []string{"columns are byte columns as go/token counts them; for 'missing type' the offending token is the end of the line (the inserted ';')"},
		Cases: func(tier string) int {
			if tier == "thorough" {
				return 40000
			}
			return 12000
		},
		Floor: func(string) int { return 500 },
		Run:   runC19,
	})
}

func runC19(ctx *core.Ctx, idx int) *core.Result {
	res := &core.Result{}
	r := ctx.Rand("c19", idx)
	kind := c19FaultKinds[idx%len(c19FaultKinds)]
	var altPos []string
	text, line, cols, at, shape, also := c19PatchAlt(r, kind, &altPos)
	bom := idx%11 == 5
	if bom {
		// a byte order mark in front of the patch: it is itself a token that does not belong there (1:1), or, for a
		// reader that skips it, three bytes that the first line's columns have to count
		text = "\ufeff" + text
		shape += "+byte-order-mark"
		if line == 1 {
			for i := range cols {
				cols[i] += 3
			}
		}
		altPos = append(altPos, "1:1")
		also = nil // the first diagnostic may be the only one
	}
	target := "package p\n\nfunc f() { foo0(1); foo1(1); foo2(1); foo3(1); foo4(1) }\n"
	wantPos := func(name string) []string {
		var out []string
		for _, c := range cols {
			out = append(out, fmt.Sprintf("%s:%d:%d", name, line, c))
		}
		for _, a := range altPos {
			out = append(out, name+":"+a)
		}
		return out
	}
	check := func(delivery, name, diag string, rejected bool, changed bool) {
		res.Evals++
		rep := map[string]string{"p.patch": text, "diagnostics.txt": diag, "expected.txt": strings.Join(wantPos(name), " or ") + "\nfault: " + kind}
		if !rejected {
			res.Violate("C19/faulty-patch-accepted", fmt.Sprintf("[%s, %s] patch with fault %s at change %d was accepted", delivery, shape, kind, at), rep)
			return
		}
		if changed {
			res.Violate("C19/target-changed-by-rejected-patch", delivery, rep)
			return
		}
		if !strings.Contains(diag, name+":") {
			res.Violate("C19/no-diagnostic-names-the-patch-file", fmt.Sprintf("[%s] %s", delivery, core.Trunc(diag, 300)), rep)
			return
		}
		ok := false
		for _, w := range wantPos(name) {
			if strings.Contains(diag, w+":") || strings.Contains(diag, w+" ") {
				ok = true
			}
		}
		if !ok {
			res.Violate("C19/wrong-position/"+kind, fmt.Sprintf("[%s, %s] expected %v in: %s", delivery, shape, wantPos(name), core.Trunc(diag, 400)), rep)
			return
		}
		for _, a := range also {
			if !strings.Contains(diag, name+":"+a+":") && !strings.Contains(diag, name+":"+a+" ") {
				res.Violate("C19/wrong-position/second-fault-of-the-patch", fmt.Sprintf("[%s, %s] expected also %s:%s in: %s", delivery, shape, name, a, core.Trunc(diag, 400)), rep)
				return
			}
			res.Ob("second-faults-located", 1)
		}
		if line > 1 {
			res.Sig(kind, at, shape, delivery)
		}
	}
	// library
	_, perr, pan := core.ParsePatch("lib.patch", []byte(text))
	if pan != "" {
		res.Violate("C19/engine-panic:"+core.PanicSignature(pan), pan, map[string]string{"p.patch": text})
		return res
	}
	d := ""
	if perr != nil {
		d = perr.Error()
	}
	check("patch.Parse", "lib.patch", d, perr != nil, false)
	// CLI deliveries (every other case to keep the quick tier fast)
	if idx%2 == 0 {
		dir, _ := os.MkdirTemp(ctx.Tmp, "c19")
		defer os.RemoveAll(dir)
		os.MkdirAll(filepath.Join(dir, "sub"), 0o755)
		os.WriteFile(filepath.Join(dir, "sub", "the.patch"), []byte(text), 0o644)
		os.WriteFile(filepath.Join(dir, "t.go"), []byte(target), 0o644)
		type del struct {
			name  string
			args  []string
			stdin []byte
			fname string
		}
		dels := []del{
			{"-p relative", []string{"-p", "sub/the.patch", "t.go"}, nil, "sub/the.patch"},
			{"-p absolute", []string{"-p", filepath.Join(dir, "sub", "the.patch"), "t.go"}, nil, filepath.Join(dir, "sub", "the.patch")},
			{"stdin", []string{"t.go"}, []byte(text), "stdin"},
			// the patch is not the first one loaded: its positions are its own, wherever it lies in the set of files
			{"-p behind a valid patch", []string{"-p", "ok.patch", "-p", "sub/the.patch", "t.go"}, nil, "sub/the.patch"},
			{"-P list behind a valid patch", []string{"-P", "list.txt", "t.go"}, nil, "sub/the.patch"},
		}
		os.WriteFile(filepath.Join(dir, "ok.patch"), []byte("# a patch that loads\n@@\nvar x expression\n@@\n-neverThere(x)\n+neverHere(x)\n\n@@\n@@\n-neverThereEither()\n+neverHereEither()\n"), 0o644)
		os.WriteFile(filepath.Join(dir, "list.txt"), []byte("ok.patch\nsub/the.patch\n"), 0o644)
		dl := dels[(idx/2)%len(dels)]
		cr := ctx.RunCLI(core.CLIOpts{Dir: dir, Args: dl.args, Stdin: dl.stdin})
		if cc := cr.CrashClass(); cc != "" {
			res.Violate("C19/"+cc, string(cr.Stderr), map[string]string{"p.patch": text})
			return res
		}
		b, _ := os.ReadFile(filepath.Join(dir, "t.go"))
		check(dl.name, dl.fname, string(cr.Stderr), cr.Exit != 0, string(b) != target)
	}
	res.Sample(map[string]any{"fault": kind, "patch": text, "expected_position": wantPos("<patch>"), "diagnostic": core.Trunc(d, 300)})
	return res
}
