package main

import (
	"fmt"
	"go/format"
	"os"
	"strings"

	"verif/harness/core"
	"verif/harness/gen"
	"verif/harness/ref"
)

func init() {
	core.Register(&core.Prop{
		ID:    "C03",
		Level: "exploration",
		Rule: "cases: patterns whose '+' side uses each bound metavariable 0-3 times, reordered, under operators of higher precedence than the binding's root (printer must parenthesise), " +
			"inside elided lists; files with 1-8 sites that all have different bindings; a slot-misfit stream (identifier -> selector in name-only slots, call -> selector under go/defer) where 'unchanged' is required; " +
			"an aliasing stream (a '+' side duplicating x followed by a change that rewrites one copy only); nested instances inside bindings. Judged by instantiate(plus, bindings of that site) in the reference model. " +
			"non-trivial = >=1 site (or misfit site); distinct = (plus-side use-count vector and shape, binding root kinds, number of sites, slot kinds).",
		Assumptions: []string{"reference model as in C01", "slot admissibility = go/ast slot typing (an identifier-only slot admits only identifiers, go/defer admit only calls)"},
		Cases: func(tier string) int {
			if tier == "thorough" {
				return 50000
			}
			return 4000
		},
		Floor: func(string) int { return 300 },
		Run:   runC03,
	})
}

// plusOver builds a '+' expression using the given metavariables with random multiplicity,
// order and operator context.
func plusOver(g *gen.G, metas []gen.MetaVar) (string, string) {
	r := g.R
	var uses []string
	var counts []string
	for _, m := range metas {
		n := r.Intn(4)
		counts = append(counts, fmt.Sprint(n))
		for i := 0; i < n; i++ {
			uses = append(uses, "«"+m.Name+"»")
		}
	}
	r.Shuffle(len(uses), func(i, j int) { uses[i], uses[j] = uses[j], uses[i] })
	shape := r.Intn(10)
	var s string
	args := strings.Join(uses, ", ")
	// keyed elements: metavariables as keys and as values
	var keyed []string
	for i := 0; i+1 < len(uses); i += 2 {
		keyed = append(keyed, uses[i]+": "+uses[i+1])
	}
	if len(uses)%2 == 1 {
		keyed = append(keyed, "Last: "+uses[len(uses)-1])
	}
	switch shape {
	case 8:
		// a keyed literal of a named type: whether its keys are field names or map keys, syntax does not tell
		s = "repl.Header{" + strings.Join(keyed, ", ") + "}"
	case 9:
		// ... and with an elided element type
		s = "map[string]Counts{\"a\": {" + strings.Join(keyed, ", ") + "}}"
	case 0:
		s = "repl(" + args + ")"
	case 1:
		s = "repl(" + args + ").Done"
	case 2:
		if len(uses) > 0 {
			s = strings.Join(uses, " * ") + " * 2"
		} else {
			s = "repl()"
		}
	case 3:
		if len(uses) > 0 {
			s = "-" + uses[0] + " + repl(" + strings.Join(uses[1:], ", ") + ")"
		} else {
			s = "repl(0)"
		}
	case 4:
		if len(uses) > 0 {
			s = uses[0] + ".Method(" + strings.Join(uses[1:], ", ") + ")"
		} else {
			s = "repl(1)"
		}
	case 5:
		if len(uses) > 0 {
			s = "&" + uses[0] + "[0]"
			if len(uses) > 1 {
				s = "repl(" + s + ", " + strings.Join(uses[1:], ", ") + ")"
			}
		} else {
			s = "repl(2)"
		}
	case 6:
		s = "Repl{" + args + "}"
	default:
		if len(uses) > 0 {
			s = "*" + uses[0] + " << 1"
			if len(uses) > 1 {
				s += " | repl(" + strings.Join(uses[1:], ", ") + ")"
			}
		} else {
			s = "repl(3)"
		}
	}
	return s, fmt.Sprintf("%d|%s", shape, strings.Join(counts, ""))
}

func runC03(ctx *core.Ctx, idx int) *core.Result {
	res := &core.Result{}
	r := ctx.Rand("c03", idx)
	g := gen.NewG(r)
	if idx%25 == 7 {
		parenCopyCase(ctx, idx, res, g)
		return res
	}
	if idx%25 == 13 {
		operandCensus(ctx, idx, res, g)
		return res
	}
	if idx%25 == 19 {
		verbatimLiteralCase(ctx, idx, res, g)
		return res
	}
	if idx%25 == 21 {
		siteCensus(ctx, idx, res, g)
		return res
	}
	if idx%50 == 11 {
		nameSlotCase(ctx, idx, res, g)
		return res
	}
	if idx%250 == 9 {
		// 'for ... {' on the '+' side, once or several times for one loop of the '-' side (loop fission): every loop of
		// the replacement has its own body (the patterns of C04's loop table, judged as instantiations)
		forDotsCaseFor(ctx, idx/250, res, "C03")
		return res
	}
	if idx%25 == 3 {
		// list patterns in which a metavariable bound early is used again behind sections that do not mention it, with
		// a second repeated metavariable whose name sorts before or after it: every site is rewritten with the bindings
		// it matched with, also when the search had to come back to a section under another binding
		if idx%50 == 3 {
			c := g.SharedSectionsChange()
			var srcs, extra []string
			for f := 0; f < 4; f++ {
				plants, _ := g.InstancePlants(c, 1+r.Intn(3), r.Intn(2))
				srcs = append(srcs, g.File(gen.FileOpts{Plants: plants}))
				extra = append(extra, "shared-sections")
			}
			semBatch(ctx, idx, res, c, srcs, extra, idx%100 == 3, "C03")
			return res
		}
		nm := [][2]string{{"a", "x"}, {"n", "k"}, {"zed", "addr"}, {"x", "a"}, {"m1", "m0"}}[r.Intn(5)]
		A, X := "«"+nm[0]+"»", "«"+nm[1]+"»"
		var c *gen.Change
		var mkSite func() string
		atoms := []string{"A", "B", "C", "1", "2", "3", "s.f", "q()"}
		pick := func() string { return atoms[r.Intn(len(atoms))] }
		if r.Intn(2) == 0 {
			c = &gen.Change{Kind: "expr", Schema: "c03-early-binding-used-late", Meta: []gen.MetaVar{{Name: nm[0], Kind: "expression"}, {Name: nm[1], Kind: "expression"}},
				Lines: []gen.Line{gen.L('-', "tgtF("+A+", ‹1:args›, pr("+A+", "+X+"), ‹2:args›, mark(), ‹3:args›, hh("+X+"))"), gen.L('+', "replG("+A+", "+X+")")}}
			mkSite = func() string {
				a := pick()
				var mid []string
				n := 1 + r.Intn(4)
				last := ""
				for i := 0; i < n; i++ {
					last = fmt.Sprint(i + 1)
					first := a
					if r.Intn(4) == 0 {
						first = pick()
					}
					mid = append(mid, "pr("+first+", "+last+")")
				}
				want := last
				if r.Intn(3) == 0 {
					want = fmt.Sprint(1 + r.Intn(n+1)) // any of the candidates, or none
				}
				return "tgtF(" + a + ", " + strings.Join(mid, ", ") + ", mark(), hh(" + want + "))"
			}
		} else {
			c = &gen.Change{Kind: "expr", Schema: "c03-early-binding-used-late", Meta: []gen.MetaVar{{Name: nm[0], Kind: "expression"}, {Name: nm[1], Kind: "expression"}},
				Lines: []gen.Line{gen.L('-', "tgtF(‹1:args›, pr("+A+", "+A+"), ‹2:args›, qq("+X+"), ‹3:args›, mark(), ‹4:args›, hh("+X+"), ‹5:args›)"), gen.L('+', "replG("+A+", "+X+")")}}
			mkSite = func() string {
				var parts []string
				n := 1 + r.Intn(3)
				last := ""
				for i := 0; i < n; i++ {
					p := pick()
					q := p
					if r.Intn(4) == 0 {
						q = pick()
					}
					last = fmt.Sprint(i + 1)
					parts = append(parts, "pr("+p+", "+q+")", "qq("+last+")")
				}
				want := last
				if r.Intn(3) == 0 {
					want = fmt.Sprint(1 + r.Intn(n+1))
				}
				return "tgtF(" + strings.Join(parts, ", ") + ", mark(), hh(" + want + "))"
			}
		}
		var srcs, extra []string
		for f := 0; f < 4; f++ {
			var plants []gen.Plant
			for p := 0; p < 2+r.Intn(4); p++ {
				plants = append(plants, gen.Plant{Kind: "expr", Text: mkSite()})
			}
			srcs = append(srcs, g.File(gen.FileOpts{Plants: plants}))
			extra = append(extra, "early-binding-used-late")
		}
		semBatch(ctx, idx, res, c, srcs, extra, idx%100 == 53, "C03")
		return res
	}
	switch idx % 5 {
	case 0, 1:
		// instantiate with multiplicities / precedence
		nm := 1 + r.Intn(3)
		var metas []gen.MetaVar
		var margs []string
		for i := 0; i < nm; i++ {
			k := "expression"
			if r.Intn(4) == 0 {
				k = "identifier"
			}
			metas = append(metas, gen.MetaVar{Name: []string{"x", "y", "z"}[i], Kind: k})
			margs = append(margs, "«"+[]string{"x", "y", "z"}[i]+"»")
		}
		dots := r.Intn(3) == 0
		recvForm := r.Intn(3) == 0 && metas[0].Kind == "expression"
		minus := "target(" + strings.Join(margs, ", ")
		if recvForm {
			// the first metavariable is the receiver: sites on the left spine of longer chains
			minus = margs[0] + ".Target(" + strings.Join(margs[1:], ", ")
			if dots && len(margs) == 1 {
				minus = margs[0] + ".Target(‹1:args›"
				dots = false
				minus += ")"
			}
		}
		if dots {
			minus += ", ‹1:args›"
		}
		if !strings.HasSuffix(minus, ")") || strings.Count(minus, "(") != strings.Count(minus, ")") {
			minus += ")"
		}
		dots = strings.Contains(minus, "‹1:args›")
		plus, shape := plusOver(g, metas)
		if dots && strings.HasPrefix(plus, "repl(") && strings.HasSuffix(plus, ")") && r.Intn(2) == 0 {
			if strings.HasSuffix(plus, "()") {
				plus = "repl(‹1:args›)"
			} else {
				plus = plus[:len(plus)-1] + ", ‹1:args›)"
			}
		}
		c := &gen.Change{Kind: "expr", Schema: "c03-inst", Meta: metas, Lines: []gen.Line{gen.L('-', minus), gen.L('+', plus)}}
		var srcs, extra []string
		for f := 0; f < 3; f++ {
			var plants []gen.Plant
			ns := 1 + r.Intn(8)
			for p := 0; p < ns; p++ {
				fill := &gen.Fill{Meta: map[string]string{}, Runs: map[string]string{"1": g.Run("args", r.Intn(3))}}
				for _, m := range metas {
					if m.Kind == "identifier" {
						fill.Meta[m.Name] = fmt.Sprintf("b%d_%d", p, r.Intn(50))
						continue
					}
					switch r.Intn(5) {
					case 0:
						fill.Meta[m.Name] = g.Atom()
					case 1:
						// a nested instance inside the binding
						fill.Meta[m.Name] = "target(" + g.Atom() + strings.Repeat(", "+g.Atom(), nm-1) + ")"
						if recvForm {
							fill.Meta[m.Name] = "mk()" + ".Target(" + strings.TrimPrefix(strings.Repeat(", "+g.Atom(), nm-1), ", ") + ")"
						}
						// ... or strictly inside it (the binding is larger than the nested instance)
						switch r.Intn(4) {
						case 0:
							fill.Meta[m.Name] = "retry(3, " + fill.Meta[m.Name] + ")"
						case 1:
							fill.Meta[m.Name] = "pick(" + fill.Meta[m.Name] + ").Field"
						}
					case 2:
						if recvForm {
							fill.Meta[m.Name] = g.Primary(1, nil)
						} else {
							fill.Meta[m.Name] = g.Expr(2, nil)
						}
					default:
						fill.Meta[m.Name] = g.Expr(2, nil)
					}
					if r.Intn(5) == 0 {
						// the binding is a call spread over several lines, its last argument possibly a spread 'xs...'
						v := fill.Meta[m.Name]
						if !strings.HasSuffix(v, ")") || r.Intn(2) == 0 {
							v = "mk(" + v + ", " + g.Ident() + ")"
						}
						if ml := gen.MultiLineCall(v, r.Intn(2) == 0); ml != "" && gen.PlantParses("expr", ml) {
							fill.Meta[m.Name] = ml
						}
					}
				}
				t := c.Substitute(minus, fill)
				if gen.PlantParses("expr", t) {
					plants = append(plants, gen.Plant{Kind: "expr", Text: t})
				}
			}
			srcs = append(srcs, g.File(gen.FileOpts{Plants: plants}))
			extra = append(extra, shape)
		}
		semBatch(ctx, idx, res, c, srcs, extra, idx%20 == 0, "C03")
	case 2:
		// slot misfit: identifier -> selector. Name-only slots must stay unchanged.
		c := &gen.Change{Kind: "expr", Schema: "c03-misfit-ident", Lines: []gen.Line{gen.L('-', "tgtName"), gen.L('+', "pkg.NewName")}}
		var srcs, extra []string
		for f := 0; f < 3; f++ {
			var sb strings.Builder
			sb.WriteString("package p\n\n")
			parts := []string{
				"func tgtName() {}\n",
				"func (r *R) tgtName() int { return 0 }\n",
				"type S1 struct {\n\ttgtName int\n\tother  tgtName\n}\n",
				"type I1 interface {\n\ttgtName() error\n}\n",
				"var v1 = o.tgtName\n",
				"var v2 = tgtName + 1\n",
				"var v3 = tgtName.Field\n",
				"var v4 tgtName\n",
				"func f1() {\ntgtName:\n\tfor {\n\t\tbreak tgtName\n\t}\n}\n",
				"func f2() {\n\tgoto tgtName\ntgtName:\n\tuse(tgtName)\n}\n",
				"var v5 = T{tgtName: 1}\n",
				"var v6 = []int{tgtName: 1, 2: tgtName}\n",
				"func f3(tgtName int) {\n\tuse(tgtName)\n}\n",
				"func f4() {\n\ttgtName := 1\n\tuse(tgtName)\n}\n",
				"func f5() {\n\tuse(func(tgtName string) {})\n}\n",
				"const tgtName = 3\n",
				"type tgtName struct{}\n",
				"var v7 = x.(tgtName)\n",
				"func f6[tgtName any]() {}\n",
				"func f7() {\n\tfor tgtName := range xs {\n\t\tuse(tgtName)\n\t}\n}\n",
			}
			r.Shuffle(len(parts), func(i, j int) { parts[i], parts[j] = parts[j], parts[i] })
			n := 3 + r.Intn(len(parts)-3)
			seenDecl := map[string]bool{}
			for _, p := range parts[:n] {
				// avoid redeclaration of tgtName at package level
				key := ""
				for _, pre := range []string{"func tgtName", "const tgtName", "type tgtName"} {
					if strings.HasPrefix(p, pre) {
						key = "pkglevel"
					}
				}
				if key != "" && seenDecl[key] {
					continue
				}
				if key != "" {
					seenDecl[key] = true
				}
				sb.WriteString(p + "\n")
			}
			if gen.Parses(sb.String()) {
				srcs = append(srcs, sb.String())
				extra = append(extra, fmt.Sprint("misfit-ident", n))
			}
		}
		if len(srcs) > 0 {
			semBatch(ctx, idx, res, c, srcs, extra, idx%20 == 2, "C03")
		}
	case 3:
		// slot misfit: call -> non-call under go/defer
		plusChoices := []string{"«x».Sel", "repl(«x»)", "«x»", "(func() { repl(«x») })()", "tbl[«x»]"}
		c := &gen.Change{Kind: "expr", Schema: "c03-misfit-call", Meta: []gen.MetaVar{{Name: "x", Kind: "expression"}},
			Lines: []gen.Line{gen.L('-', "target(«x»)"), gen.L('+', plusChoices[r.Intn(len(plusChoices))])}}
		var srcs, extra []string
		for f := 0; f < 3; f++ {
			var body strings.Builder
			n := 2 + r.Intn(6)
			for i := 0; i < n; i++ {
				a := g.Atom()
				switch r.Intn(7) {
				case 5:
					// an instance inside the arguments of an instance that cannot be rewritten where it stands: the outer
					// one stays, the inner one is a site of its own
					fmt.Fprintf(&body, "\tdefer target(target(%s).Field)\n", a)
				case 6:
					fmt.Fprintf(&body, "\tgo target(wrap(target(%s), target(%s)))\n", a, g.Atom())
				case 0:
					fmt.Fprintf(&body, "\tdefer target(%s)\n", a)
				case 1:
					fmt.Fprintf(&body, "\tgo target(%s)\n", a)
				case 2:
					fmt.Fprintf(&body, "\ttarget(%s)\n", a)
				case 3:
					fmt.Fprintf(&body, "\tdefer wrap(target(%s))\n", a)
				default:
					fmt.Fprintf(&body, "\t_ = target(%s)\n", a)
				}
			}
			src := "package p\n\nfunc f() {\n" + body.String() + "}\n"
			srcs = append(srcs, src)
			extra = append(extra, "misfit-call")
		}
		semBatch(ctx, idx, res, c, srcs, extra, idx%20 == 3, "C03")
	case 4:
		// aliasing: change 1 duplicates x, change 2 rewrites only one of the copies.
		c1 := &gen.Change{Kind: "expr", Schema: "c03-alias-1", Meta: []gen.MetaVar{{Name: "x", Kind: "expression"}},
			Lines: []gen.Line{gen.L('-', "dup(«x»)"), gen.L('+', "pair(first(«x»), second(«x»))")}}
		c2 := &gen.Change{Kind: "expr", Schema: "c03-alias-2", Meta: []gen.MetaVar{{Name: "y", Kind: "expression"}},
			Lines: []gen.Line{gen.L('-', "first(inner(«y»))"), gen.L('+', "first(outer(«y»))")}}
		var srcs, extra []string
		for f := 0; f < 3; f++ {
			var plants []gen.Plant
			for p := 0; p < 1+r.Intn(5); p++ {
				inner := "inner(" + g.Expr(1, nil) + ")"
				if r.Intn(4) == 0 {
					inner = g.Expr(2, nil)
				}
				plants = append(plants, gen.Plant{Kind: "expr", Text: "dup(" + inner + ")"})
			}
			srcs = append(srcs, g.File(gen.FileOpts{Plants: plants}))
			extra = append(extra, "alias")
		}
		semBatchSeq(ctx, idx, res, []*gen.Change{c1, c2}, srcs, extra, idx%20 == 4, "C03")
		// generated siblings: change 1 generates several wrapped operands at one site (all of them at the
		// site's collapsed position), change 2 rewrites every wrapper: each with its own binding.
		d1 := &gen.Change{Kind: "expr", Schema: "c03-siblings-1", Meta: []gen.MetaVar{{Name: "x", Kind: "expression"}, {Name: "y", Kind: "expression"}},
			Lines: []gen.Line{gen.L('-', "tgtMax(«x», «y»)"), gen.L('+', "pkg.Max(conv(«x»), conv(«y»), conv(1))")}}
		d2 := &gen.Change{Kind: "expr", Schema: "c03-siblings-2", Meta: []gen.MetaVar{{Name: "v", Kind: "expression"}},
			Lines: []gen.Line{gen.L('-', "conv(«v»)"), gen.L('+', "toF(«v»)")}}
		srcs, extra = nil, nil
		for f := 0; f < 3; f++ {
			var plants []gen.Plant
			for p := 0; p < 1+r.Intn(4); p++ {
				a, b := g.Ident(), g.Ident()
				if r.Intn(3) == 0 {
					a, b = g.Atom(), g.Atom()
				}
				plants = append(plants, gen.Plant{Kind: "expr", Text: "tgtMax(" + a + ", " + b + ")"})
			}
			srcs = append(srcs, g.File(gen.FileOpts{Plants: plants}))
			extra = append(extra, "generated-siblings")
		}
		semBatchSeq(ctx, idx, res, []*gen.Change{d1, d2}, srcs, extra, idx%20 == 4, "C03")
	}
	return res
}

// parenCopyCase: the code a metavariable stood for is copied as it is, enclosing parentheses included (the tree
// comparison of the other streams looks through redundant parentheses; here the text is compared). Reference-free: one
// site per function, the copy is looked for in the rewritten function.
func parenCopyCase(ctx *core.Ctx, idx int, res *core.Result, g *gen.G) {
	r := g.R
	pats := [][2]string{
		{"-!x\n+isFalse(x)\n", "!%s"},
		{"-tgtWrap(x)\n+replWrap(x, 1)\n", "tgtWrap(%s)"},
		{"-tgtEq(x, y)\n+y == x\n", "tgtEq(%s, other)"},
		{"-x == nilValue\n+isNil(x)\n", "%s == nilValue"},
	}
	p := pats[r.Intn(len(pats))]
	patch := "@@\nvar x, y expression\n@@\n" + p[0]
	inner := []string{"a && b", "f(1)", "<-ch", "T{1}", "a + b*c", "x.y", "*p", "-v", "func() int { return 1 }()"}
	var src strings.Builder
	src.WriteString("package p\n\n")
	var want []string
	n := 2 + r.Intn(5)
	for i := 0; i < n; i++ {
		in := inner[r.Intn(len(inner))]
		filler := "(" + in + ")"
		if r.Intn(4) == 0 {
			// without parentheses (a primary expression, so that the site parses the same way)
			filler = []string{"f(1)", "x.y", "T{1}", "v", "m[k]"}[r.Intn(5)]
		}
		fmt.Fprintf(&src, "func f%d() {\n\tuse(%s)\n}\n\n", i, fmt.Sprintf(p[1], filler))
		want = append(want, filler)
	}
	in := src.String()
	if !gen.Parses(in) {
		res.Inconcl++
		return
	}
	runs := applyAPI(patch, []string{in})
	res.Evals++
	run := runs[0]
	rep := replayFiles(patch, in, run.Out)
	if run.Pan != "" {
		res.Violate("C03/engine-panic:"+core.PanicSignature(run.Pan), run.Pan, rep)
		return
	}
	if run.Err != "" {
		res.Violate("C03/engine-error", "parenthesised binding: "+run.Err, rep)
		return
	}
	squash := func(s string) string { return strings.Join(strings.Fields(s), "") }
	funcs := strings.Split(run.Out, "\nfunc ")
	if len(funcs) != n+1 {
		res.Violate("C03/wrong-rewrite", fmt.Sprintf("%d functions in, %d out", n, len(funcs)-1), rep)
		return
	}
	for i, w := range want {
		body := squash(funcs[i+1])
		if !strings.Contains(body, squash(w)) {
			res.Violate("C03/binding-not-copied-identically", fmt.Sprintf("function f%d: the metavariable stood for %q, which is not in the rewritten code %q", i, w, core.Trunc(funcs[i+1], 120)), rep)
			return
		}
		if strings.HasPrefix(w, "(") && !strings.Contains(w, "func()") && !strings.Contains(body, squash(w)) {
			return
		}
	}
	res.Sig("paren-copy", p[0], n)
}

// operandPositions are '+' sides that put the metavariable x into every kind of operand position of Go's expression and
// type syntax. Whatever x stood for, the rewritten code has to be the position applied to that code as a unit.
var operandPositions = []string{
	"«x»(1)", "«x»()", "«x».f", "«x».m(1)", "«x»[0]", "«x»[1:]", "«x»[:2:3]", "«x».(T)", "«x»[int]", "«x»{}", "«x»{1, 2}",
	"-«x»", "!«x»", "^«x»", "+«x»", "&«x»", "*«x»", "<-«x»",
	"«x» * 2", "2 * «x»", "«x» / 2", "2 / «x»", "«x» % 2", "«x» + 2", "2 + «x»", "«x» - 2", "2 - «x»", "«x» << 1", "1 << «x»", "«x» &^ m", "m & «x»",
	"«x» == 2", "2 != «x»", "«x» < 2", "«x» && ok", "ok && «x»", "«x» || ok", "ok || «x»", "«x» | m", "m ^ «x»",
	"[]«x»{}", "[]«x»(nil)", "chan «x»", "<-chan «x»", "chan<- «x»", "map[«x»]int{}", "map[int]«x»{}", "[«x»]int{}", "wrapT(func(«x») int)", "wrapT(func(int) «x»)", "*«x»(nil)",
	"T(«x»)", "wrap(«x»...)", "a[«x»]", "a[«x»:]", "a[:«x»]", "T{«x»: 1}", "T{k: «x»}", "a.(«x»)", "g[«x»]()", "g[int, «x»]()",
	"«x» + «x»", "«x» - «x»", "-«x» * «x»", "«x».f.g(«x»)", "*«x».f", "&«x»[0]", "<-«x».c", "!«x»(1)",
}

// operandCensus: reference-free table of (operand position x kind of bound code). The expectation is the position with
// the binding in explicit parentheses, as text; it is compared with the engine's output as a tree with parentheses
// looked through, so the engine passes exactly when what it prints parses into the instantiated tree. Cells whose
// expectation is no Go (a statement where a type must stand, ...) are not judged.
func operandCensus(ctx *core.Ctx, idx int, res *core.Result, g *gen.G) {
	r := g.R
	// every position is visited in idx order, the fillers all at once
	pos := operandPositions[(idx/25)%len(operandPositions)]
	patch := "@@\nvar x expression\n@@\n-tgtPos(x)\n+" + strings.ReplaceAll(strings.ReplaceAll(pos, "«", ""), "»", "") + "\n"
	host := []string{"\tuse(%s)\n", "\tv := %s\n\tuse(v)\n", "\tif cond(%s) {\n\t}\n", "\treturn %s\n"}[r.Intn(4)]
	var srcs, wants []string
	var kinds, fillers []string
	all := exprKindFillers
	switch pos {
	case "«x»(1)", "«x»()", "[]«x»(nil)", "«x».f", "«x»[0]", "«x».(T)", "«x»[1:]":
		// types that end in a function type without results take the text behind them for a result list; they are bound
		// only where a type can reasonably stand in the way of a conversion, a method expression or an index
		all = append(append([]struct{ kind, text string }{}, all...), []struct{ kind, text string }{
			{"FuncType", "func()"}, {"ArrayType", "[]func()"}, {"MapType", "map[K][]func()"}, {"ChanType", "chan func(int)"}}...)
	}
	for _, fl := range all {
		in := "package p\n\nfunc f() {\n" + fmt.Sprintf(host, "tgtPos("+fl.text+")") + "}\n"
		if !gen.Parses(in) {
			continue
		}
		// the binding as a unit: in parentheses. Only the type of a composite literal may not be parenthesised: there a
		// type stands as it is (anything else in that place is not judged)
		isType := gen.Parses("package p\n\nvar _ " + fl.text + "\n")
		typePos := false
		for _, tp := range []string{"[]«x»", "chan «x»", "chan<- «x»", "map[«x»]", "map[int]«x»", "[«x»]int", "func(«x»)", "func(int) «x»", "*«x»(nil)", "a.(«x»)", "g[«x»]", "g[int, «x»]", "«x»{"} {
			typePos = typePos || strings.Contains(pos, tp)
		}
		if strings.HasPrefix(pos, "«x»{") {
			// only these stand unparenthesised in front of '{' as the literal's type
			switch fl.kind {
			case "Ident", "SelectorExpr", "IndexExpr", "IndexListExpr", "ArrayType", "StructType", "MapType":
			default:
				isType = false
			}
		}
		if typePos && !isType {
			res.Ob("operand-census:value-in-type-position", 1)
			continue
		}
		want := ""
		alts := []string{"(" + fl.text + ")"}
		if strings.HasPrefix(pos, "«x»{") {
			alts = []string{fl.text}
		}
		for _, w := range alts {
			t := "package p\n\nfunc f() {\n" + fmt.Sprintf(host, strings.ReplaceAll(pos, "«x»", w)) + "}\n"
			if gen.Parses(t) {
				want = t
				break
			}
		}
		if want == "" {
			res.Ob("operand-census:expectation-is-no-go", 1)
			continue
		}
		srcs = append(srcs, in)
		wants = append(wants, want)
		kinds = append(kinds, fl.kind)
		fillers = append(fillers, fl.text)
	}
	runs := applyAPI(patch, srcs)
	dump := func(i int, what string) {
		if p := os.Getenv("VERIF_CENSUS_DUMP"); p != "" {
			if f, err := os.OpenFile(p, os.O_APPEND|os.O_CREATE|os.O_WRONLY, 0o644); err == nil {
				fmt.Fprintf(f, "%-14s | %-22s | %s\n", pos, fillers[i], what)
				f.Close()
			}
		}
	}
	for i, run := range runs {
		res.Evals++
		res.Ob("operand-census:cells", 1)
		res.Sig("operand-census", pos, srcs[i])
		rep := replayFiles(patch, srcs[i], run.Out)
		rep["expected.go"] = wants[i]
		if run.Pan != "" {
			res.Violate("C03/engine-panic:"+core.PanicSignature(run.Pan), run.Pan, rep)
			return
		}
		if run.Err != "" {
			dump(i, "error: "+run.Err)
			res.Violate("C03/engine-error/operand-census", fmt.Sprintf("position %q with x = %s: %s (the instantiated replacement %q is Go)", pos, kinds[i], run.Err, core.Trunc(wants[i], 200)), rep)
			continue
		}
		got, _, _, e1 := ref.ParseFile([]byte(run.Out), true)
		exp, _, _, e2 := ref.ParseFile([]byte(wants[i]), true)
		if e1 != nil || e2 != nil {
			res.Violate("C03/unparseable-output", fmt.Sprint(e1, e2), rep)
			return
		}
		if !ref.Equal(got.Tree, exp.Tree) {
			dump(i, "wrong: "+strings.Join(strings.Fields(run.Out), " "))
			res.Violate("C03/wrong-rewrite/operand-census", fmt.Sprintf("position %q with x = %s: %s", pos, kinds[i], ref.FirstDiff(got.Tree, exp.Tree, "")), rep)
			continue
		}
	}
}

// verbatimLiteralCase: "all other '+' tokens appear verbatim". Literals on the '+' side whose text is easily damaged by
// anything that treats the patch as lines of text: raw strings over several patch lines with blanks and tabs at the ends
// of their lines, blank lines and lines that look like patch syntax inside them, strings with escapes, runes, numbers
// in every base. Reference-free: every rewritten site holds the literal byte for byte (numbers: the same token).
// nameSlotCase: an expression metavariable stands, on the '+' side, in a slot that admits a name only (behind the dot of a
// selector). Where it is bound to a name the site is rewritten with that name, site by site.
func nameSlotCase(ctx *core.Ctx, idx int, res *core.Result, g *gen.G) {
	r := g.R
	forms := [][3]string{
		{"-field(recv, f)\n+recv.f\n", "field(%s, %s)", "%s.%s"},
		{"-invoke(recv, f, 1)\n+recv.f(1)\n", "invoke(%s, %s, 1)", "%s.%s(1)"},
		{"-field(recv, f)\n+wrap(recv.f, recv)\n", "field(%s, %s)", "wrap(%s.%s, "},
	}
	form := forms[r.Intn(len(forms))]
	pt := "@@\nvar recv, f expression\n@@\n" + form[0]
	recvs := [][2]string{{"u", "u"}, {"o.customer", "o.customer"}, {"get()", "get()"}, {"xs[0]", "xs[0]"}, {"(*p)", "(*p)"}, {"*p", "(*p)"}, {"m[\"k\"].inner", "m[\"k\"].inner"}}
	names := []string{"Name", "Address", "id", "Value_1", "ünï", "X", "recvd", "ff"}
	var in, want strings.Builder
	in.WriteString("package p\n\n")
	want.WriteString("package p\n\n")
	ns := 1 + r.Intn(5)
	var sig []string
	for i := 0; i < ns; i++ {
		rc, nm := recvs[r.Intn(len(recvs))], names[r.Intn(len(names))]
		sig = append(sig, rc[0]+"."+nm)
		fmt.Fprintf(&in, "func f%d() {\n\tuse("+form[1]+")\n}\n\n", i, rc[0], nm)
		exp := fmt.Sprintf(form[2], rc[1], nm)
		if strings.HasPrefix(form[2], "wrap(") {
			exp += rc[0] + ")"
		}
		fmt.Fprintf(&want, "func f%d() {\n\tuse(%s)\n}\n\n", i, exp)
	}
	src := in.String()
	if !gen.Parses(src) || !gen.Parses(want.String()) {
		res.Inconcl++
		return
	}
	wantOut, _ := format.Source([]byte(want.String()))
	runs := applyAPI(pt, []string{src})
	for _, run := range runs {
		res.Evals++
		res.Ob("name-slot-runs", 1)
		res.Sig("name-slot", form[0], strings.Join(sig, " "))
		rep := replayFiles(pt, src, run.Out)
		rep["expected.go"] = string(wantOut)
		if run.Pan != "" {
			res.Violate("C03/engine-panic:"+core.PanicSignature(run.Pan), run.Pan, rep)
			return
		}
		if run.Err != "" {
			res.Violate("C03/engine-error/name-slot", run.Err, rep)
			return
		}
		if strings.TrimSpace(run.Out) != strings.TrimSpace(string(wantOut)) {
			res.Violate("C03/wrong-instantiation/metavariable-in-a-name-slot", "the output is not the '+' side with the names the metavariable stood for", rep)
			return
		}
	}
}

func verbatimLiteralCase(ctx *core.Ctx, idx int, res *core.Result, g *gen.G) {
	r := g.R
	ends := []string{" ", "\t", "  \t ", "", " ,", "\t\t"}
	var rawLines []string
	n := 2 + r.Intn(4)
	for i := 0; i < n; i++ {
		body := []string{"SELECT id,", "  name", "FROM t", "", "@@", "# not a comment", "-minus", "+plus", "...", " WHERE x = 'y'", "\tindented"}[r.Intn(11)]
		rawLines = append(rawLines, body+ends[r.Intn(len(ends))])
	}
	raw := "`" + strings.Join(rawLines, "\n") + "`"
	lits := []string{raw, `"tab\there \"quoted\" \\ \u00e9 "`, `'\''`, `'\x00'`, "0x1F", "0b1010", "0o17", "1_000_000", "1e-9", "0x1p-2", "2.5i", `"trailing blank "`}
	lit := lits[0]
	if r.Intn(3) == 0 {
		lit = lits[1+r.Intn(len(lits)-1)]
	}
	var pt strings.Builder
	pt.WriteString("@@\nvar x expression\n@@\n-tgtLit(x)\n")
	for i, l := range strings.Split("replLit(x, "+lit+")", "\n") {
		_ = i
		pt.WriteString("+" + l + "\n")
	}
	var src strings.Builder
	src.WriteString("package p\n\n")
	ns := 1 + r.Intn(4)
	var args []string
	for i := 0; i < ns; i++ {
		a := g.Atom()
		args = append(args, a)
		fmt.Fprintf(&src, "func f%d() {\n\tuse(tgtLit(%s))\n}\n\n", i, a)
	}
	in := src.String()
	if !gen.Parses(in) {
		res.Inconcl++
		return
	}
	runs := applyAPI(pt.String(), []string{in})
	if idx%50 == 19 {
		if cr, _ := applyCLI(ctx, pt.String(), []string{in}); len(cr) == 1 {
			runs = append(runs, cr[0])
		}
	}
	for _, run := range runs {
		res.Evals++
		res.Ob("verbatim-literal-runs", 1)
		res.Sig("verbatim-literal", lit, ns)
		rep := replayFiles(pt.String(), in, run.Out)
		if run.Pan != "" {
			res.Violate("C03/engine-panic:"+core.PanicSignature(run.Pan), run.Pan, rep)
			return
		}
		if run.Err != "" {
			res.Violate("C03/engine-error", "literal on the '+' side: "+run.Err, rep)
			return
		}
		// (", lit)": an argument of a site may happen to be the same literal)
		if c := strings.Count(run.Out, ", "+lit+")"); c != ns {
			res.Violate("C03/plus-literal-not-verbatim", fmt.Sprintf("the '+' side spells the literal %q; it stands %d times in the output, there are %d sites", lit, c, ns), rep)
			return
		}
		for i, a := range args {
			if !strings.Contains(strings.Join(strings.Fields(run.Out), ""), "replLit("+strings.Join(strings.Fields(a), "")+",") {
				res.Violate("C03/wrong-rewrite", fmt.Sprintf("site %d: replLit(%s, ...) is not in the output", i, a), rep)
				return
			}
		}
	}
}

// siteCensus is the operand census seen from the other side: the '+' side has no metavariable at all and is itself every
// kind of code; the name it replaces stands in every operand position of the file. What the file holds afterwards is the
// position applied to the replacement as a unit, whether or not anything was captured.
func siteCensus(ctx *core.Ctx, idx int, res *core.Result, g *gen.G) {
	fl := exprKindFillers[(idx/25)%len(exprKindFillers)]
	if strings.HasPrefix(fl.text, "func") {
		// a '+' side that begins with 'func' is read as a declaration (a limit of the patch language): as an argument
		fl.text = "(" + fl.text + ")"
	}
	patch := "@@\n@@\n-tgtSite\n+" + fl.text + "\n"
	isType := gen.Parses("package p\n\nvar _ " + fl.text + "\n")
	var srcs, wants, poss []string
	for _, pos := range operandPositions {
		if strings.Count(pos, "«x»") != 1 {
			continue
		}
		typePos := false
		for _, tp := range []string{"[]«x»", "chan «x»", "chan<- «x»", "map[«x»]", "map[int]«x»", "[«x»]int", "func(«x»)", "func(int) «x»", "*«x»(nil)", "a.(«x»)", "g[«x»]", "g[int, «x»]", "«x»{"} {
			typePos = typePos || strings.Contains(pos, tp)
		}
		if typePos && (!isType || strings.HasPrefix(pos, "«x»{")) {
			continue
		}
		in := "package p\n\nfunc f() {\n\tuse(" + strings.ReplaceAll(pos, "«x»", "tgtSite") + ")\n}\n"
		want := "package p\n\nfunc f() {\n\tuse(" + strings.ReplaceAll(pos, "«x»", "("+fl.text+")") + ")\n}\n"
		if !gen.Parses(in) || !gen.Parses(want) {
			res.Ob("site-census:expectation-is-no-go", 1)
			continue
		}
		srcs, wants, poss = append(srcs, in), append(wants, want), append(poss, pos)
	}
	runs := applyAPI(patch, srcs)
	for i, run := range runs {
		res.Evals++
		res.Ob("site-census:cells", 1)
		res.Sig("site-census", fl.text, poss[i])
		rep := replayFiles(patch, srcs[i], run.Out)
		rep["expected.go"] = wants[i]
		if run.Pan != "" {
			res.Violate("C03/engine-panic:"+core.PanicSignature(run.Pan), run.Pan, rep)
			return
		}
		if run.Err != "" {
			res.Violate("C03/engine-error/site-census", fmt.Sprintf("replacement %q (%s) at position %q: %s", fl.text, fl.kind, poss[i], run.Err), rep)
			continue
		}
		got, _, _, e1 := ref.ParseFile([]byte(run.Out), true)
		exp, _, _, e2 := ref.ParseFile([]byte(wants[i]), true)
		if e1 != nil || e2 != nil {
			res.Violate("C03/unparseable-output", fmt.Sprint(e1, e2), rep)
			continue
		}
		if !ref.Equal(got.Tree, exp.Tree) {
			res.Violate("C03/wrong-rewrite/site-census", fmt.Sprintf("replacement %q (%s) at position %q: %s", fl.text, fl.kind, poss[i], ref.FirstDiff(got.Tree, exp.Tree, "")), rep)
		}
	}
}
