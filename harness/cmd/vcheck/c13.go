package main

import (
	"fmt"
	"os"
	"path/filepath"
	"sort"
	"strings"
	"sync"

	"verif/harness/core"
	"verif/harness/gen"
	"verif/harness/ref"
)

type rawCase struct {
	Name   string
	Patch  string
	Inputs []string
}

var (
	rawOnce  sync.Once
	rawCases []rawCase
)

// parseTxtar splits a txtar archive into name -> content.
func parseTxtar(b string) map[string]string {
	out := map[string]string{}
	var name string
	var sb strings.Builder
	flush := func() {
		if name != "" {
			out[name] = sb.String()
		}
		sb.Reset()
	}
	for _, l := range strings.SplitAfter(b, "\n") {
		t := strings.TrimSpace(l)
		if strings.HasPrefix(t, "-- ") && strings.HasSuffix(t, " --") {
			flush()
			name = strings.TrimSpace(t[3 : len(t)-3])
			continue
		}
		sb.WriteString(l)
	}
	flush()
	return out
}

// RawCases loads the repository's own testdata and example patches with their inputs.
func RawCases() []rawCase {
	rawOnce.Do(func() {
		ents, _ := os.ReadDir(filepath.Join(core.RepoDir(), "testdata"))
		for _, e := range ents {
			if e.IsDir() || e.Name() == "README.md" {
				continue
			}
			b, err := os.ReadFile(filepath.Join(core.RepoDir(), "testdata", e.Name()))
			if err != nil {
				continue
			}
			ar := parseTxtar(string(b))
			rc := rawCase{Name: "testdata/" + e.Name()}
			var names []string
			for n := range ar {
				names = append(names, n)
			}
			sort.Strings(names)
			for _, n := range names {
				switch {
				case strings.HasSuffix(n, ".patch"):
					if rc.Patch == "" {
						rc.Patch = ar[n]
					}
				case strings.HasSuffix(n, ".in.go"):
					rc.Inputs = append(rc.Inputs, ar[n])
				}
			}
			if rc.Patch != "" && len(rc.Inputs) > 0 {
				rawCases = append(rawCases, rc)
			}
		}
		sort.Slice(rawCases, func(i, j int) bool { return rawCases[i].Name < rawCases[j].Name })
	})
	return rawCases
}

func nonEmpty(l []string) []string {
	var out []string
	for _, s := range l {
		if s != "" {
			out = append(out, s)
		}
	}
	return out
}

func normDesc(s string) string {
	return strings.TrimSpace(s) // the text behind the '#', without it: an indented '#' is no part of the description
}

func init() {
	core.Register(&core.Prop{
		ID:    "C13",
		Level: "exploration",
		Rule: "cases: base patches (random expression patterns, the schema library, the repository's own testdata patches with their inputs) x 10 layout variants composed of 1-4 transformations from: insert '#' lines anywhere (indented too), " +
			"blank lines (before the first header, between changes, inside the metavariable section, at the end), '@@' <-> '@ name @', consistent metavariable renaming (incl. the names dts and d), regrouping/reordering/';'-joining declarations, " +
			"identical re-indentation and re-wrapping of both sides, context line <-> identical '-'/'+' pair, with/without final newline. Metamorphic oracle: every variant must give canonically the same output as the base on every file " +
			"(and be accepted iff the base is); '#' lines directly above the header, and only those, are printed as descriptions (CLI --print-only, stderr). non-trivial = variant text differs from base and base rewrites >=1 file; distinct = (base, transformation word).",
		Assumptions: []string{"only transformations listed in the property statement are applied; metavariables that name an import are never renamed (none are generated)"},
		Cases: func(tier string) int {
			if tier == "thorough" {
				return 12000
			}
			return 900
		},
		Floor: func(string) int { return 300 },
		Run:   runC13,
	})
}

// c13NamesProbe: naming the changes of a patch file - all of them, some of them, several of them alike - changes nothing.
// The later changes have elisions on lines whose number differs between the '-' and the '+' version of the change
// (more '-' lines than '+' lines in front of a context line), which is where a mix-up of one change's line table with
// another's shows.
func c13NamesProbe(ctx *core.Ctx, res *core.Result, idx int) {
	r := ctx.Rand("c13names", idx)
	bodies := []string{
		"@@\n@@\n-p()\n+q()\n",
		"@@\n@@\n-a(...)\n-x()\n+b(...)\n c(...)\n",
		"@@\nvar v expression\n@@\n-d(...)\n-y()\n-z()\n+e(v, ...)\n f(v, ...)\n",
		"@@\n@@\n g(...)\n-h(...)\n-k()\n+m(...)\n n(...)\n",
	}
	src := "package p\n\nfunc f1() {\n\tp()\n}\n\nfunc f2() {\n\ta(1, 2)\n\tx()\n\tc(3, 4)\n}\n\nfunc f3() {\n\td(5, 6)\n\ty()\n\tz()\n\tf(7, 8, 9)\n}\n\nfunc f4() {\n\tg(10)\n\th(11, 12)\n\tk()\n\tn(13)\n}\n"
	perm := r.Perm(len(bodies))[:2+r.Intn(3)]
	build := func(names []string) string {
		var sb strings.Builder
		for i, bi := range perm {
			b := bodies[bi]
			if names[i] != "" {
				b = "@ " + names[i] + " @" + strings.TrimPrefix(b, "@@")
			}
			sb.WriteString(b + "\n")
		}
		return sb.String()
	}
	n := len(perm)
	schemes := map[string][]string{"unnamed": make([]string, n), "distinct": nil, "all-alike": nil, "two-alike": nil, "first-only": make([]string, n)}
	for i := 0; i < n; i++ {
		schemes["distinct"] = append(schemes["distinct"], fmt.Sprintf("step%d", i))
		schemes["all-alike"] = append(schemes["all-alike"], "fix")
		schemes["two-alike"] = append(schemes["two-alike"], map[bool]string{true: "fix", false: ""}[i == 0 || i == n-1])
	}
	schemes["first-only"][0] = "fix"
	base := applyAPI(build(schemes["unnamed"]), []string{src})[0]
	res.Evals++
	if base.Pan != "" || base.Err != "" || base.Out == src {
		res.Violate("C13/names-probe-failed", base.Pan+base.Err, map[string]string{"p.patch": build(schemes["unnamed"]), "in.go": src})
		return
	}
	for _, k := range []string{"distinct", "all-alike", "two-alike", "first-only"} {
		pt := build(schemes[k])
		run := applyAPI(pt, []string{src})[0]
		res.Evals++
		res.Ob("names-probe-runs", 1)
		res.Sig("names-probe", k, fmt.Sprint(perm))
		if run.Pan != "" || run.Err != "" || run.Out != base.Out {
			rep := replayFiles(pt, src, run.Out)
			rep["unnamed.patch"], rep["unnamed-output.go"] = build(schemes["unnamed"]), base.Out
			res.Violate("C13/layout-changes-result/change-names", fmt.Sprintf("naming scheme %q gives another result than the unnamed changes (%s%s)", k, run.Pan, run.Err), rep)
			return
		}
	}
}

func runC13(ctx *core.Ctx, idx int) *core.Result {
	res := &core.Result{}
	if idx%9 == 4 {
		c13NamesProbe(ctx, res, idx)
	}
	r := ctx.Rand("c13", idx)
	g := gen.NewG(r)
	g.NoRelayoutComment = true // see known finding 24: a comment behind replaced code would make '-'/'+' pairs differ from context lines
	type variant struct {
		text  string
		word  string
		descs []string
	}
	var baseText, baseName string
	var srcs []string
	var variants []variant
	raws := RawCases()
	if idx%4 == 3 && len(raws) > 0 {
		rc := raws[(idx/4)%len(raws)]
		baseText, baseName, srcs = rc.Patch, rc.Name, rc.Inputs
		for v := 0; v < 10; v++ {
			t, w, d := gen.TextTransform(baseText, r, 1+r.Intn(4))
			if strings.Count(baseText, "\n@@\n")+strings.Count(baseText, "@\n") > 3 {
				d = nil // several changes: which description is printed depends on which change matched last
			}
			variants = append(variants, variant{t, w, d})
		}
	} else if idx%8 == 5 {
		// a stepwise migration: the '-' side of the second change is, byte for byte, the '+' side of the first one.
		// Re-laying one of the two changes (which ends the textual identity) must not change the result.
		mvx := []gen.MetaVar{{Name: "v", Kind: "identifier"}, {Name: "x", Kind: "expression"}}
		var c1, c2 *gen.Change
		mk := func(kind string, meta []gen.MetaVar, ls ...string) *gen.Change {
			c := &gen.Change{Kind: kind, Schema: "c13-two-step", Meta: meta}
			for _, l := range ls {
				c.Lines = append(c.Lines, gen.L(l[0], l[1:]))
			}
			return c
		}
		var plant func() gen.Plant
		switch r.Intn(3) {
		case 0:
			c1 = mk("stmts", mvx, " «v», err := tgtOpen(«x»)", " ‹1:stmts›", "-defer «v».Close()", "+defer quiet(«v»)")
			c2 = mk("stmts", mvx, " «v», err := tgtOpen(«x»)", " ‹1:stmts›", "-defer quiet(«v»)", "+defer loud(«v»)")
			plant = func() gen.Plant {
				return gen.Plant{Kind: "stmts", Text: "before()\nfh, err := tgtOpen(" + g.Atom() + ")\nif err != nil {\n\treturn\n}\ncheck(fh)\ndefer fh.Close()\nafter()"}
			}
		case 1:
			mx := []gen.MetaVar{{Name: "x", Kind: "expression"}}
			c1 = mk("expr", mx, "-tgtA(‹1:args›, «x», ‹2:args›)", "+tgtB(‹1:args›, «x», ‹2:args›)")
			c2 = mk("expr", mx, "-tgtB(‹1:args›, «x», ‹2:args›)", "+tgtC(‹1:args›, wrap(«x»), ‹2:args›)")
			plant = func() gen.Plant {
				return gen.Plant{Kind: "expr", Text: "tgtA(" + g.Run("args", 1+r.Intn(2)) + ", " + g.Atom() + ", " + g.Run("args", 1+r.Intn(2)) + ")"}
			}
		default:
			c1 = mk("stmts", mvx, " «v» := tgtNew(«x»)", " ‹1:stmts›", " if «v».Ready() {", "   ‹2:stmts›", "-  «v».Start()", "+  «v».Run()", " }")
			c2 = mk("stmts", mvx, " «v» := tgtNew(«x»)", " ‹1:stmts›", " if «v».Ready() {", "   ‹2:stmts›", "-  «v».Run()", "+  «v».RunCtx(ctx)", " }")
			plant = func() gen.Plant {
				return gen.Plant{Kind: "stmts", Text: "w := tgtNew(" + g.Atom() + ")\nprep(w)\nif w.Ready() {\n\tlog()\n\tw.Start()\n}\nafter()"}
			}
		}
		baseText, baseName = c1.PatchText()+"\n"+c2.PatchText(), "two-step:"+c1.Skeleton()
		for f := 0; f < 3; f++ {
			var plants []gen.Plant
			for i := 0; i < 1+r.Intn(3); i++ {
				plants = append(plants, plant())
			}
			srcs = append(srcs, g.File(gen.FileOpts{Plants: plants}))
		}
		for v := 0; v < 10; v++ {
			d := []*gen.Change{c1, c2}
			which := r.Intn(2)
			word := ""
			switch r.Intn(4) {
			case 0:
				if nd, ok := gen.Reindent(d[which], r); ok {
					d[which], word = nd, "reindent"
				}
			case 1:
				if nd, ok := gen.RenameMetas(d[which], r); ok {
					d[which], word = nd, "rename"
				}
			case 2:
				if nd, ok := gen.ContextToPair(d[which], r); ok && nd.CheckPairing() == nil {
					d[which], word = nd, "context<->pair"
				}
			}
			t0, t1 := d[0].PatchText(), d[1].PatchText()
			w := ""
			if which == 0 {
				t0, w, _ = gen.TextTransform(t0, r, r.Intn(3))
			} else {
				t1, w, _ = gen.TextTransform(t1, r, r.Intn(3))
			}
			sep := []string{"\n", "\n\n", "\n# step two\n"}[r.Intn(3)]
			variants = append(variants, variant{t0 + sep + t1, fmt.Sprintf("two-step[%d]:%s+%s", which, word, w), nil})
		}
		res.Ob("two-step-cases", 1)
	} else {
		var c *gen.Change
		if idx%4 == 2 {
			c = c02Change(idx / 4)
		} else {
			c = g.RandomChangeWide()
		}
		if r.Intn(2) == 0 {
			c.Comments = []string{"desc " + fmt.Sprint(r.Intn(100))}
			switch r.Intn(4) {
			case 0:
				c.Comments = append(c.Comments, "second line")
			case 1:
				// two paragraphs with an empty '#' line between them
				c.Comments = append(c.Comments, "", "second paragraph "+fmt.Sprint(r.Intn(100)))
			}
		}
		if _, err := c.RefPattern(); err != nil {
			res.Inconcl++
			return res
		}
		baseText, baseName = c.PatchText(), c.Schema+":"+c.Skeleton()
		for f := 0; f < 3; f++ {
			plants, _ := g.InstancePlants(c, 1+r.Intn(3), r.Intn(2))
			srcs = append(srcs, g.File(gen.FileOpts{Plants: plants}))
		}
		for v := 0; v < 10; v++ {
			d := c
			var words []string
			for k := 0; k < 1+r.Intn(3); k++ {
				var ok bool
				var nd *gen.Change
				switch r.Intn(7) {
				case 6:
					nd, ok = gen.Respace(d, r)
					if ok {
						words = append(words, "respace")
					}
				case 0:
					nd, ok = gen.RenameMetas(d, r)
					if ok {
						words = append(words, "rename")
					}
				case 1:
					nd, ok = gen.RegroupMeta(d, r)
					if ok {
						words = append(words, "regroup")
					}
				case 2:
					nd, ok = gen.Reindent(d, r)
					if ok {
						words = append(words, "reindent")
					}
				case 3:
					nd, ok = gen.ContextToPair(d, r)
					if ok {
						words = append(words, "context<->pair")
					}
				case 4:
					nd, ok = gen.BreakCalls(d, r)
					if ok {
						words = append(words, "rewrap")
					}
				default:
					continue
				}
				if ok && nd.CheckPairing() == nil {
					d = nd
				}
			}
			t, w, descs := gen.TextTransform(d.PatchText(), r, r.Intn(4))
			words = append(words, w)
			variants = append(variants, variant{t, strings.Join(words, "+"), descs})
		}
	}
	base := applyAPI(baseText, srcs)
	baseRewrites := 0
	for i := range srcs {
		if base[i].Pan != "" {
			res.Violate("C13/engine-panic:"+core.PanicSignature(base[i].Pan), base[i].Pan, map[string]string{"p.patch": baseText, "in.go": srcs[i]})
			return res
		}
		if base[i].Err == "" && base[i].Out != srcs[i] {
			baseRewrites++
		}
	}
	baseTrees := make([]*ref.File, len(srcs))
	for i := range srcs {
		if base[i].Err == "" {
			baseTrees[i], _, _, _ = ref.ParseFile([]byte(base[i].Out), true)
		}
	}
	dir, _ := os.MkdirTemp(ctx.Tmp, "c13")
	defer os.RemoveAll(dir)
	for _, v := range variants {
		res.Evals++
		runs := applyAPI(v.text, srcs)
		rep := func(i int) map[string]string {
			return map[string]string{"base.patch": baseText, "p.patch": v.text, "in.go": srcs[i], "base.go": base[i].Out, "actual.go": runs[i].Out}
		}
		bad := false
		for i := range srcs {
			switch {
			case runs[i].Pan != "":
				res.Violate("C13/engine-panic:"+core.PanicSignature(runs[i].Pan), runs[i].Pan, rep(i))
				bad = true
			case (runs[i].Err == "") != (base[i].Err == ""):
				cls := "variant-rejected"
				if base[i].Err != "" {
					cls = "variant-accepted-base-rejected"
				}
				if strings.HasPrefix(v.text, "\n") {
					cls += "/leading-blank-line"
				}
				res.Violate("C13/"+cls, fmt.Sprintf("[%s, %s] base: %q variant: %q", baseName, v.word, base[i].Err, runs[i].Err), rep(i))
				bad = true
			case runs[i].Err == "":
				t, _, _, err := ref.ParseFile([]byte(runs[i].Out), true)
				if err != nil || baseTrees[i] == nil {
					continue
				}
				if !ref.Equal(t.Tree, baseTrees[i].Tree) || !sameImports(t.Imports, baseTrees[i].Imports) {
					res.Violate("C13/layout-changes-result", fmt.Sprintf("[%s, %s] %s", baseName, v.word, ref.FirstDiff(t.Tree, baseTrees[i].Tree, "")), rep(i))
					bad = true
				}
			}
			if bad {
				break
			}
		}
		if bad {
			continue
		}
		if v.text != baseText && baseRewrites > 0 {
			res.Sig(baseName, v.word)
		}
		res.Ob("variants-compared", 1)
		// descriptions through the CLI (--print-only, one file)
		if v.descs != nil || strings.Contains(v.text, "#") {
			if i := firstRewritten(base, srcs); i >= 0 && res.Evals%3 == 0 {
				os.WriteFile(filepath.Join(dir, "v.patch"), []byte(v.text), 0o644)
				os.WriteFile(filepath.Join(dir, "t.go"), []byte(srcs[i]), 0o644)
				cr := ctx.RunCLI(core.CLIOpts{Dir: dir, Args: []string{"-p", "v.patch", "--print-only", "t.go"}})
				res.Ob("description-runs", 1)
				var got []string
				for _, l := range strings.Split(strings.TrimSpace(string(cr.Stderr)), "\n") {
					if strings.HasPrefix(l, "t.go:") {
						got = append(got, normDesc(strings.TrimPrefix(l, "t.go:")))
					} else if strings.TrimSpace(l) != "" {
						got = append(got, "?"+l)
					}
				}
				var want []string
				for _, d := range v.descs {
					want = append(want, normDesc(d))
				}
				// an empty '#' line says nothing: whether it is echoed is not part of the description
				got, want = nonEmpty(got), nonEmpty(want)
				if cr.Exit != 0 || (v.descs != nil && strings.Join(got, "|") != strings.Join(want, "|")) {
					res.Violate("C13/description-mismatch", fmt.Sprintf("[%s] exit %d, stderr descriptions %q, expected %q", v.word, cr.Exit, got, want),
						map[string]string{"p.patch": v.text, "in.go": srcs[i], "stderr.txt": string(cr.Stderr)})
				}
			}
		}
	}
	if baseRewrites > 0 {
		res.Sample(map[string]any{"base": baseText, "variant": variants[0].text, "transformations": variants[0].word})
	}
	return res
}

func firstRewritten(base []engineRun, srcs []string) int {
	for i := range srcs {
		if base[i].Err == "" && base[i].Pan == "" && base[i].Out != srcs[i] {
			return i
		}
	}
	return -1
}
