package main

import (
	"fmt"
	"os"
	"path/filepath"
	"strings"

	"verif/harness/core"
	"verif/harness/gen"
)

// uglify applies layout changes that keep a file parseable but not gofmt-formatted.
func uglify(src string, kind int) (string, string) {
	switch kind {
	case 0:
		return src, "gofmt-like"
	case 1:
		return strings.ReplaceAll(src, "\t", "   "), "spaces-for-tabs"
	case 2:
		return strings.ReplaceAll(src, "\n", "\r\n"), "crlf"
	case 3:
		return strings.TrimRight(src, "\n"), "no-final-newline"
	case 4:
		return strings.ReplaceAll(src, "\n}\n", "\n\n\n}\n\n\n"), "extra-blank-lines"
	case 5:
		return strings.ReplaceAll(strings.ReplaceAll(src, "(", "( "), " {\n", "  {   \n"), "odd-spacing"
	case 6:
		return "// Copyright header\n\n//go:build linux || !windows\n\n/* odd\n   block */\n" + src, "header-buildtag-comments"
	case 8:
		return "\xEF\xBB\xBF" + src, "utf8-bom"
	case 9:
		return "\xEF\xBB\xBF" + strings.ReplaceAll(src, "\n", "\r\n"), "utf8-bom-crlf"
	case 10:
		return src + "\nvar longLine = \"" + strings.Repeat("0123456789abcdef", 4200) + "\" // a line longer than 64 KiB\n", "very-long-line"
	case 11:
		return strings.Replace(src, "package p\n", "package p\n\n//line other.go:100\nvar lineDirective = 1 \t \n", 1), "line-directive-trailing-space"
	default:
		return strings.Replace(src, "package p\n", "package p\n\nimport (\n\t\"os\"\n\t\"fmt\"\n\n\tb \"a/z\"\n\t\"a/a\"\n)\n\nvar _ = fmt.Sprint\nvar _ = os.Exit\nvar _ = b.X\n", 1), "unsorted-imports"
	}
}

func init() {
	core.Register(&core.Prop{
		ID:    "C06",
		Level: "exploration",
		Rule: "cases: CLI runs over 3-8 files in which some or all files cannot match: (A) every pattern is anchored on an identifier that occurs in no file, (B) a matching non-idempotent patch with unmatched files between matched ones, " +
			"(C) package-clause or import guard fails although the code pattern occurs (near-miss guards: p vs p_test, path prefix, named vs unnamed), (D) near-miss-only files, (E) B plus files that fail, (F) the pattern occurs only where its replacement is not admissible; files in 12 layouts (gofmt-like, spaces for tabs, CRLF, no final newline, extra blank lines, odd spacing, header+build tag+block comment, unsorted imports, UTF-8 byte order mark, BOM+CRLF, a line longer than 64 KiB, //line directive with trailing white space) and standard-library files; " +
			"modes {in place, --diff, --print-only} x -v x --skip-import-processing x 1-2 patch files; every 8th run under strace -f. Monitors: digest (bytes, inode, mtime, ctime, mode) of every unmatched file before/after, stdout/stderr/exit oracle, " +
			"strace event log free of open-for-write/write/rename/unlink/chmod/utimensat on unmatched files, and Apply(src)==src through the library. non-trivial = unmatched file is not gofmt-clean or sits in a run with a matching file; distinct = (layout, mode+flags, reason for no match, position in run).",
		Assumptions: []string{"'cannot match' is established without the reference model: anchor identifier absent from the file's text, guard on a package name / import path the file does not have, or an extra literal argument"},
		Cases: func(tier string) int {
			if tier == "thorough" {
				return 12000
			}
			return 2500
		},
		Floor: func(string) int { return 200 },
		Run:   runC06,
	})
}

// c06MetaImportProbe: the guard holds (the import line of the change is named by an identifier metavariable and the file
// imports the path without a name), and the code of the change, which uses that metavariable as a qualifier, occurs in the
// file only behind other qualifiers. No change applies: the file is untouched in every mode.
func c06MetaImportProbe(ctx *core.Ctx, res *core.Result, idx int) {
	r := ctx.Rand("c06meta", idx)
	mv := []string{"foo", "pkg", "x"}[r.Intn(3)]
	pt := "# clients\n@@\nvar " + mv + " identifier\n@@\n import " + mv + " \"example.com/foo\"\n\n-" + mv + ".FooClient\n+" + mv + ".Client\n"
	quals := []string{"other", "o", "foox", "local"}
	q := quals[r.Intn(len(quals))]
	imp := "import (\n\t\"example.com/foo\"\n\t\"example.com/other\"\n)\n"
	decl := "func   mk() " + q + ".FooClient { return " + q + ".FooClient{ } }\n"
	switch q {
	case "other":
	case "local":
		imp = "import \"example.com/foo\"\n"
		decl = "func   mk(local struct{ FooClient int }) int { return local.FooClient }\n"
	default:
		imp = "import (\n\t\"example.com/foo\"\n\t" + q + " \"example.com/other\"\n)\n"
	}
	src := "package a\n\n" + imp + "\nvar _ = foo.Version\n\n" + decl
	if !gen.Parses(src) {
		res.Inconcl++
		return
	}
	rep := map[string]string{"p.patch": pt, "in.go": src}
	res.Evals++
	res.Ob("meta-import-probes", 1)
	res.Sig("meta-import", mv, q)
	if ar := core.ApplyAPI(pt, src); !ar.OK() || string(ar.Out) != src {
		res.Violate("C06/api-changed-unmatched-input/metavariable-named-import", ar.ErrString()+string(ar.Out), rep)
		return
	}
	for _, mode := range []string{"--diff", "--print-only", ""} {
		dir, _ := os.MkdirTemp(ctx.Tmp, "c06meta")
		defer os.RemoveAll(dir)
		os.MkdirAll(filepath.Join(dir, "src"), 0o755)
		os.WriteFile(filepath.Join(dir, "src", "a.go"), []byte(src), 0o644)
		os.WriteFile(filepath.Join(dir, "p.patch"), []byte(pt), 0o644)
		args := []string{"-p", "p.patch"}
		if mode != "" {
			args = append(args, mode)
		}
		before := core.TreeDigest(filepath.Join(dir, "src"))
		cr := ctx.RunCLI(core.CLIOpts{Dir: dir, Args: append(args, "src/a.go")})
		after := core.TreeDigest(filepath.Join(dir, "src"))
		rep["stdout.txt"], rep["stderr.txt"] = string(cr.Stdout), string(cr.Stderr)
		want := ""
		if mode == "--print-only" {
			want = src
		}
		switch {
		case cr.CrashClass() != "" || cr.Exit != 0:
			res.Violate("C06/nonzero-exit/metavariable-named-import", fmt.Sprintf("[%s] exit %d: %s", mode, cr.Exit, cr.Stderr), rep)
		case before["a.go"] != after["a.go"]:
			res.Violate("C06/unmatched-file-touched/metavariable-named-import", mode, rep)
		case string(cr.Stdout) != want || len(cr.Stderr) != 0:
			res.Violate("C06/stderr-output-without-match/metavariable-named-import", fmt.Sprintf("[%s] stdout %q stderr %q", mode, core.Trunc(string(cr.Stdout), 200), core.Trunc(string(cr.Stderr), 200)), rep)
		default:
			continue
		}
		return
	}
}

func runC06(ctx *core.Ctx, idx int) *core.Result {
	res := &core.Result{}
	if idx%10 == 4 {
		c06MetaImportProbe(ctx, res, idx)
	}
	r := ctx.Rand("c06", idx)
	g := gen.NewG(r)
	g.Comment = r.Intn(2) == 0
	kind := []string{"A-anchor-absent", "B-mixed", "C-guard-fails", "D-near-miss", "E-mixed-with-failures", "F-only-inadmissible-sites", "G-only-package-clause-or-imports"}[idx%7]
	withFailures := kind == "E-mixed-with-failures"
	if withFailures {
		// like B, plus a file that does not parse and a file on which a change matches but cannot be built:
		// the run fails, the files that nothing matches are still untouched, silent and echoed
		kind = "B-mixed"
	}
	matching := "@@\nvar x expression\n@@\n-bump(x)\n+bump(x + 1)\n"
	var patches []string
	guardedFollowUp := false
	// kind C: what the first file of the run has when it is the one file that satisfies the guard (every change of the
	// run is guarded; a file that a change applied to is followed by files whose guards fail)
	guardOKPkg, guardOKImp := "", ""
	gk, dk := 0, 0
	_ = gk
	guardFilePkg, guardFileImp := "", "" // kind C: the package / the import the files have instead of the guarded one
	switch kind {
	case "A-anchor-absent":
		patches = append(patches, "# desc A\n@@\nvar x expression\n@@\n-zzNoSuchFn(x)\n+zzOther(x)\n")
		if r.Intn(2) == 0 {
			patches = append(patches, "@@\n@@\n-zzNoSuchIdent\n+zzRenamed\n\n@@\nvar v identifier\n@@\n-v := zzNoSuchCall()\n+v := 1\n")
		}
	case "B-mixed":
		patches = append(patches, "# bumps\n"+matching)
		if r.Intn(2) == 0 {
			patches = append(patches, "@@\n@@\n-zzNoSuchIdent\n+zzRenamed\n")
		}
		if withFailures {
			patches = append(patches, "@@\nvar n, y expression\n@@\n-var _ = tgtPair(n, y)\n+var n = y\n")
		}
	case "C-guard-fails":
		// the guard is a near-miss of what the files have: package p vs p_test / pp / P, an import path that is a
		// prefix or an extension of the imported one, a named import for an unnamed one
		pkgPairs := [][2]string{{"zzotherpkg", "p"}, {"p", "p_test"}, {"p_test", "p"}, {"pp", "p"}, {"p", "pp"}, {"P", "p"}, {"main", "main_test"}}
		pp := pkgPairs[r.Intn(len(pkgPairs))]
		impPairs := [][2]string{{"\"example.com/zz/absent\"", ""}, {"\"example.com/zz\"", "\"example.com/zz/v2\""}, {"\"example.com/zz/v2\"", "\"example.com/zz\""},
			{"zz \"example.com/zz\"", "\"example.com/zz\""}, {"\"example.com/zz\"", "zz \"example.com/zz\""}, {"\"example.com/zz\"", "_ \"example.com/zz\""}}
		ip := impPairs[r.Intn(len(impPairs))]
		switch r.Intn(4) {
		case 3:
			// two import lines: the file has the first one and nothing of the second path
			patches = append(patches, "# guarded\n@@\nvar x expression\n@@\n import \"example.com/zz\"\n import \"example.com/zz/second\"\n\n-bump(x)\n+bump(x + 1)\n")
			guardFileImp = "\"example.com/zz\""
			guardOKImp = "(\n\t\"example.com/zz\"\n\t\"example.com/zz/second\"\n)"
		case 0:
			patches = append(patches, "# guarded\n@@\nvar x expression\n@@\n package "+pp[0]+"\n\n-bump(x)\n+bump(x + 1)\n")
			guardFilePkg = pp[1]
			guardOKPkg = pp[0]
		case 1:
			patches = append(patches, "# guarded\n@@\nvar x expression\n@@\n import "+ip[0]+"\n\n-bump(x)\n+bump(x + 1)\n")
			guardFileImp = ip[1]
			guardOKImp = ip[0]
		default:
			patches = append(patches, "# guarded\n@@\nvar x expression\n@@\n-package "+pp[0]+"\n+package renamed\n\n-bump(x)\n+bump(x + 1)\n")
			guardFilePkg = pp[1]
		}
	case "F-only-inadmissible-sites":
		// the pattern occurs, but only where the replacement cannot stand (a selector or a call for a declared name, a
		// field name, a label): no site is rewritten, so no change applies to the file
		patches = append(patches, "# qualify\n@@\n@@\n-tgtName\n+pkg.NewName\n")
		if r.Intn(2) == 0 {
			patches = append(patches, "# package too\n@@\n@@\n-package p\n+package q\n\n-tgtOther\n+mk().Other\n")
			if r.Intn(2) == 0 {
				// a later change is guarded by the package name that the change above would have given the file had
				// it applied; its code occurs in every file. The change above rewrites nothing, so the files are
				// still of package p and this one does not apply either
				patches = append(patches, "# for the renamed package\n@@\nvar x expression\n@@\n package q\n\n-bump(x)\n+bump(x + 1)\n")
				guardedFollowUp = true
			}
		}
	case "G-only-package-clause-or-imports":
		// the code of the patch is spelled like the package name, an import name or an import path of the files and like
		// nothing in their code: the package clause and the imports are not code, nothing matches
		gk = r.Intn(4)
		switch gk {
		case 0:
			patches = append(patches, "# rename\n@@\n@@\n-zzpkgname\n+zzrenamed\n")
			guardFilePkg = "zzpkgname"
		case 1:
			patches = append(patches, "# path\n@@\n@@\n-\"example.com/zz/lit\"\n+\"example.com/zz/other\"\n")
			guardFileImp = "\"example.com/zz/lit\""
		case 2:
			patches = append(patches, "# import name\n@@\n@@\n-zzalias\n+zznewalias\n")
			guardFileImp = "zzalias \"example.com/zz/named\""
		default:
			patches = append(patches, "# both\n@@\nvar x expression\n@@\n-package zzpkgname\n+package zzother\n\n-zzpkgname\n+zzrenamed\n", "@@\n@@\n-zzalias.Use\n+zzalias.Used\n")
			guardFilePkg, guardFileImp = "zzpkgname", "zzalias \"example.com/zz/named\""
		}
	case "D-near-miss":
		// 1-3: the files differ from the pattern in a token that is optional in Go's syntax (the '...' of a spread call,
		// the '=' of an alias declaration, the parentheses of a declaration group) and that the pattern does not have
		dk = r.Intn(4)
		switch dk {
		case 0:
			patches = append(patches, "# near\n@@\nvar x expression\n@@\n-bump(x, 1)\n+bump(x + 1)\n")
		case 1:
			patches = append(patches, "# near\n@@\nvar x expression\n@@\n-bump(x)\n+bumped(x)\n")
		case 2:
			patches = append(patches, "# near\n@@\n@@\n-type NmAlias NmBase\n+type NmAlias NmOther\n")
		default:
			patches = append(patches, "# near\n@@\n@@\n-var nmV = 1\n+var nmV = 2\n")
		}
	}
	nf := 3 + r.Intn(6)
	firstHolds := r.Intn(2) == 0
	type fileInfo struct {
		name, src, layout string
		matched           bool
		failing           bool // does not parse, or a change cannot be built for it
	}
	var files []fileInfo
	brokenAt, failAt := -1, -1
	if withFailures {
		brokenAt, failAt = r.Intn(nf), r.Intn(nf)
		if failAt == brokenAt {
			failAt = (brokenAt + 1) % nf
		}
	}
	for f := 0; f < nf; f++ {
		var src string
		var plants []gen.Plant
		matched := false
		switch kind {
		case "B-mixed":
			if r.Intn(2) == 0 {
				matched = true
				for i := 0; i < 1+r.Intn(3); i++ {
					plants = append(plants, gen.Plant{Kind: "expr", Text: "bump(" + g.Atom() + ")"})
				}
			}
		case "C-guard-fails":
			plants = append(plants, gen.Plant{Kind: "expr", Text: "bump(" + g.Atom() + ")"})
			if f == 0 && firstHolds && (guardOKPkg != "" || guardOKImp != "") {
				matched = true
			}
		case "F-only-inadmissible-sites":
			slots := []string{"func tgtName() {}", "func (r *R) tgtName() int { return 0 }", "type S1 struct {\n\ttgtName int\n}", "type I1 interface {\n\ttgtName() error\n}",
				"func f1() {\ntgtName:\n\tfor {\n\t\tbreak tgtName\n\t}\n}", "func f3(tgtName int) {}", "const tgtName = 3", "type tgtName struct{}", "func tgtOther() {}", "var tgtOther int"}
			plants = append(plants, gen.Plant{Kind: "decl", Text: slots[r.Intn(len(slots))]})
			if guardedFollowUp {
				plants = append(plants, gen.Plant{Kind: "decl", Text: "func tgtOther() {}"}, gen.Plant{Kind: "expr", Text: "bump(" + g.Atom() + ")"})
			}
		case "D-near-miss":
			switch dk {
			case 0:
				plants = append(plants, gen.Plant{Kind: "expr", Text: []string{"bump(a)", "bump(a, 2)", "bump(a, 1, 1)", "bumps(a, 1)"}[r.Intn(4)]})
			case 1:
				plants = append(plants, gen.Plant{Kind: "expr", Text: []string{"bump(xs...)", "bump(a, b)", "bump()", "bump(f(xs)...)"}[r.Intn(4)]})
			case 2:
				plants = append(plants, gen.Plant{Kind: "decl", Text: []string{"type NmAlias = NmBase", "type (\n\tNmAlias NmBase\n)", "type NmAlias[T any] NmBase"}[r.Intn(3)]})
			default:
				plants = append(plants, gen.Plant{Kind: "decl", Text: []string{"var (\n\tnmV = 1\n)", "const nmV = 1", "var nmV int = 1", "var nmV, nmW = 1, 1"}[r.Intn(4)]})
			}
		}
		if r.Intn(5) == 0 && len(plants) == 0 && len(Corpus()) > 0 {
			b, err := os.ReadFile(Corpus()[r.Intn(len(Corpus()))])
			if err == nil && gen.Parses(string(b)) && !strings.Contains(string(b), "zzNoSuch") && !strings.Contains(string(b), "bump(") &&
				!strings.Contains(string(b), "generated") && !strings.Contains(string(b), "DO NOT EDIT") {
				src = string(b)
			}
		}
		layout := "corpus"
		if src == "" {
			src = g.File(gen.FileOpts{Plants: plants})
			gp, gi := guardFilePkg, guardFileImp
			if matched && kind == "C-guard-fails" {
				gp, gi = guardOKPkg, guardOKImp
			}
			if gp != "" {
				src = strings.Replace(src, "package p\n", "package "+gp+"\n", 1)
			}
			if gi != "" {
				src = strings.Replace(src, "package "+map[bool]string{true: gp, false: "p"}[gp != ""]+"\n", "package "+map[bool]string{true: gp, false: "p"}[gp != ""]+"\n\nimport "+gi+"\n", 1)
			}
			lk := r.Intn(12)
			if lk == 10 && matched {
				lk = 0 // --diff on a rewritten file with a line > 64 KiB is the known finding C12/diff-mode/line-too-long
			}
			src, layout = uglify(src, lk)
			if !gen.Parses(src) {
				src, layout = g.File(gen.FileOpts{Plants: plants}), "gofmt-like"
			}
		}
		fi := fileInfo{name: fmt.Sprintf("f%02d.go", f), src: src, layout: layout, matched: matched}
		switch f {
		case brokenAt:
			fi.src, fi.layout, fi.matched, fi.failing = "package p\n\nfunc broken( {\n\tbump(1)\n", "unparseable", false, true
		case failAt:
			fi.src, fi.layout, fi.matched, fi.failing = "package p\n\nvar _ = tgtPair(call(), 1)\n\nfunc h"+fmt.Sprint(f)+"() { bump(2) }\n", "rewrite-error", false, true
		}
		files = append(files, fi)
	}
	// a run in which a change applies to some file has output of its own
	mixed := kind == "B-mixed"
	for _, f := range files {
		mixed = mixed || f.matched
	}
	dir, _ := os.MkdirTemp(ctx.Tmp, "c06")
	defer os.RemoveAll(dir)
	var pargs []string
	for i, p := range patches {
		n := fmt.Sprintf("p%d.patch", i)
		os.WriteFile(filepath.Join(dir, n), []byte(p), 0o644)
		pargs = append(pargs, "-p", n)
	}
	if kind == "A-anchor-absent" && r.Intn(6) == 0 {
		// the patches come from a -P list; every 12th such list names no patch at all: nothing applies to anything
		list := ""
		if r.Intn(2) == 0 {
			for i := range patches {
				list += fmt.Sprintf("p%d.patch\n", i)
			}
		}
		os.WriteFile(filepath.Join(dir, "list.txt"), []byte(list+"\n"), 0o644)
		pargs = []string{"-P", "list.txt"}
		res.Ob("patches-from-a-list", 1)
	}
	os.Mkdir(filepath.Join(dir, "src"), 0o755)
	var names []string
	for _, f := range files {
		os.WriteFile(filepath.Join(dir, "src", f.name), []byte(f.src), 0o644)
		if !f.matched && !f.failing && r.Intn(5) == 0 {
			// a read-only file (module cache, Perforce-style checkout) in which nothing matches is as untouched and
			// as silent as any other
			os.Chmod(filepath.Join(dir, "src", f.name), 0o444)
			res.Ob("read-only-unmatched-files", 1)
		}
		names = append(names, "src/"+f.name)
	}
	r.Shuffle(len(names), func(i, j int) { names[i], names[j] = names[j], names[i] })
	mode := []string{"inplace", "diff", "print"}[r.Intn(3)]
	var flags []string
	switch mode {
	case "diff":
		flags = append(flags, "--diff")
	case "print":
		flags = append(flags, "--print-only")
	}
	verbose := r.Intn(3) == 0
	if verbose {
		flags = append(flags, "-v")
	}
	if r.Intn(3) == 0 {
		flags = append(flags, "--skip-import-processing")
	}
	if r.Intn(4) == 0 {
		flags = append(flags, "--skip-generated")
	}
	args := append(append(append([]string{}, pargs...), flags...), names...)
	before := core.TreeDigest(filepath.Join(dir, "src"))
	var cr *core.CLIResult
	var fsev []core.FSEvent
	straced := idx%8 == 0
	if straced {
		var evs []core.Sys
		cr, evs, _ = ctx.RunCLIStrace(core.CLIOpts{Dir: dir, Args: args})
		fsev = core.FSTrace(evs, dir)
		res.Ob("strace-runs", 1)
		res.Ob("strace-fs-events", len(fsev))
	} else {
		cr = ctx.RunCLI(core.CLIOpts{Dir: dir, Args: args})
	}
	after := core.TreeDigest(filepath.Join(dir, "src"))
	rep := map[string]string{"args.txt": strings.Join(args, " "), "stdout.txt": string(cr.Stdout), "stderr.txt": string(cr.Stderr)}
	for i, p := range patches {
		rep[fmt.Sprintf("p%d.patch", i)] = p
	}
	for _, f := range files {
		rep["src/"+f.name] = f.src
	}
	flagWord := mode + " " + strings.Join(flags, " ")
	if cc := cr.CrashClass(); cc != "" {
		res.Violate("C06/"+cc, string(cr.Stderr), rep)
		return res
	}
	if withFailures {
		res.Ob("runs-with-failing-files", 1)
	}
	if cr.Exit != 0 && !withFailures {
		res.Violate("C06/nonzero-exit", fmt.Sprintf("[%s, %s] exit %d: %s", kind, flagWord, cr.Exit, cr.Stderr), rep)
		return res
	}
	// API results (for matched files' expected print-only content and the API half of the property)
	var apiOut []string
	for _, f := range files {
		cur := f.src
		for _, p := range patches {
			ar := core.ApplyAPI(p, cur)
			if ar.OK() {
				cur = string(ar.Out)
			}
		}
		apiOut = append(apiOut, cur)
	}
	stdout, stderr := string(cr.Stdout), string(cr.Stderr)
	var printExpect strings.Builder
	for i, f := range files {
		res.Evals++
		if f.failing {
			continue
		}
		if f.matched {
			printExpect.WriteString(apiOut[i])
			continue
		}
		printExpect.WriteString(f.src)
		pos := "single"
		if i > 0 && i < len(files)-1 {
			pos = "middle"
		}
		if f.layout != "gofmt-like" || mixed {
			res.Sig(f.layout, flagWord, kind, pos)
		}
		fail := func(class, detail string) {
			res.Violate("C06/"+class, fmt.Sprintf("[%s, %s, layout %s, file %s] %s", kind, flagWord, f.layout, f.name, detail), rep)
		}
		if apiOut[i] != f.src {
			fail("api-changed-unmatched-input", "patch.Apply returned different bytes although nothing matches")
		}
		if before[f.name] != after[f.name] {
			fail("unmatched-file-touched", strings.Join(core.DiffDigests(map[string]core.FileMeta{f.name: before[f.name]}, map[string]core.FileMeta{f.name: after[f.name]}), "; "))
		}
		if strings.Contains(stderr, f.name) {
			fail("stderr-mentions-unmatched-file", stderr)
		}
		if mode == "diff" && strings.Contains(stdout, f.name) && !verbose {
			fail("diff-for-unmatched-file", core.Trunc(stdout, 400))
		}
		if verbose && !strings.Contains(stdout, f.name+": skipped") {
			fail("verbose-log-missing-skipped", core.Trunc(stdout, 400))
		}
		if straced {
			abs := filepath.Join(dir, "src", f.name)
			for _, e := range fsev {
				if e.Path == abs && e.Kind != "open-read" {
					fail("mutating-syscall-on-unmatched-file", e.Raw)
					break
				}
			}
		}
	}
	skipImp := strings.Contains(flagWord, "--skip-import-processing")
	if mode == "print" && !verbose && (skipImp || withFailures) && mixed {
		// matched files are printed without import processing, which the library cannot do:
		// only the unmatched files' bytes are checked
		for _, f := range files {
			if !f.matched && !f.failing && !strings.Contains(stdout, f.src) {
				res.Violate("C06/print-only-not-original-bytes", fmt.Sprintf("[%s, %s] original bytes of unmatched %s not echoed", kind, flagWord, f.name), rep)
			}
		}
	} else if mode == "print" && !verbose && stdout != printExpect.String() {
		res.Violate("C06/print-only-not-original-bytes", fmt.Sprintf("[%s, %s] --print-only stdout differs from the concatenation of original bytes (unmatched) and patched bytes (matched)", kind, flagWord), rep)
	}
	if mode == "diff" && !mixed && !verbose && len(stdout) > 0 {
		res.Violate("C06/diff-output-without-match", core.Trunc(stdout, 300), rep)
	}
	if withFailures {
		// nothing may be written over an unmatched or failing file, whatever else fails
		for _, f := range files {
			if (f.failing || !f.matched) && before[f.name] != after[f.name] {
				res.Violate("C06/unmatched-file-touched", fmt.Sprintf("[E-mixed-with-failures, %s] %s changed on disk", flagWord, f.name), rep)
			}
		}
	}
	if !mixed && strings.TrimSpace(stderr) != "" {
		res.Violate("C06/stderr-output-without-match", core.Trunc(stderr, 300), rep)
	}
	if len(after) != len(before) {
		res.Violate("C06/tree-entries-changed", strings.Join(core.DiffDigests(before, after), "; "), rep)
	}
	res.Sample(map[string]any{"kind": kind, "args": strings.Join(args, " "), "layouts": func() []string {
		var l []string
		for _, f := range files {
			l = append(l, f.layout)
		}
		return l
	}(), "exit": cr.Exit})
	return res
}
