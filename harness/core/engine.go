package core

import (
	"bytes"
	"fmt"
	"os"
	"os/exec"
	"path/filepath"
	"runtime/debug"
	"strings"
	"syscall"
	"time"

	"github.com/uber-go/gopatch/patch"
)

// APIResult is the observation of one patch.Parse + Apply execution.
type APIResult struct {
	Out      []byte
	ParseErr error
	ApplyErr error
	Panic    string // non-empty: recovered panic value + stack
}

func (r *APIResult) OK() bool { return r.ParseErr == nil && r.ApplyErr == nil && r.Panic == "" }

func (r *APIResult) ErrString() string {
	switch {
	case r.Panic != "":
		return "PANIC: " + r.Panic
	case r.ParseErr != nil:
		return "patch rejected: " + r.ParseErr.Error()
	case r.ApplyErr != nil:
		return "apply error: " + r.ApplyErr.Error()
	}
	return ""
}

// ParsePatch wraps patch.Parse with panic recovery.
func ParsePatch(name string, text []byte) (f *patch.File, err error, pan string) {
	defer func() {
		if r := recover(); r != nil {
			pan = fmt.Sprintf("%v\n%s", r, debug.Stack())
		}
	}()
	f, err = patch.Parse(name, text)
	return
}

// ApplyParsed wraps (*patch.File).Apply with panic recovery.
func ApplyParsed(f *patch.File, filename string, src []byte) (out []byte, err error, pan string) {
	defer func() {
		if r := recover(); r != nil {
			pan = fmt.Sprintf("%v\n%s", r, debug.Stack())
		}
	}()
	out, err = f.Apply(filename, src)
	return
}

// ApplyAPI parses the patch and applies it to one source through the library API.
func ApplyAPI(patchText, src string) *APIResult {
	res := &APIResult{}
	f, err, pan := ParsePatch("p.patch", []byte(patchText))
	if pan != "" {
		res.Panic = pan
		return res
	}
	if err != nil {
		res.ParseErr = err
		return res
	}
	out, err, pan := ApplyParsed(f, "in.go", []byte(src))
	res.Out, res.ApplyErr, res.Panic = out, err, pan
	return res
}

// PanicSignature gives the top in-repo frame of a recovered panic's stack.
func PanicSignature(pan string) string {
	lines := strings.Split(pan, "\n")
	val := lines[0]
	if len(val) > 60 {
		val = val[:60]
	}
	// skip frames up to the panic call
	seenPanic := false
	for _, l := range lines[1:] {
		l = strings.TrimSpace(l)
		if strings.HasPrefix(l, "panic(") {
			seenPanic = true
			continue
		}
		if seenPanic && strings.HasPrefix(l, "github.com/uber-go/gopatch/") {
			if i := strings.LastIndexByte(l, '('); i > 0 {
				l = l[:i]
			}
			return strings.TrimPrefix(l, "github.com/uber-go/gopatch/") + "|" + skeleton(val)
		}
	}
	return "?|" + skeleton(val)
}

// Skeleton erases digits and quoted text from a message.
func Skeleton(s string) string { return skeleton(s) }

// skeleton erases digits and quoted text from a message.
func skeleton(s string) string {
	var sb strings.Builder
	inq := false
	for _, r := range s {
		switch {
		case r == '"':
			inq = !inq
			sb.WriteByte('"')
		case inq:
		case r >= '0' && r <= '9':
			sb.WriteByte('#')
		default:
			sb.WriteRune(r)
		}
	}
	return sb.String()
}

// CLIResult is the observation of one CLI process.
type CLIResult struct {
	Stdout, Stderr []byte
	Exit           int // exit status, -1 if signalled
	Signal         string
	CPUExceeded    bool // killed by RLIMIT_CPU
	HarnessTimeout bool // the wall-clock guard fired: observation is inconclusive
	MaxRSSKB       int64 // peak resident set of the child (rusage), 0 if unknown
	CPUMillis      int64 // user + system CPU time of the child (rusage)
}

// CLIOpts configures a CLI run.
type CLIOpts struct {
	Dir    string
	Args   []string
	Stdin  []byte
	Bin    string // defaults to ctx.Bin
	FSize  *int64 // RLIMIT_FSIZE; nil = none
	Env    []string
	Prefix []string // e.g. strace ... --
	// StdoutFile: the child's standard output is this file (created, truncated) instead of a pipe, so that
	// RLIMIT_FSIZE and path-targeted fault injection apply to it; CLIResult.Stdout then holds what the file holds
	StdoutFile string
}

// RunCLI runs the freshly built gopatch binary under RLIMIT_CPU (30 s) so that a hang is
// decided on CPU time, never on wall-clock.
func (c *Ctx) RunCLI(o CLIOpts) *CLIResult {
	bin := o.Bin
	if bin == "" {
		bin = c.Bin
	}
	fs := "-1"
	if o.FSize != nil {
		fs = fmt.Sprint(*o.FSize)
	}
	var args []string
	args = append(args, o.Prefix...)
	args = append(args, c.Self, "limexec", "30", "0", fs, "--", bin)
	args = append(args, o.Args...)
	cmd := exec.Command(args[0], args[1:]...)
	cmd.Dir = o.Dir
	cmd.Env = append(os.Environ(), o.Env...)
	if o.Stdin != nil {
		cmd.Stdin = bytes.NewReader(o.Stdin)
	}
	var so, se bytes.Buffer
	cmd.Stdout, cmd.Stderr = &so, &se
	if o.StdoutFile != "" {
		if f, ferr := os.Create(o.StdoutFile); ferr == nil {
			cmd.Stdout = f
			defer func() { f.Close() }()
		}
	}
	cmd.SysProcAttr = &syscall.SysProcAttr{Setpgid: true}
	// Generous wall-clock guard against a wedged child (e.g. strace stuck on a zombie): its
	// firing makes the observation inconclusive (HarnessTimeout), never a violation. Hangs of
	// gopatch itself are decided by RLIMIT_CPU.
	var err error
	timedOut := false
	if err = cmd.Start(); err == nil {
		done := make(chan error, 1)
		go func() { done <- cmd.Wait() }()
		select {
		case err = <-done:
		case <-time.After(5 * time.Minute):
			timedOut = true
			syscall.Kill(-cmd.Process.Pid, syscall.SIGKILL)
			err = <-done
		}
	}
	res := &CLIResult{Stdout: so.Bytes(), Stderr: se.Bytes(), HarnessTimeout: timedOut}
	if o.StdoutFile != "" {
		res.Stdout, _ = os.ReadFile(o.StdoutFile)
	}
	if cmd.ProcessState != nil {
		if ru, ok := cmd.ProcessState.SysUsage().(*syscall.Rusage); ok && ru != nil {
			res.MaxRSSKB = int64(ru.Maxrss)
			res.CPUMillis = (ru.Utime.Sec+ru.Stime.Sec)*1000 + int64(ru.Utime.Usec+ru.Stime.Usec)/1000
		}
	}
	if timedOut {
		c.Flake("wall-clock guard fired around a CLI child process")
	}
	if err != nil {
		if ee, ok := err.(*exec.ExitError); ok {
			ws := ee.Sys().(syscall.WaitStatus)
			if ws.Signaled() {
				res.Exit = -1
				res.Signal = ws.Signal().String()
				if ws.Signal() == syscall.SIGXCPU || ws.Signal() == syscall.SIGKILL {
					res.CPUExceeded = true
				}
			} else {
				res.Exit = ws.ExitStatus()
			}
		} else {
			res.Exit = -2
			res.Stderr = append(res.Stderr, []byte("\nexec error: "+err.Error())...)
		}
	}
	return res
}

// CrashClass classifies a CLI result as a crash (""= no crash).
func (r *CLIResult) CrashClass() string {
	if r.HarnessTimeout {
		return "harness-cli-wall-clock-guard"
	}
	if r.CPUExceeded {
		return "hang:cli"
	}
	if r.Exit == -1 {
		return "crash:signal-" + r.Signal
	}
	if bytes.Contains(r.Stderr, []byte("goroutine ")) && (bytes.Contains(r.Stderr, []byte("panic:")) || bytes.Contains(r.Stderr, []byte("fatal error:"))) {
		return "panic:" + PanicSignature(cliPanicToStack(string(r.Stderr)))
	}
	if r.Exit != 0 && r.Exit != 1 {
		return fmt.Sprintf("crash:exit-%d", r.Exit)
	}
	return ""
}

func cliPanicToStack(stderr string) string {
	i := strings.Index(stderr, "panic:")
	if i < 0 {
		i = strings.Index(stderr, "fatal error:")
	}
	if i < 0 {
		return stderr
	}
	s := stderr[i:]
	lines := strings.Split(s, "\n")
	// fabricate the "panic(" marker expected by PanicSignature after the first line
	out := []string{strings.TrimPrefix(lines[0], "panic: "), "panic("}
	out = append(out, lines[1:]...)
	return strings.Join(out, "\n")
}

// WriteTree writes files (relative name -> content) under dir.
func WriteTree(dir string, files map[string]string) error {
	for name, content := range files {
		p := filepath.Join(dir, name)
		if err := os.MkdirAll(filepath.Dir(p), 0o755); err != nil {
			return err
		}
		if err := os.WriteFile(p, []byte(content), 0o644); err != nil {
			return err
		}
	}
	return nil
}

// Trunc shortens a string for samples.
func Trunc(s string, n int) string {
	if len(s) > n {
		return s[:n] + "…"
	}
	return s
}
