package core

import (
	"crypto/sha256"
	"fmt"
	"os"
	"path/filepath"
	"regexp"
	"sort"
	"strconv"
	"strings"
	"syscall"
)

// Sys is one system call observed by strace.
type Sys struct {
	PID  int
	Name string
	Args string
	Ret  string // text after " = "
}

var (
	straceLine = regexp.MustCompile(`^(\d+)\s+(.*)$`)
	resumedRe  = regexp.MustCompile(`^<\.\.\. (\w+) resumed>(.*)$`)
	callRe     = regexp.MustCompile(`^(\w+)\((.*)\)\s+= (.*)$`)
)

// ParseStrace parses the output of `strace -f -o`.
func ParseStrace(log string) []Sys {
	var out []Sys
	pending := map[int]string{}
	for _, line := range strings.Split(log, "\n") {
		m := straceLine.FindStringSubmatch(line)
		if m == nil {
			continue
		}
		pid, _ := strconv.Atoi(m[1])
		rest := m[2]
		if strings.HasSuffix(rest, "<unfinished ...>") {
			pending[pid] = strings.TrimSuffix(rest, "<unfinished ...>")
			continue
		}
		if r := resumedRe.FindStringSubmatch(rest); r != nil {
			rest = pending[pid] + r[2]
			delete(pending, pid)
		}
		if strings.HasPrefix(rest, "---") || strings.HasPrefix(rest, "+++") {
			out = append(out, Sys{PID: pid, Name: "signal/exit", Args: rest})
			continue
		}
		c := callRe.FindStringSubmatch(rest)
		if c == nil {
			continue
		}
		out = append(out, Sys{PID: pid, Name: c[1], Args: c[2], Ret: c[3]})
	}
	return out
}

// FSEvent is a filesystem-relevant event extracted from a strace log.
type FSEvent struct {
	Kind string // open-read, open-write, write, mutate
	Path string
	Sys  string
	OK   bool
	Raw  string
}

var quotedRe = regexp.MustCompile(`"((?:[^"\\]|\\.)*)"`)

func firstPath(args string) string {
	m := quotedRe.FindStringSubmatch(args)
	if m == nil {
		return ""
	}
	return unescape(m[1])
}

// unescape undoes strace's C-style escapes (bytes outside printable ASCII are written as octal escapes: a file called
// "ü.go" is "\303\274.go" in the log).
func unescape(s string) string {
	if !strings.Contains(s, "\\") {
		return s
	}
	if u, err := strconv.Unquote("\"" + s + "\""); err == nil {
		return u
	}
	return s
}

// FSTrace interprets a syscall list: which files were opened for reading / writing, written
// to, renamed, removed, etc. cwd is used to resolve relative paths.
func FSTrace(events []Sys, cwd string) []FSEvent {
	fds := map[int]string{}
	abs := func(p string) string {
		if p == "" {
			return ""
		}
		if !filepath.IsAbs(p) {
			p = filepath.Join(cwd, p)
		}
		return filepath.Clean(p)
	}
	var out []FSEvent
	for _, e := range events {
		ok := !strings.HasPrefix(e.Ret, "-1")
		raw := e.Name + "(" + e.Args + ") = " + e.Ret
		switch e.Name {
		case "open", "openat", "creat":
			p := abs(firstPath(e.Args))
			kind := "open-read"
			if strings.Contains(e.Args, "O_WRONLY") || strings.Contains(e.Args, "O_RDWR") || strings.Contains(e.Args, "O_CREAT") ||
				strings.Contains(e.Args, "O_TRUNC") || strings.Contains(e.Args, "O_APPEND") || e.Name == "creat" {
				kind = "open-write"
			}
			if ok {
				if fd, err := strconv.Atoi(strings.Fields(e.Ret)[0]); err == nil {
					fds[fd] = p
				}
			}
			out = append(out, FSEvent{Kind: kind, Path: p, Sys: e.Name, OK: ok, Raw: raw})
		case "close":
			if fd, err := strconv.Atoi(strings.TrimSpace(e.Args)); err == nil {
				delete(fds, fd)
			}
		case "write", "pwrite64", "writev", "pwritev", "ftruncate", "fchmod", "fchown", "fallocate", "fsync", "fdatasync":
			f := strings.SplitN(e.Args, ",", 2)
			fd, err := strconv.Atoi(strings.TrimSpace(f[0]))
			if err != nil {
				continue
			}
			if p, known := fds[fd]; known && e.Name != "fsync" && e.Name != "fdatasync" {
				kind := "write"
				if e.Name != "write" && e.Name != "pwrite64" && e.Name != "writev" && e.Name != "pwritev" {
					kind = "mutate"
				}
				out = append(out, FSEvent{Kind: kind, Path: p, Sys: e.Name, OK: ok, Raw: raw})
			}
		case "rename", "renameat", "renameat2", "unlink", "unlinkat", "mkdir", "mkdirat", "rmdir", "symlink", "symlinkat", "link", "linkat",
			"chmod", "fchmodat", "chown", "lchown", "fchownat", "utimensat", "utimes", "utime", "truncate", "mknod", "mknodat", "setxattr":
			ps := quotedRe.FindAllStringSubmatch(e.Args, -1)
			for i, m := range ps {
				kind := "mutate"
				if strings.HasPrefix(e.Name, "rename") && i == len(ps)-1 && len(ps) >= 2 {
					kind = "rename-dest"
				}
				out = append(out, FSEvent{Kind: kind, Path: abs(unescape(m[1])), Sys: e.Name, OK: ok, Raw: raw})
			}
			if len(ps) == 0 {
				out = append(out, FSEvent{Kind: "mutate", Path: "", Sys: e.Name, OK: ok, Raw: raw})
			}
		}
	}
	return out
}

const straceSet = "trace=open,openat,creat,close,write,pwrite64,writev,pwritev,ftruncate,truncate,fchmod,fchmodat,chmod,fchown,chown,lchown,fchownat," +
	"rename,renameat,renameat2,unlink,unlinkat,mkdir,mkdirat,rmdir,symlink,symlinkat,link,linkat,utimensat,utimes,fallocate,mknod,mknodat,fsync,fdatasync"

// RunCLIStrace runs the CLI under strace -f and returns the parsed syscalls. inject, when
// non-empty, are extra strace arguments (fault injection).
func (c *Ctx) RunCLIStrace(o CLIOpts, inject ...string) (*CLIResult, []Sys, string) {
	logf, _ := os.CreateTemp(c.Tmp, "strace-*.log")
	logf.Close()
	defer os.Remove(logf.Name())
	pre := []string{"strace", "-f", "-qq", "-s", "64", "-o", logf.Name(), "-e", straceSet}
	pre = append(pre, inject...)
	pre = append(pre, "--")
	o.Prefix = append(pre, o.Prefix...)
	res := c.RunCLI(o)
	for _, l := range strings.Split(string(res.Stderr), "\n") {
		// strace's own diagnostics (gopatch never prints this prefix): the trace and the exit status are unusable
		if strings.HasPrefix(l, "strace: ") && (strings.Contains(l, "ptrace(") || strings.Contains(l, "Cannot ") || strings.Contains(l, "No such process") || strings.Contains(l, "PTRACE_")) {
			c.Flake("strace failed: " + l)
			break
		}
	}
	b, _ := os.ReadFile(logf.Name())
	return res, ParseStrace(string(b)), string(b)
}

// FileMeta is what the digest records per directory entry.
type FileMeta struct {
	Mode  os.FileMode
	Size  int64
	Hash  string
	Ino   uint64
	Mtime int64
	Ctime int64
	Link  string
}

// TreeDigest records every entry under root (names, bytes, inode, times, mode).
func TreeDigest(root string) map[string]FileMeta {
	out := map[string]FileMeta{}
	filepath.Walk(root, func(p string, info os.FileInfo, err error) error {
		if err != nil {
			return nil
		}
		rel, _ := filepath.Rel(root, p)
		m := FileMeta{Mode: info.Mode(), Size: info.Size()}
		if st, ok := info.Sys().(*syscall.Stat_t); ok {
			m.Ino = st.Ino
			m.Mtime = st.Mtim.Sec*1e9 + st.Mtim.Nsec
			m.Ctime = st.Ctim.Sec*1e9 + st.Ctim.Nsec
		}
		switch {
		case info.Mode()&os.ModeSymlink != 0:
			m.Link, _ = os.Readlink(p)
		case info.Mode().IsRegular():
			b, _ := os.ReadFile(p)
			m.Hash = fmt.Sprintf("%x", sha256.Sum256(b))
		case info.IsDir():
			m.Size = 0
			m.Mtime, m.Ctime = 0, 0 // directory times change when entries are created; names are compared instead
		}
		out[rel] = m
		return nil
	})
	return out
}

// DiffDigests lists the entries that differ between two digests.
func DiffDigests(a, b map[string]FileMeta) []string {
	var out []string
	for k, va := range a {
		vb, ok := b[k]
		switch {
		case !ok:
			out = append(out, "removed: "+k)
		case va != vb:
			what := []string{}
			if va.Hash != vb.Hash || va.Size != vb.Size {
				what = append(what, "content")
			}
			if va.Ino != vb.Ino {
				what = append(what, "inode")
			}
			if va.Mtime != vb.Mtime {
				what = append(what, "mtime")
			}
			if va.Ctime != vb.Ctime {
				what = append(what, "ctime")
			}
			if va.Mode != vb.Mode {
				what = append(what, "mode")
			}
			if va.Link != vb.Link {
				what = append(what, "link")
			}
			out = append(out, "changed("+strings.Join(what, ",")+"): "+k)
		}
	}
	for k := range b {
		if _, ok := a[k]; !ok {
			out = append(out, "created: "+k)
		}
	}
	sort.Strings(out)
	return out
}
