// Package core is the orchestrator shared by all property checks: deterministic case
// lists, worker subprocesses with a BEGIN/END protocol, CPU-time and memory watchdogs,
// evidence writing, replay directories and the known-findings matcher.
package core

import (
	"bufio"
	"crypto/sha256"
	"encoding/binary"
	"encoding/json"
	"fmt"
	"math/rand"
	"os"
	"os/exec"
	"path/filepath"
	"runtime"
	"sort"
	"strconv"
	"strings"
	"sync"
	"syscall"
	"time"
)

// Violation is one refutation of the property, with everything needed to replay it.
type Violation struct {
	Class  string            `json:"class"`  // decidable signature of the failing class (known-findings key)
	Detail string            `json:"detail"` // human readable explanation
	Files  map[string]string `json:"files,omitempty"`
}

// Result is what one case (a deterministic batch of evaluations) reports.
type Result struct {
	Evals   int            `json:"evals"`
	Sigs    []string       `json:"sigs,omitempty"` // signatures of the non-trivial evaluations
	Viol    []Violation    `json:"viol,omitempty"`
	Inconcl int            `json:"inconcl,omitempty"`
	Obs     map[string]int `json:"obs,omitempty"`
	Samples []any          `json:"samples,omitempty"`
}

func (r *Result) Ob(k string, n int) {
	if r.Obs == nil {
		r.Obs = map[string]int{}
	}
	r.Obs[k] += n
}

func (r *Result) Sig(parts ...any) {
	r.Sigs = append(r.Sigs, HashStr(fmt.Sprint(parts...)))
}

func (r *Result) Violate(class, detail string, files map[string]string) {
	r.Viol = append(r.Viol, Violation{Class: class, Detail: detail, Files: files})
}

func (r *Result) Sample(v any) {
	if len(r.Samples) < 1 {
		r.Samples = append(r.Samples, v)
	}
}

// Ctx is handed to every case.
type Ctx struct {
	Prop    string
	Seed    int64
	Tier    string
	Bin     string // freshly built gopatch CLI
	BinRace string // -race build (C14 only)
	Tmp     string // scratch dir of this worker (removed at exit)
	Self    string // path of this executable (for limexec)
	flake   string // set when the tooling around a child process failed (strace, wall-clock guard) during the current case
}

// Flake records that an observation of the current case is unusable because the tooling around
// the child process failed (strace's own ptrace error, the wall-clock guard). The case is then
// counted as inconclusive whatever its oracle concluded from the garbage.
func (c *Ctx) Flake(why string) {
	if c.flake == "" {
		c.flake = why
	}
}

// Rand returns the PRNG of (seed, property, stream, idx).
func (c *Ctx) Rand(stream string, idx int) *rand.Rand {
	h := sha256.Sum256([]byte(fmt.Sprintf("%d|%s|%s|%d", c.Seed, c.Prop, stream, idx)))
	return rand.New(rand.NewSource(int64(binary.LittleEndian.Uint64(h[:8]))))
}

// Prop describes one property check.
type Prop struct {
	ID          string
	Level       string
	Rule        string
	Assumptions []string
	Cases       func(tier string) int
	Run         func(c *Ctx, idx int) *Result
	Floor       func(tier string) int // minimum distinct non-trivial signatures; below => exit 2
	Exhaustive  func(tier string) bool
	Workers     int
	Race        bool // needs -race builds
	CPUBudget   float64
}

var Props = map[string]*Prop{}

func Register(p *Prop) { Props[p.ID] = p }

func HashStr(s string) string {
	h := sha256.Sum256([]byte(s))
	return fmt.Sprintf("%x", h[:8])
}

// ---------------------------------------------------------------------------------------------

// verifDir is the root under which evidence, replays, logs and known_findings.json live
// (set by the check script; a snapshot run writes into its own snapshot).
var verifDir = func() string {
	if d := os.Getenv("VERIF_DIR"); d != "" {
		return d
	}
	return "/verif"
}()

// RepoDir is the checkout of gopatch the checks run against (/repo unless VERIF_REPO is set).
func RepoDir() string {
	if d := os.Getenv("VERIF_REPO"); d != "" {
		return d
	}
	return "/repo"
}

// outDir is where a run writes evidence, replays and logs: verifDir unless VERIF_OUT is set
// (evaluation of seeded faulty trees must not overwrite the evidence of the real tree).
var outDir = func() string {
	if d := os.Getenv("VERIF_OUT"); d != "" {
		return d
	}
	return verifDir
}()

func envInt(k string, def int64) int64 {
	if v := os.Getenv(k); v != "" {
		if n, err := strconv.ParseInt(v, 10, 64); err == nil {
			return n
		}
	}
	return def
}

// Main is the entry point of vcheck.
func Main() {
	if len(os.Args) < 2 {
		fmt.Fprintln(os.Stderr, "usage: vcheck run|worker|replay|limexec ...")
		os.Exit(2)
	}
	switch os.Args[1] {
	case "limexec":
		limexec(os.Args[2:])
	case "worker":
		workerMain(os.Args[2:])
	case "run":
		os.Exit(runMain(os.Args[2:]))
	case "replay":
		os.Exit(replayMain(os.Args[2:]))
	default:
		fmt.Fprintln(os.Stderr, "unknown subcommand", os.Args[1])
		os.Exit(2)
	}
}

// limexec <cpu-seconds> <as-bytes> <fsize-bytes|-1> -- cmd args... : set rlimits, then exec.
func limexec(args []string) {
	cpu, _ := strconv.ParseUint(args[0], 10, 64)
	as, _ := strconv.ParseUint(args[1], 10, 64)
	fsz, _ := strconv.ParseInt(args[2], 10, 64)
	rest := args[4:]
	if cpu > 0 {
		syscall.Setrlimit(syscall.RLIMIT_CPU, &syscall.Rlimit{Cur: cpu, Max: cpu + 5})
	}
	if as > 0 {
		syscall.Setrlimit(syscall.RLIMIT_AS, &syscall.Rlimit{Cur: as, Max: as})
	}
	if fsz >= 0 {
		syscall.Setrlimit(syscall.RLIMIT_FSIZE, &syscall.Rlimit{Cur: uint64(fsz), Max: uint64(fsz)})
	}
	if v, _ := strconv.ParseUint(os.Getenv("VERIF_LIMEXEC_NOFILE"), 10, 64); v > 0 {
		// descriptors: a run must not need more of them the more files it is given
		syscall.Setrlimit(syscall.RLIMIT_NOFILE, &syscall.Rlimit{Cur: v, Max: v})
	}
	path, err := exec.LookPath(rest[0])
	if err != nil {
		fmt.Fprintln(os.Stderr, "limexec:", err)
		os.Exit(127)
	}
	err = syscall.Exec(path, rest, os.Environ())
	fmt.Fprintln(os.Stderr, "limexec:", err)
	os.Exit(127)
}

type workerArgs struct {
	prop         string
	tier         string
	seed         int64
	shard, nsh   int
	from         int
	only         int
	bin, binRace string
}

func parseWorkerArgs(args []string) workerArgs {
	w := workerArgs{only: -1}
	for i := 0; i+1 < len(args); i += 2 {
		v := args[i+1]
		switch args[i] {
		case "-prop":
			w.prop = v
		case "-tier":
			w.tier = v
		case "-seed":
			w.seed, _ = strconv.ParseInt(v, 10, 64)
		case "-shard":
			w.shard, _ = strconv.Atoi(v)
		case "-nshards":
			w.nsh, _ = strconv.Atoi(v)
		case "-from":
			w.from, _ = strconv.Atoi(v)
		case "-only":
			w.only, _ = strconv.Atoi(v)
		case "-bin":
			w.bin = v
		case "-binrace":
			w.binRace = v
		}
	}
	return w
}

func workerMain(args []string) {
	w := parseWorkerArgs(args)
	p := Props[w.prop]
	if p == nil {
		fmt.Fprintln(os.Stderr, "unknown property", w.prop)
		os.Exit(2)
	}
	tmp, err := os.MkdirTemp("", "vcheck-"+w.prop+"-")
	if err != nil {
		fmt.Fprintln(os.Stderr, err)
		os.Exit(2)
	}
	defer os.RemoveAll(tmp)
	self, _ := os.Executable()
	ctx := &Ctx{Prop: w.prop, Seed: w.seed, Tier: w.tier, Bin: w.bin, BinRace: w.binRace, Tmp: tmp, Self: self}
	out := bufio.NewWriterSize(os.Stdout, 1<<16)
	emit := func(idx int) {
		fmt.Fprintf(out, "B %d\n", idx)
		out.Flush()
		res := runCase(p, ctx, idx)
		b, _ := json.Marshal(res)
		fmt.Fprintf(out, "E %d %s\n", idx, b)
		out.Flush()
	}
	if w.only >= 0 {
		emit(w.only)
		os.RemoveAll(tmp)
		return
	}
	n := p.Cases(w.tier)
	for idx := w.from; idx < n; idx++ {
		if idx%w.nsh != w.shard {
			continue
		}
		emit(idx)
	}
	fmt.Fprintf(out, "D\n")
	out.Flush()
}

func runCase(p *Prop, ctx *Ctx, idx int) (res *Result) {
	defer func() {
		if r := recover(); r != nil {
			// A panic that escapes the per-call recover of the API wrappers is a harness bug or
			// an engine panic in a place the harness did not wrap: report it as inconclusive
			// with the stack so that it cannot be mistaken for "held".
			buf := make([]byte, 1<<14)
			buf = buf[:runtime.Stack(buf, false)]
			res = &Result{Evals: 1, Inconcl: 1}
			res.Violate("harness-panic", fmt.Sprintf("panic in case %d: %v\n%s", idx, r, buf), nil)
		}
	}()
	ctx.flake = ""
	res = p.Run(ctx, idx)
	if ctx.flake != "" {
		res = &Result{Evals: 1, Inconcl: 1}
		res.Violate("harness-flake", fmt.Sprintf("case %d: %s", idx, ctx.flake), nil)
	}
	return res
}

// ---------------------------------------------------------------------------------------------

type knownFinding struct {
	Property  string `json:"property"`
	Signature string `json:"signature"`
	What      string `json:"what"`
	Status    string `json:"status"`
	Commit    string `json:"commit,omitempty"`
}

func loadKnown() []knownFinding {
	var kf struct {
		Findings []knownFinding `json:"findings"`
	}
	b, err := os.ReadFile(filepath.Join(verifDir, "known_findings.json"))
	if err != nil {
		return nil
	}
	if err := json.Unmarshal(b, &kf); err != nil {
		fmt.Fprintln(os.Stderr, "known_findings.json:", err)
		os.Exit(2)
	}
	return kf.Findings
}

type agg struct {
	mu        sync.Mutex
	evals     int
	sigs      map[string]struct{}
	inconcl   int
	obs       map[string]int
	samples   []any
	viols     []aggViol
	casesDone int
}

type aggViol struct {
	idx int
	v   Violation
}

func (a *agg) add(idx int, r *Result) {
	a.mu.Lock()
	defer a.mu.Unlock()
	a.casesDone++
	a.evals += r.Evals
	a.inconcl += r.Inconcl
	for _, s := range r.Sigs {
		a.sigs[s] = struct{}{}
	}
	for k, v := range r.Obs {
		a.obs[k] += v
	}
	for _, s := range r.Samples {
		if len(a.samples) < 6 {
			a.samples = append(a.samples, s)
		}
	}
	for _, v := range r.Viol {
		a.viols = append(a.viols, aggViol{idx, v})
	}
}

func procCPU(pid int) float64 {
	b, err := os.ReadFile(fmt.Sprintf("/proc/%d/stat", pid))
	if err != nil {
		return -1
	}
	s := string(b)
	i := strings.LastIndexByte(s, ')')
	f := strings.Fields(s[i+1:])
	if len(f) < 14 {
		return -1
	}
	ut, _ := strconv.ParseFloat(f[11], 64)
	st, _ := strconv.ParseFloat(f[12], 64)
	return (ut + st) / 100
}

func procRSS(pid int) int64 {
	b, err := os.ReadFile(fmt.Sprintf("/proc/%d/statm", pid))
	if err != nil {
		return -1
	}
	f := strings.Fields(string(b))
	if len(f) < 2 {
		return -1
	}
	n, _ := strconv.ParseInt(f[1], 10, 64)
	return n * 4096
}

const rssLimit = 3 << 30

func runMain(args []string) int {
	w := parseWorkerArgs(args)
	p := Props[w.prop]
	if p == nil {
		fmt.Fprintln(os.Stderr, "unknown property", w.prop)
		return 2
	}
	if w.tier == "" {
		w.tier = "quick"
	}
	start := time.Now()
	n := p.Cases(w.tier)
	nw := p.Workers
	if nw == 0 {
		nw = 14
	}
	if nw > n {
		nw = n
	}
	budget := p.CPUBudget
	if budget == 0 {
		budget = 20
	}
	self, _ := os.Executable()
	a := &agg{sigs: map[string]struct{}{}, obs: map[string]int{}}
	logDir := filepath.Join(outDir, ".build", w.prop, "logs")
	os.RemoveAll(logDir)
	os.MkdirAll(logDir, 0o755)

	var wg sync.WaitGroup
	var lastProgress int64 = time.Now().Unix()
	var progMu sync.Mutex
	watchdogFired := false
	for sh := 0; sh < nw; sh++ {
		wg.Add(1)
		go func(sh int) {
			defer wg.Done()
			from := 0
			for from < n {
				cur, done, died, why, errTail := runWorker(self, w, sh, nw, from, budget, a, logDir, func() {
					progMu.Lock()
					lastProgress = time.Now().Unix()
					progMu.Unlock()
				})
				if done {
					return
				}
				if !died {
					return
				}
				if cur < 0 {
					// died before the first BEGIN: harness trouble.
					a.add(-1, &Result{Inconcl: 1, Viol: []Violation{{Class: "harness-worker-died", Detail: why + "\n" + errTail}}})
					return
				}
				// confirm alone
				res := soloConfirm(self, w, cur, why, errTail, logDir, budget)
				a.add(cur, res)
				from = cur + 1
			}
		}(sh)
	}
	doneCh := make(chan struct{})
	go func() { wg.Wait(); close(doneCh) }()
	tick := time.NewTicker(5 * time.Second)
loop:
	for {
		select {
		case <-doneCh:
			break loop
		case <-tick.C:
			progMu.Lock()
			idle := time.Now().Unix() - lastProgress
			progMu.Unlock()
			if idle > 900 {
				watchdogFired = true
				fmt.Println("WATCHDOG: no progress for 15 minutes; run is inconclusive")
				killAll()
				break loop
			}
		}
	}
	tick.Stop()

	// ---- verdict
	known := loadKnown()
	knownHit := map[int]int{}
	var unknown []aggViol
	harnessTrouble := 0
	harnessFlakes := 0
	sort.Slice(a.viols, func(i, j int) bool { return a.viols[i].idx < a.viols[j].idx })
	for _, av := range a.viols {
		if av.v.Class == "harness-flake" {
			// isolated tooling failures (strace, wall-clock guard): inconclusive cases, tolerated in small numbers
			harnessFlakes++
			fmt.Printf("HARNESS-FLAKE case=%d %s\n", av.idx, firstLines(av.v.Detail, 3))
			continue
		}
		if strings.HasPrefix(av.v.Class, "harness-") || strings.Contains(av.v.Class, "/harness-") {
			harnessTrouble++
			fmt.Printf("HARNESS-TROUBLE case=%d %s\n", av.idx, firstLines(av.v.Detail, 30))
			continue
		}
		matched := false
		for i, k := range known {
			if k.Property == p.ID && k.Status == "known" && k.Signature == av.v.Class {
				knownHit[i]++
				matched = true
				break
			}
		}
		if !matched {
			unknown = append(unknown, av)
		}
	}
	for i, k := range known {
		if c := knownHit[i]; c > 0 {
			fmt.Printf("KNOWN-FINDING: property=%s %s [%s] (%d occurrences this run)\n", k.Property, k.What, k.Signature, c)
		}
	}
	replayRoot := filepath.Join(outDir, "replays", p.ID)
	os.RemoveAll(replayRoot)
	classesSeen := map[string]int{}
	for _, av := range unknown {
		classesSeen[av.v.Class]++
		if classesSeen[av.v.Class] > 3 {
			if os.Getenv("VERIF_TRIAGE") != "" { // development aid: one line per further violation
				fmt.Printf("TRIAGE case=%d class=%s %s\n", av.idx, av.v.Class, strings.ReplaceAll(firstLines(av.v.Detail, 2), "\n", " | "))
			}
			continue
		}
		dir := filepath.Join(replayRoot, fmt.Sprintf("case%d-%s-%d", av.idx, sanitize(av.v.Class), classesSeen[av.v.Class]))
		os.MkdirAll(dir, 0o755)
		for name, content := range av.v.Files {
			fp := filepath.Join(dir, name)
			os.MkdirAll(filepath.Dir(fp), 0o755)
			os.WriteFile(fp, []byte(content), 0o644)
		}
		meta, _ := json.MarshalIndent(map[string]any{"property": p.ID, "seed": w.seed, "tier": w.tier, "case": av.idx, "class": av.v.Class, "detail": av.v.Detail}, "", " ")
		os.WriteFile(filepath.Join(dir, "meta.json"), meta, 0o644)
		fmt.Printf("VIOLATION property=%s replay=%s\n", p.ID, dir)
		fmt.Printf("  class=%s\n  %s\n", av.v.Class, strings.ReplaceAll(firstLines(av.v.Detail, 12), "\n", "\n  "))
	}
	if len(unknown) > 0 {
		fmt.Printf("violations not in known_findings.json: %d (classes: %v)\n", len(unknown), classesSeen)
	}

	// ---- evidence
	wall := time.Since(start).Seconds()
	cov := map[string]any{
		"evaluations":         a.evals,
		"distinct_nontrivial": len(a.sigs),
		"rule":                p.Rule,
		"samples":             a.samples,
		"cases":               a.casesDone,
		"inconclusive":        a.inconcl,
		"observations":        a.obs,
		"known_finding_hits":  len(knownHit),
	}
	if p.Exhaustive != nil && p.Exhaustive(w.tier) {
		cov["exhaustive"] = true
	}
	if len(a.samples) == 0 {
		cov["samples"] = []any{"(no sample recorded)"}
	}
	ev := map[string]any{
		"property_id": p.ID,
		"tier":        w.tier,
		"seed":        w.seed,
		"level":       p.Level,
		"coverage":    cov,
		"assumptions": p.Assumptions,
		"wall_s":      wall,
		"violations":  len(unknown),
	}
	b, _ := json.MarshalIndent(ev, "", " ")
	os.MkdirAll(filepath.Join(outDir, "evidence"), 0o755)
	if err := os.WriteFile(filepath.Join(outDir, "evidence", p.ID+".json"), append(b, '\n'), 0o644); err != nil {
		fmt.Fprintln(os.Stderr, "evidence:", err)
	}
	fmt.Printf("%s tier=%s seed=%d cases=%d/%d evaluations=%d distinct_nontrivial=%d inconclusive=%d violations=%d wall=%.1fs\n",
		p.ID, w.tier, w.seed, a.casesDone, n, a.evals, len(a.sigs), a.inconcl, len(unknown), wall)
	keys := make([]string, 0, len(a.obs))
	for k := range a.obs {
		keys = append(keys, k)
	}
	sort.Strings(keys)
	for _, k := range keys {
		fmt.Printf("  obs %-40s %d\n", k, a.obs[k])
	}
	if len(unknown) > 0 {
		return 1
	}
	floor := 2
	if p.Floor != nil {
		floor = p.Floor(w.tier)
	}
	if harnessFlakes > 3+n/200 {
		harnessTrouble += harnessFlakes
	}
	if watchdogFired || harnessTrouble > 0 || len(a.sigs) < floor || a.casesDone < n {
		fmt.Printf("INCONCLUSIVE: watchdog=%v harness_trouble=%d distinct=%d floor=%d cases=%d/%d\n", watchdogFired, harnessTrouble, len(a.sigs), floor, a.casesDone, n)
		return 2
	}
	return 0
}

var (
	liveMu sync.Mutex
	live   = map[int]*os.Process{}
)

func killAll() {
	liveMu.Lock()
	defer liveMu.Unlock()
	for _, p := range live {
		p.Kill()
	}
}

func sanitize(s string) string {
	var sb strings.Builder
	for _, r := range s {
		if r >= 'a' && r <= 'z' || r >= 'A' && r <= 'Z' || r >= '0' && r <= '9' || r == '-' || r == '_' {
			sb.WriteRune(r)
		} else {
			sb.WriteByte('_')
		}
	}
	s = sb.String()
	if len(s) > 60 {
		s = s[:60]
	}
	return s
}

func firstLines(s string, n int) string {
	l := strings.Split(s, "\n")
	if len(l) > n {
		l = append(l[:n], "...")
	}
	return strings.Join(l, "\n")
}

func workerCmd(self string, w workerArgs, extra ...string) *exec.Cmd {
	args := []string{"worker", "-prop", w.prop, "-tier", w.tier, "-seed", strconv.FormatInt(w.seed, 10), "-bin", w.bin, "-binrace", w.binRace}
	args = append(args, extra...)
	cmd := exec.Command(self, args...)
	cmd.Env = os.Environ()
	return cmd
}

// runWorker runs one worker until it finishes or dies. It returns the index of the case
// that was in flight when it died.
func runWorker(self string, w workerArgs, sh, nsh, from int, budget float64, a *agg, logDir string, progress func()) (cur int, done, died bool, why, errTail string) {
	cmd := workerCmd(self, w, "-shard", strconv.Itoa(sh), "-nshards", strconv.Itoa(nsh), "-from", strconv.Itoa(from))
	errPath := filepath.Join(logDir, fmt.Sprintf("worker%d.stderr", sh))
	errF, _ := os.OpenFile(errPath, os.O_CREATE|os.O_WRONLY|os.O_TRUNC, 0o644)
	cmd.Stderr = errF
	stdout, _ := cmd.StdoutPipe()
	if err := cmd.Start(); err != nil {
		return -1, false, true, "start: " + err.Error(), ""
	}
	liveMu.Lock()
	live[cmd.Process.Pid] = cmd.Process
	liveMu.Unlock()
	defer func() {
		liveMu.Lock()
		delete(live, cmd.Process.Pid)
		liveMu.Unlock()
		errF.Close()
	}()
	cur = -1
	var mu sync.Mutex
	cpuAtBegin := 0.0
	killedWhy := ""
	stop := make(chan struct{})
	go func() {
		t := time.NewTicker(250 * time.Millisecond)
		defer t.Stop()
		for {
			select {
			case <-stop:
				return
			case <-t.C:
				cpu := procCPU(cmd.Process.Pid)
				rss := procRSS(cmd.Process.Pid)
				mu.Lock()
				over := cur >= 0 && cpu >= 0 && cpu-cpuAtBegin > budget
				big := rss > rssLimit
				if (over || big) && killedWhy == "" {
					if over {
						killedWhy = fmt.Sprintf("cpu: case consumed %.1fs CPU (budget %.0fs)", cpu-cpuAtBegin, budget)
					} else {
						killedWhy = fmt.Sprintf("mem: worker RSS %d MiB", rss>>20)
					}
					mu.Unlock()
					cmd.Process.Signal(syscall.SIGQUIT)
					time.Sleep(2 * time.Second)
					cmd.Process.Kill()
					return
				}
				mu.Unlock()
			}
		}
	}()
	sc := bufio.NewScanner(stdout)
	sc.Buffer(make([]byte, 1<<20), 1<<28)
	for sc.Scan() {
		line := sc.Text()
		switch {
		case strings.HasPrefix(line, "B "):
			idx, _ := strconv.Atoi(line[2:])
			cpu := procCPU(cmd.Process.Pid)
			mu.Lock()
			cur = idx
			cpuAtBegin = cpu
			mu.Unlock()
			progress()
		case strings.HasPrefix(line, "E "):
			rest := line[2:]
			sp := strings.IndexByte(rest, ' ')
			idx, _ := strconv.Atoi(rest[:sp])
			var r Result
			if err := json.Unmarshal([]byte(rest[sp+1:]), &r); err != nil {
				r = Result{Inconcl: 1, Viol: []Violation{{Class: "harness-bad-result", Detail: err.Error()}}}
			}
			a.add(idx, &r)
			mu.Lock()
			cur = -2 // between cases
			mu.Unlock()
			progress()
		case line == "D":
			done = true
		}
	}
	err := cmd.Wait()
	close(stop)
	errF.Sync()
	tail := tailFile(errPath, 6000)
	mu.Lock()
	defer mu.Unlock()
	if done && err == nil {
		return cur, true, false, "", ""
	}
	why = killedWhy
	if why == "" {
		why = fmt.Sprintf("worker died: %v", err)
	}
	if cur == -2 {
		cur = -1
	}
	return cur, false, true, why, tail
}

// tailFile returns the informative part of a worker's stderr: from the first crash marker
// (fatal error / panic / SIGQUIT dump) if there is one, else the tail.
func tailFile(path string, n int) string {
	b, err := os.ReadFile(path)
	if err != nil {
		return ""
	}
	s := string(b)
	first := -1
	for _, m := range []string{"fatal error:", "panic:", "SIGQUIT:", "runtime: goroutine stack exceeds", "WARNING: DATA RACE"} {
		if i := strings.Index(s, m); i >= 0 && (first < 0 || i < first) {
			first = i
		}
	}
	if first >= 0 {
		s = s[first:]
		if len(s) > n {
			s = s[:n]
		}
		return s
	}
	if len(s) > n {
		s = s[len(s)-n:]
	}
	return s
}

// soloConfirm re-runs one suspect case alone under hard rlimits.
func soloConfirm(self string, w workerArgs, idx int, why, errTail, logDir string, budget float64) *Result {
	limit := 60
	if int(budget)*3 > limit {
		limit = int(budget) * 3
	}
	args := []string{"limexec", strconv.Itoa(limit), "0", "-1", "--", self, "worker", "-prop", w.prop, "-tier", w.tier, "-seed", strconv.FormatInt(w.seed, 10),
		"-bin", w.bin, "-binrace", w.binRace, "-only", strconv.Itoa(idx)}
	cmd := exec.Command(self, args...)
	errPath := filepath.Join(logDir, fmt.Sprintf("solo%d.stderr", idx))
	errF, _ := os.Create(errPath)
	cmd.Stderr = errF
	outB, err := cmd.Output()
	errF.Close()
	// A completed solo run yields a normal result.
	for _, line := range strings.Split(string(outB), "\n") {
		if strings.HasPrefix(line, "E ") {
			rest := line[2:]
			sp := strings.IndexByte(rest, ' ')
			var r Result
			if json.Unmarshal([]byte(rest[sp+1:]), &r) == nil && err == nil {
				// The case completes alone: the death in the batch is not reproducible.
				r.Inconcl++
				class := "harness-unreproducible-death"
				crashed := false
				for _, m := range []string{"fatal error:", "panic:", "goroutine ", "WARNING: DATA RACE", "SIGQUIT"} {
					crashed = crashed || strings.Contains(errTail, m)
				}
				soloCPU := -1.0
				if cmd.ProcessState != nil {
					if ru, ok := cmd.ProcessState.SysUsage().(*syscall.Rusage); ok && ru != nil {
						soloCPU = float64(ru.Utime.Sec+ru.Stime.Sec) + float64(ru.Utime.Usec+ru.Stime.Usec)/1e6
					}
				}
				if !crashed && strings.HasPrefix(why, "cpu:") && soloCPU >= 0 && soloCPU < budget/4 {
					// the case was charged more CPU time than its budget in the batch and needs a fraction of it alone
					// (seen when the whole machine was frozen for a snapshot: six workers were charged 20.3 s at the
					// same moment): not a property of the case
					class = "harness-flake"
					why += fmt.Sprintf(" (alone: %.1fs)", soloCPU)
				}
				if !crashed && strings.HasPrefix(why, "worker died") {
					// the worker process went away without a word on stderr (no Go panic, no fatal error, no race report:
					// those always leave a trace) and the case completes alone: a hiccup of the environment, tolerated in
					// small numbers like the other tooling flakes
					class = "harness-flake"
				}
				r.Viol = append(r.Viol, Violation{Class: class, Detail: fmt.Sprintf("case %d: %s; solo re-run completed\n%s", idx, why, errTail)})
				return &r
			}
		}
	}
	soloTail := tailFile(errPath, 6000)
	class := "crash"
	if ee, ok := err.(*exec.ExitError); ok {
		if ws, ok := ee.Sys().(syscall.WaitStatus); ok && ws.Signaled() {
			switch ws.Signal() {
			case syscall.SIGXCPU, syscall.SIGKILL:
				class = "hang"
			}
		}
	}
	if strings.HasPrefix(why, "mem:") {
		class = "memory"
	}
	sig := crashSignature(errTail + "\n" + soloTail)
	if sig == "unknown" && strings.Contains(errTail+soloTail, "verif/harness/ref.") {
		// the harness's own reference model blew up, not gopatch
		return &Result{Evals: 1, Inconcl: 1, Viol: []Violation{{Class: "harness-reference-blowup", Detail: fmt.Sprintf("case %d: %s\n%s", idx, why, errTail)}}}
	}
	return &Result{Evals: 1, Viol: []Violation{{
		Class:  class + ":" + sig,
		Detail: fmt.Sprintf("case %d: %s; solo re-run under RLIMIT_CPU also failed (%v)\n--- batch stderr tail\n%s\n--- solo stderr tail\n%s", idx, why, err, errTail, soloTail),
	}}}
}

// crashSignature extracts the first in-repo frame from a goroutine dump.
func crashSignature(dump string) string {
	lines := strings.Split(dump, "\n")
	for _, l := range lines {
		l = strings.TrimSpace(l)
		if strings.HasPrefix(l, "github.com/uber-go/gopatch/") {
			if i := strings.IndexByte(l, '('); i > 0 {
				l = l[:i]
			}
			return strings.TrimPrefix(l, "github.com/uber-go/gopatch/")
		}
	}
	return "unknown"
}

func replayMain(args []string) int {
	if len(args) < 1 {
		fmt.Fprintln(os.Stderr, "usage: vcheck replay <dir> -bin ... ")
		return 2
	}
	b, err := os.ReadFile(filepath.Join(args[0], "meta.json"))
	if err != nil {
		fmt.Fprintln(os.Stderr, err)
		return 2
	}
	var meta struct {
		Property string `json:"property"`
		Seed     int64  `json:"seed"`
		Tier     string `json:"tier"`
		Case     int    `json:"case"`
	}
	if err := json.Unmarshal(b, &meta); err != nil {
		fmt.Fprintln(os.Stderr, err)
		return 2
	}
	w := parseWorkerArgs(args[1:])
	w.prop, w.seed, w.tier = meta.Property, meta.Seed, meta.Tier
	p := Props[w.prop]
	if p == nil {
		return 2
	}
	tmp, _ := os.MkdirTemp("", "vreplay-")
	defer os.RemoveAll(tmp)
	self, _ := os.Executable()
	ctx := &Ctx{Prop: w.prop, Seed: w.seed, Tier: w.tier, Bin: w.bin, BinRace: w.binRace, Tmp: tmp, Self: self}
	res := runCase(p, ctx, meta.Case)
	rc := 0
	for _, v := range res.Viol {
		fmt.Printf("VIOLATION property=%s replay=%s\n  class=%s\n  %s\n", p.ID, args[0], v.Class, strings.ReplaceAll(v.Detail, "\n", "\n  "))
		rc = 1
	}
	if rc == 0 {
		fmt.Printf("replay of case %d: property held (%d evaluations)\n", meta.Case, res.Evals)
	}
	return rc
}
