package ref

import (
	"fmt"
	"go/ast"
	"go/parser"
	"go/token"
	"strings"
)

// Pattern is one change's code pattern in reference form.
type Pattern struct {
	Kind  string // "expr", "stmts", "decl"
	Meta  map[string]string
	Minus *N // "stmts": a "[]" node; otherwise a single node
	Plus  *N
}

// ParsePattern parses the reference rendering (elisions as ɵDk identifiers) of both sides.
func ParsePattern(kind string, meta map[string]string, minus, plus string) (*Pattern, error) {
	m, err := parseSide(kind, minus)
	if err != nil {
		return nil, fmt.Errorf("minus: %w", err)
	}
	p, err := parseSide(kind, plus)
	if err != nil {
		return nil, fmt.Errorf("plus: %w", err)
	}
	return &Pattern{Kind: kind, Meta: meta, Minus: m, Plus: p}, nil
}

func parseSide(kind, text string) (*N, error) {
	fs := token.NewFileSet()
	switch kind {
	case "expr":
		e, err := parser.ParseExprFrom(fs, "", text, parser.SkipObjectResolution)
		if err != nil {
			return nil, err
		}
		n := Canon(e, false)
		return n, nil
	case "stmts":
		f, err := parser.ParseFile(fs, "p.go", "package p\nfunc _() {\n"+text+"\n}\n", parser.SkipObjectResolution)
		if err != nil {
			return nil, err
		}
		body := f.Decls[0].(*ast.FuncDecl).Body
		return Canon(body.List, false), nil
	case "decl":
		f, err := parser.ParseFile(fs, "p.go", "package p\n"+text+"\n", parser.SkipObjectResolution)
		if err != nil {
			return nil, err
		}
		if len(f.Decls) != 1 {
			return nil, fmt.Errorf("want exactly one declaration, got %d", len(f.Decls))
		}
		return Canon(f.Decls[0], false), nil
	}
	return nil, fmt.Errorf("unknown pattern kind %q", kind)
}

// Stats reports what the reference saw while rewriting.
type Stats struct {
	Sites     int // top-level sites rewritten
	Misfit    int // sites left unchanged because the replacement does not fit the slot
	Nested    int // nested instances (don't-care)
	Later     int // later statement-pattern instances in the same list (don't-care)
	Unbound   bool
	SiteKinds []string // slot kinds of the sites
}

// Rewriter applies a pattern to canonical trees.
type Rewriter struct {
	P  *Pattern
	M  *Matcher
	St Stats
	// LaxBindings accepts a rewritten nested instance inside the copy of a metavariable binding
	// also for expression and declaration patterns (diagnostic mode).
	LaxBindings bool
}

// NewRewriter builds a rewriter for a pattern.
func NewRewriter(p *Pattern, greedy bool) *Rewriter {
	return &Rewriter{P: p, M: &Matcher{Meta: p.Meta, Greedy: greedy, Limit: StepLimit}}
}

func (r *Rewriter) instantiate(plus *N, env *Env) *N {
	if name, ok := IdentName(plus); ok {
		if _, isMeta := r.P.Meta[name]; isMeta {
			if b, ok := env.Bind[name]; ok {
				c := r.rewrite(b, true)
				if r.P.Kind != "stmts" && !r.LaxBindings {
					// C03: a metavariable occurrence is replaced by a syntactically identical copy of
					// the code it stood for; an instance nested in that code lies inside another
					// rewritten instance (C01 does not ask for its rewriting). For statement patterns
					// C01 ("the first instance in every block") and C03 pull in opposite directions
					// for a block inside a binding: there both outcomes are accepted.
					c = b
				}
				c2 := *c
				c2.Static = plus.Static
				return &c2
			}
			r.St.Unbound = true
		}
		if strings.HasPrefix(name, DotsPrefix) {
			r.St.Unbound = true
		}
	}
	if id, ok := ForDotsID(plus); ok {
		if orig := env.Runs["for:"+id]; len(orig) == 1 {
			c := *orig[0]
			c.Kids = append([]*N{}, orig[0].Kids...)
			c.Kids[len(c.Kids)-1] = r.instantiate(plus.Kids[4], env)
			return &c
		}
		r.St.Unbound = true
	}
	c := *plus
	c.Kids = nil
	for _, k := range plus.Kids {
		if plus.Kind == "[]" {
			if id, ok := DotsID(k); ok {
				run, bound := env.Runs[id]
				if !bound {
					r.St.Unbound = true
				}
				for _, x := range run {
					c.Kids = append(c.Kids, r.rewrite(x, true))
				}
				continue
			}
		}
		c.Kids = append(c.Kids, r.instantiate(k, env))
	}
	return &c
}

// stmtListKid returns the index of the statement list of a block-like node.
func stmtListKid(n *N) int {
	switch n.Kind {
	case "BlockStmt", "CaseClause", "CommClause":
		idx := -1
		for i, k := range n.Kids {
			if k.Kind == "[]" {
				idx = i
			}
		}
		return idx
	}
	return -1
}

func mkDots(id string) *N {
	return &N{Kind: "ExprStmt", Kids: []*N{{Kind: "Ident", Kids: []*N{{Kind: "leaf", Leaf: "P1"}, {Kind: "leaf", Leaf: fmt.Sprintf("%q", id)}}}}}
}

// Rewrite returns the expected tree (possibly containing alt nodes) for t.
func (r *Rewriter) Rewrite(t *N) *N { return r.rewrite(t, false) }

func (r *Rewriter) copyKids(t *N, flex bool, skip int) *N {
	c := *t
	c.Kids = make([]*N, len(t.Kids))
	for i, k := range t.Kids {
		if i == skip {
			c.Kids[i] = k
			continue
		}
		c.Kids[i] = r.rewrite(k, flex)
	}
	return &c
}

func (r *Rewriter) rewrite(t *N, flex bool) *N {
	if t.Kind == "leaf" {
		return t
	}
	if r.P.Kind == "stmts" {
		return r.rewriteStmts(t, flex)
	}
	if t.Kind != "[]" {
		if env := r.M.First(r.P.Minus, t); env != nil {
			fits := true
			var inst *N
			if !flex {
				// compute the instantiation to learn its kind
				save := r.St
				inst = r.instantiate(r.P.Plus, env)
				fits = FitsSlot(inst.Kind, t.Static)
				if !fits {
					r.St = save
				}
			}
			switch {
			case flex:
				r.St.Nested++
				unchanged := r.copyKids(t, true, -1)
				save := r.St
				inst = r.instantiate(r.P.Plus, env)
				r.St.Sites, r.St.Misfit, r.St.SiteKinds = save.Sites, save.Misfit, save.SiteKinds
				if !FitsSlot(inst.Kind, t.Static) {
					return unchanged
				}
				inst.Static = t.Static
				return Alt(unchanged, inst)
			case fits:
				r.St.Sites++
				r.St.SiteKinds = append(r.St.SiteKinds, t.Static+">"+t.Kind)
				inst.Static = t.Static
				return inst
			default:
				r.St.Misfit++
				return r.copyKids(t, false, -1)
			}
		}
	}
	return r.copyKids(t, flex, -1)
}

func (r *Rewriter) rewriteStmts(t *N, flex bool) *N {
	li := stmtListKid(t)
	if li < 0 || len(r.P.Minus.Kids) == 0 {
		return r.copyKids(t, flex, -1)
	}
	list := t.Kids[li]
	c := r.copyKids(t, flex, li)
	alts := r.stmtListAlts(list.Kids, flex, true)
	if alts == nil {
		c.Kids[li] = r.copyKids(list, flex, -1)
		return c
	}
	var nodes []*N
	if flex {
		nodes = append(nodes, r.copyKids(list, true, -1))
	}
	for _, a := range alts {
		nodes = append(nodes, &N{Kind: "[]", Kids: a, Static: list.Static})
	}
	if len(nodes) == 1 {
		c.Kids[li] = nodes[0]
	} else {
		c.Kids[li] = Alt(nodes...)
	}
	return c
}

// stmtListAlts returns the acceptable rewritten forms of one statement list (the first is
// "only the first instance rewritten"), or nil when the pattern does not match the list.
func (r *Rewriter) stmtListAlts(items []*N, flex, first bool) [][]*N {
	pl := append([]*N{mkDots(DotsPrefix + "L")}, r.P.Minus.Kids...)
	pl = append(pl, mkDots(DotsPrefix+"T"))
	env := r.M.FirstList(pl, items)
	if env == nil {
		return nil
	}
	lead := env.Runs[DotsPrefix+"L"]
	trail := env.Runs[DotsPrefix+"T"]
	switch {
	case flex:
		r.St.Nested++
	case first:
		r.St.Sites++
		r.St.SiteKinds = append(r.St.SiteKinds, "stmts")
	default:
		r.St.Later++
	}
	// statements matched by the pattern itself are inside the instance: flexible
	inst := r.instantiate(r.P.Plus, env)
	var base []*N
	for _, s := range lead {
		base = append(base, r.rewrite(s, flex))
	}
	base = append(base, inst.Kids...)
	plain := append([]*N{}, base...)
	for _, s := range trail {
		plain = append(plain, r.rewrite(s, flex))
	}
	res := [][]*N{plain}
	if len(trail) >= len(items) {
		return res // the pattern consumed nothing: no later instances to consider
	}
	for _, la := range r.stmtListAlts(trail, flex, false) {
		if len(res) >= 8 {
			break
		}
		res = append(res, append(append([]*N{}, base...), la...))
	}
	return res
}

// ExposedComposite reports whether the tree contains a composite literal with a type-name
// literal type directly in the header of an if/for/switch statement, not protected by
// parentheses, brackets or braces. go/printer does not add the parentheses Go's grammar
// requires there, so such a rewrite cannot be printed as valid Go (C07 territory).
func ExposedComposite(n *N) bool {
	return exposed(n, false)
}

func exposed(n *N, ex bool) bool {
	if n == nil || n.Kind == "leaf" {
		return false
	}
	kidsEx := make([]bool, len(n.Kids))
	for i := range kidsEx {
		kidsEx[i] = ex
	}
	set := func(v bool, idx ...int) {
		for _, i := range idx {
			if i < len(kidsEx) {
				kidsEx[i] = v
			}
		}
	}
	switch n.Kind {
	case "alt":
	case "IfStmt": // If Init Cond Body Else
		set(true, 1, 2)
		set(false, 3, 4)
	case "ForStmt": // For Init Cond Post Body
		set(true, 1, 2, 3)
		set(false, 4)
	case "RangeStmt": // For Key Value TokPos Tok Range X Body
		set(true, 1, 2, 6)
		set(false, 7)
	case "SwitchStmt", "TypeSwitchStmt": // Switch Init Tag|Assign Body
		set(true, 1, 2)
		set(false, 3)
	case "ParenExpr", "FuncLit", "BlockStmt", "CaseClause", "CommClause", "FuncType", "StructType", "InterfaceType":
		for i := range kidsEx {
			kidsEx[i] = false
		}
	case "CallExpr": // Fun Lparen Args Ellipsis Rparen
		set(false, 2)
	case "IndexExpr": // X Lbrack Index Rbrack
		set(false, 2)
	case "IndexListExpr":
		set(false, 2)
	case "SliceExpr": // X Lbrack Low High Max Slice3 Rbrack
		set(false, 2, 3, 4)
	case "TypeAssertExpr": // X Lparen Type Rparen
		set(false, 2)
	case "ArrayType": // Lbrack Len Elt
		set(false, 1)
	case "MapType": // Map Key Value
		set(false, 1)
	case "CompositeLit": // Type Lbrace Elts Rbrace Incomplete
		if ex && len(n.Kids) > 0 {
			switch n.Kids[0].Kind {
			case "Ident", "SelectorExpr", "IndexExpr", "IndexListExpr":
				return true
			}
		}
		set(false, 2)
	}
	for i, k := range n.Kids {
		if exposed(k, kidsEx[i]) {
			return true
		}
	}
	return false
}

// PrinterLosesParens reports whether the (unstripped) tree contains a shape that go/printer
// prints without the parentheses it needs, because go/parser never produces it: a
// dereference whose operand is a binary expression (*(a+b) is printed *a + b), or a
// bidirectional/send channel type whose element is a receive-only channel type
// (chan (<-chan T) is printed chan <-chan T, which reads as chan<- (chan T)).
func PrinterLosesParens(n *N) bool {
	found := false
	Walk(n, func(x *N) bool {
		if found {
			return false
		}
		switch x.Kind {
		case "StarExpr":
			if len(x.Kids) == 2 && (x.Kids[1].Kind == "BinaryExpr" || hasAltKind(x.Kids[1], "BinaryExpr")) {
				found = true
			}
		case "ChanType": // Begin Arrow Dir Value
			if len(x.Kids) == 4 && x.Kids[2].Leaf != "2" && x.Kids[3].Kind == "ChanType" && len(x.Kids[3].Kids) == 4 && x.Kids[3].Kids[2].Leaf == "2" {
				found = true
			}
		}
		return true
	})
	return found
}

func hasAltKind(n *N, kind string) bool {
	if n.Kind != "alt" {
		return false
	}
	for _, a := range n.Kids {
		if a.Kind == kind {
			return true
		}
	}
	return false
}

// GaveUp reports whether the reference search hit its work bound: its result is then
// meaningless and the case has to be counted as inconclusive.
func (r *Rewriter) GaveUp() bool { return r.M.Limit > 0 && r.M.Steps > r.M.Limit }
