package ref

import (
	"bytes"
	"fmt"
	"go/ast"
	"go/format"
	"go/parser"
	"go/token"
	"reflect"
	"strconv"
)

// Canonical trees back to go/ast, so that an expected tree can be printed with go/printer.
// This lets the judge decide whether a rewrite the reference expects is printable as valid Go
// at all (a call in a type position, a composite literal exposed in an if header, ...): when it
// is not, the engine has to report an error instead of emitting it (C07), and C01-C05 do not
// count the case against the engine.

var astTypes = map[string]reflect.Type{}
var tokByName = map[string]token.Token{}

func init() {
	for _, x := range []any{
		ast.ArrayType{}, ast.AssignStmt{}, ast.BadDecl{}, ast.BadExpr{}, ast.BadStmt{}, ast.BasicLit{}, ast.BinaryExpr{}, ast.BlockStmt{},
		ast.BranchStmt{}, ast.CallExpr{}, ast.CaseClause{}, ast.ChanType{}, ast.CommClause{}, ast.CompositeLit{}, ast.DeclStmt{}, ast.DeferStmt{},
		ast.Ellipsis{}, ast.EmptyStmt{}, ast.ExprStmt{}, ast.Field{}, ast.FieldList{}, ast.ForStmt{}, ast.FuncDecl{}, ast.FuncLit{}, ast.FuncType{},
		ast.GenDecl{}, ast.GoStmt{}, ast.Ident{}, ast.IfStmt{}, ast.ImportSpec{}, ast.IncDecStmt{}, ast.IndexExpr{}, ast.IndexListExpr{},
		ast.InterfaceType{}, ast.KeyValueExpr{}, ast.LabeledStmt{}, ast.MapType{}, ast.ParenExpr{}, ast.RangeStmt{}, ast.ReturnStmt{}, ast.SelectStmt{},
		ast.SelectorExpr{}, ast.SendStmt{}, ast.SliceExpr{}, ast.StarExpr{}, ast.StructType{}, ast.SwitchStmt{}, ast.TypeAssertExpr{}, ast.TypeSpec{},
		ast.TypeSwitchStmt{}, ast.UnaryExpr{}, ast.ValueSpec{},
	} {
		t := reflect.TypeOf(x)
		astTypes[t.Name()] = t
	}
	for t := token.ILLEGAL; t <= token.TILDE; t++ {
		tokByName[t.String()] = t
	}
}

// ToAST rebuilds a go/ast value from a canonical tree (alt nodes: first alternative). The
// result is a pointer to the node struct, or an *ast.File for a "File" tree.
func ToAST(n *N) (res any, err error) {
	defer func() {
		if r := recover(); r != nil {
			err = fmt.Errorf("toast: %v", r)
		}
	}()
	if n.Kind == "File" {
		f := &ast.File{Name: ast.NewIdent(n.Kids[0].Leaf), Package: 1}
		for _, k := range n.Kids[1:] {
			d := build(k, reflect.TypeOf((*ast.Decl)(nil)).Elem())
			f.Decls = append(f.Decls, d.Interface().(ast.Decl))
		}
		return f, nil
	}
	t, ok := astTypes[first(n).Kind]
	if !ok {
		return nil, fmt.Errorf("toast: unknown kind %q", n.Kind)
	}
	return build(n, reflect.PtrTo(t)).Interface(), nil
}

// pickLast makes first choose the last alternative of don't-care nodes instead of the first
// (set only by PrintableAlt, single-threaded use inside one worker).
var pickLast bool

func first(n *N) *N {
	for n.Kind == "alt" {
		if pickLast {
			n = n.Kids[len(n.Kids)-1]
		} else {
			n = n.Kids[0]
		}
	}
	return n
}

// PrintableAlt is Printable with the last alternative of every don't-care node chosen.
func PrintableAlt(n *N) (bool, string) {
	pickLast = true
	defer func() { pickLast = false }()
	return Printable(n)
}

func build(n *N, want reflect.Type) reflect.Value {
	n = first(n)
	switch want {
	case posT:
		if n.Leaf == "P1" || n.Leaf == "P*" {
			return reflect.ValueOf(token.Pos(1))
		}
		return reflect.ValueOf(token.NoPos)
	case tokT:
		tk, ok := tokByName[n.Leaf[2:]]
		if !ok {
			panic("unknown token " + n.Leaf)
		}
		return reflect.ValueOf(tk)
	}
	switch want.Kind() {
	case reflect.String:
		s, err := strconv.Unquote(n.Leaf)
		if err != nil {
			panic(err)
		}
		return reflect.ValueOf(s).Convert(want)
	case reflect.Bool:
		return reflect.ValueOf(n.Leaf == "true")
	case reflect.Int:
		i, err := strconv.Atoi(n.Leaf)
		if err != nil {
			panic(err)
		}
		return reflect.ValueOf(i).Convert(want)
	case reflect.Slice:
		if n.Kind != "[]" {
			panic("want list, got " + n.Kind)
		}
		s := reflect.MakeSlice(want, 0, len(n.Kids))
		if len(n.Kids) == 0 {
			return reflect.Zero(want)
		}
		for _, k := range n.Kids {
			s = reflect.Append(s, build(k, want.Elem()))
		}
		return s
	case reflect.Interface, reflect.Ptr:
		if n.Kind == "leaf" {
			if n.Leaf != "nil" {
				panic("unexpected leaf " + n.Leaf)
			}
			return reflect.Zero(want)
		}
		t, ok := astTypes[n.Kind]
		if !ok {
			panic("unknown kind " + n.Kind)
		}
		p := reflect.New(t)
		fill(p.Elem(), n)
		if !p.Type().AssignableTo(want) {
			panic(fmt.Sprintf("%s does not fit %s", p.Type(), want))
		}
		if want.Kind() == reflect.Interface {
			v := reflect.New(want).Elem()
			v.Set(p)
			return v
		}
		return p
	}
	panic("unsupported slot type " + want.String())
}

func fill(v reflect.Value, n *N) {
	t := v.Type()
	ki := 0
	for i := 0; i < v.NumField(); i++ {
		ft := t.Field(i).Type
		if ft == cgT || ft == objT || ft == scopeT {
			continue
		}
		if ki >= len(n.Kids) {
			panic("too few children for " + n.Kind)
		}
		v.Field(i).Set(build(n.Kids[ki], ft))
		ki++
	}
	if ki != len(n.Kids) {
		panic("too many children for " + n.Kind)
	}
}

// Printable reports whether the tree, printed by go/printer, parses again as Go source
// (only "File" trees). The second result is the printed text (or the error).
func Printable(n *N) (bool, string) {
	x, err := ToAST(n)
	if err != nil {
		return false, err.Error()
	}
	f, ok := x.(*ast.File)
	if !ok {
		return false, "not a file"
	}
	var buf bytes.Buffer
	if err := func() (err error) {
		defer func() {
			if r := recover(); r != nil {
				err = fmt.Errorf("printer panic: %v", r)
			}
		}()
		return format.Node(&buf, token.NewFileSet(), f)
	}(); err != nil {
		return false, err.Error()
	}
	fs := token.NewFileSet()
	if _, err := parser.ParseFile(fs, "x.go", buf.Bytes(), parser.SkipObjectResolution); err != nil {
		return false, err.Error() + "\n" + buf.String()
	}
	return true, buf.String()
}
