// Package ref is the executable reference semantics of the patch language used as the
// oracle for C01-C05, C09-C11, C13 and C17. It works on generic canonical trees of go/ast
// values and never looks at positions (only at whether an optional token is present).
package ref

import (
	"fmt"
	"go/ast"
	"go/parser"
	"go/token"
	"reflect"
	"strings"
)

// N is a canonical tree node.
type N struct {
	Kind   string // go/ast struct name, "[]" for lists, "leaf", "alt"
	Leaf   string
	Kids   []*N
	Static string // static go/ast type of the slot this node sits in ("ast.Expr", "*ast.Ident", ...)
}

func (n *N) String() string {
	var sb strings.Builder
	n.write(&sb)
	return sb.String()
}

func (n *N) write(sb *strings.Builder) {
	if n == nil {
		sb.WriteString("<nil>")
		return
	}
	if n.Kind == "leaf" {
		sb.WriteString(n.Leaf)
		return
	}
	sb.WriteString("(" + n.Kind)
	for _, k := range n.Kids {
		sb.WriteByte(' ')
		k.write(sb)
	}
	sb.WriteByte(')')
}

var (
	posT   = reflect.TypeOf(token.Pos(0))
	tokT   = reflect.TypeOf(token.Token(0))
	cgT    = reflect.TypeOf((*ast.CommentGroup)(nil))
	objT   = reflect.TypeOf((*ast.Object)(nil))
	scopeT = reflect.TypeOf((*ast.Scope)(nil))
)

// Canon converts a go/ast value to its canonical tree. With stripParen, ParenExpr nodes
// are elided (used for output comparison only).
func Canon(x any, stripParen bool) *N {
	return canon(reflect.ValueOf(x), stripParen)
}

func canon(v reflect.Value, stripParen bool) *N {
	t := v.Type()
	switch t {
	case posT:
		if token.Pos(v.Int()).IsValid() {
			return &N{Kind: "leaf", Leaf: "P1"}
		}
		return &N{Kind: "leaf", Leaf: "P0"}
	case cgT, objT, scopeT:
		return nil // dropped
	}
	switch v.Kind() {
	case reflect.Interface, reflect.Ptr:
		if v.IsNil() {
			return &N{Kind: "leaf", Leaf: "nil"}
		}
		if v.Kind() == reflect.Interface {
			return canon(v.Elem(), stripParen)
		}
		if stripParen {
			if p, ok := v.Interface().(*ast.ParenExpr); ok {
				return canon(reflect.ValueOf(p.X), stripParen)
			}
		}
		if bl, ok := v.Interface().(*ast.BasicLit); ok {
			return &N{Kind: "BasicLit", Kids: []*N{
				{Kind: "leaf", Leaf: "P1"},
				{Kind: "leaf", Leaf: "T:" + bl.Kind.String()},
				{Kind: "leaf", Leaf: fmt.Sprintf("%q", NormalizeNumber(bl.Kind, bl.Value))},
			}}
		}
		return canon(v.Elem(), stripParen)
	case reflect.Struct:
		n := &N{Kind: t.Name()}
		for i := 0; i < v.NumField(); i++ {
			k := canon(v.Field(i), stripParen)
			if k == nil {
				continue
			}
			k.Static = strings.TrimPrefix(t.Field(i).Type.String(), "")
			if t.Name() == "FuncType" && t.Field(i).Name == "Results" && k.Kind == "FieldList" && len(k.Kids) == 3 {
				// the parentheses of a result list are optional around a single unnamed result and say nothing
				// otherwise: "func f() error" and "func f() (error)" are the same declaration (C01, C04)
				k.Kids[0], k.Kids[2] = &N{Kind: "leaf", Leaf: "P*"}, &N{Kind: "leaf", Leaf: "P*"}
			}
			n.Kids = append(n.Kids, k)
		}
		return n
	case reflect.Slice:
		n := &N{Kind: "[]"}
		for i := 0; i < v.Len(); i++ {
			k := canon(v.Index(i), stripParen)
			if k != nil {
				k.Static = t.Elem().String()
				n.Kids = append(n.Kids, k)
			}
		}
		return n
	case reflect.String:
		return &N{Kind: "leaf", Leaf: fmt.Sprintf("%q", v.String())}
	case reflect.Bool:
		return &N{Kind: "leaf", Leaf: fmt.Sprint(v.Bool())}
	case reflect.Int:
		if t == tokT {
			return &N{Kind: "leaf", Leaf: "T:" + token.Token(v.Int()).String()}
		}
		return &N{Kind: "leaf", Leaf: fmt.Sprint(v.Int())}
	}
	return &N{Kind: "leaf", Leaf: fmt.Sprint(v.Interface())}
}

// NormalizeNumber puts a number literal in the form go/printer emits.
func NormalizeNumber(kind token.Token, x string) string {
	if kind != token.INT && kind != token.FLOAT && kind != token.IMAG {
		return x
	}
	if len(x) < 2 {
		return x
	}
	switch x[:2] {
	default:
		// 123e5 and friends
		if i := strings.LastIndexByte(x, 'E'); i >= 0 {
			x = x[:i] + "e" + x[i+1:]
		}
		// remove leading 0's from integer (but not floating-point) imaginary literals
		if x[len(x)-1] == 'i' && !strings.ContainsAny(x, ".e") {
			x = strings.TrimLeft(x, "0_")
			if x == "i" {
				x = "0i"
			}
		}
	case "0X":
		x = "0x" + x[2:]
		fallthrough
	case "0x":
		if i := strings.LastIndexByte(x, 'P'); i >= 0 {
			x = x[:i] + "p" + x[i+1:]
		}
	case "0O":
		x = "0o" + x[2:]
	case "0o":
	case "0B":
		x = "0b" + x[2:]
	case "0b":
	}
	return x
}

// File is the canonical form of a source file.
type File struct {
	Pkg     string
	Imports []Import // every import spec, in source order
	Decls   []*N     // non-import declarations
	Tree    *N       // (File pkg decls...) for whole-file comparison
}

// Import is one import spec.
type Import struct{ Name, Path string }

// ParseFile parses src and canonicalises it.
func ParseFile(src []byte, stripParen bool) (*File, *ast.File, *token.FileSet, error) {
	fs := token.NewFileSet()
	f, err := parser.ParseFile(fs, "x.go", src, parser.ParseComments|parser.SkipObjectResolution)
	if err != nil {
		return nil, nil, nil, err
	}
	return CanonFile(f, stripParen), f, fs, nil
}

// CanonFile canonicalises a parsed file.
func CanonFile(f *ast.File, stripParen bool) *File {
	cf := &File{Pkg: f.Name.Name}
	root := &N{Kind: "File"}
	root.Kids = append(root.Kids, &N{Kind: "leaf", Leaf: f.Name.Name})
	for _, d := range f.Decls {
		if g, ok := d.(*ast.GenDecl); ok && g.Tok == token.IMPORT {
			for _, s := range g.Specs {
				is := s.(*ast.ImportSpec)
				im := Import{Path: strings.Trim(is.Path.Value, "\"`")}
				if is.Name != nil {
					im.Name = is.Name.Name
				}
				cf.Imports = append(cf.Imports, im)
			}
			continue
		}
		dn := canon(reflect.ValueOf(d), false)
		dn.Static = "ast.Decl"
		if stripParen {
			dn = StripParens(dn)
		}
		cf.Decls = append(cf.Decls, dn)
		root.Kids = append(root.Kids, dn)
	}
	cf.Tree = root
	return cf
}

var exprKinds = map[string]bool{}
var stmtKinds = map[string]bool{}

func init() {
	for _, k := range []string{"Ident", "BasicLit", "CompositeLit", "FuncLit", "ParenExpr", "SelectorExpr", "IndexExpr", "IndexListExpr",
		"SliceExpr", "TypeAssertExpr", "CallExpr", "StarExpr", "UnaryExpr", "BinaryExpr", "KeyValueExpr",
		"ArrayType", "StructType", "FuncType", "InterfaceType", "MapType", "ChanType", "Ellipsis", "BadExpr"} {
		exprKinds[k] = true
	}
	for _, k := range []string{"BadStmt", "DeclStmt", "EmptyStmt", "LabeledStmt", "ExprStmt", "SendStmt", "IncDecStmt", "AssignStmt", "GoStmt",
		"DeferStmt", "ReturnStmt", "BranchStmt", "BlockStmt", "IfStmt", "CaseClause", "SwitchStmt", "TypeSwitchStmt", "CommClause", "SelectStmt",
		"ForStmt", "RangeStmt"} {
		stmtKinds[k] = true
	}
}

// IsExprKind reports whether nodes of this kind are expressions.
func IsExprKind(k string) bool { return exprKinds[k] }

// IsStmtKind reports whether nodes of this kind are statements.
func IsStmtKind(k string) bool { return stmtKinds[k] }

// FitsSlot reports whether a node of kind k is admissible in a slot of the given static type.
func FitsSlot(k, static string) bool {
	switch static {
	case "", "ast.Node":
		return true
	case "ast.Expr":
		return exprKinds[k]
	case "ast.Stmt":
		return stmtKinds[k]
	case "ast.Decl":
		return k == "GenDecl" || k == "FuncDecl" || k == "BadDecl"
	case "ast.Spec":
		return k == "ImportSpec" || k == "ValueSpec" || k == "TypeSpec"
	}
	return static == "*ast."+k
}

// Equal is structural equality (Static is ignored).
func Equal(a, b *N) bool {
	if a == nil || b == nil {
		return a == b
	}
	if a.Kind != b.Kind || a.Leaf != b.Leaf || len(a.Kids) != len(b.Kids) {
		return false
	}
	for i := range a.Kids {
		if !Equal(a.Kids[i], b.Kids[i]) {
			return false
		}
	}
	return true
}

// Clone deep-copies a tree.
func Clone(a *N) *N {
	c := *a
	c.Kids = make([]*N, len(a.Kids))
	for i, k := range a.Kids {
		c.Kids[i] = Clone(k)
	}
	return &c
}

// StripParens elides ParenExpr nodes.
func StripParens(n *N) *N {
	if n.Kind == "ParenExpr" {
		for _, k := range n.Kids {
			if k.Kind != "leaf" {
				r := StripParens(k)
				r2 := *r
				r2.Static = n.Static
				return &r2
			}
		}
	}
	c := *n
	c.Kids = make([]*N, len(n.Kids))
	for i, k := range n.Kids {
		c.Kids[i] = StripParens(k)
	}
	if c.Kind == "FuncType" && len(c.Kids) == 4 {
		// go/printer drops an empty result list "()" altogether
		if r := c.Kids[3]; r.Kind == "FieldList" && len(r.Kids) == 3 && r.Kids[1].Kind == "[]" && len(r.Kids[1].Kids) == 0 {
			c.Kids[3] = &N{Kind: "leaf", Leaf: "nil", Static: r.Static}
		}
	}
	return &c
}

// Alt builds a don't-care node: the actual tree may equal any alternative.
func Alt(alts ...*N) *N {
	return &N{Kind: "alt", Kids: alts, Static: alts[0].Static}
}

// Matches compares an actual tree against an expected tree that may contain alt nodes.
func Matches(actual, exp *N) bool {
	if exp.Kind == "alt" {
		for _, a := range exp.Kids {
			if Matches(actual, a) {
				return true
			}
		}
		return false
	}
	if actual.Kind != exp.Kind || actual.Leaf != exp.Leaf || len(actual.Kids) != len(exp.Kids) {
		return false
	}
	for i := range exp.Kids {
		if !Matches(actual.Kids[i], exp.Kids[i]) {
			return false
		}
	}
	return true
}

// FirstDiff returns a short description of the first difference between actual and the
// first alternative of exp.
func FirstDiff(actual, exp *N, path string) string {
	for exp.Kind == "alt" {
		ok := false
		for _, a := range exp.Kids {
			if Matches(actual, a) {
				ok = true
			}
		}
		if ok {
			return ""
		}
		exp = exp.Kids[0]
	}
	if actual.Kind != exp.Kind || actual.Leaf != exp.Leaf {
		return fmt.Sprintf("%s: got %s want %s", path, Short(actual), Short(exp))
	}
	if len(actual.Kids) != len(exp.Kids) {
		return fmt.Sprintf("%s (%s): got %d children want %d: got %s want %s", path, exp.Kind, len(actual.Kids), len(exp.Kids), Short(actual), Short(exp))
	}
	for i := range exp.Kids {
		if d := FirstDiff(actual.Kids[i], exp.Kids[i], fmt.Sprintf("%s/%s[%d]", path, exp.Kind, i)); d != "" {
			return d
		}
	}
	return ""
}

// Short renders a tree truncated.
func Short(n *N) string {
	s := n.String()
	if len(s) > 300 {
		s = s[:300] + "…"
	}
	return s
}

// IdentName returns the name if n is an Ident node.
func IdentName(n *N) (string, bool) {
	if n == nil || n.Kind != "Ident" {
		return "", false
	}
	for _, k := range n.Kids {
		if k.Kind == "leaf" && strings.HasPrefix(k.Leaf, "\"") {
			return k.Leaf[1 : len(k.Leaf)-1], true
		}
	}
	return "", false
}

// Walk visits every node in pre-order.
func Walk(n *N, f func(*N) bool) {
	if n == nil || !f(n) {
		return
	}
	for _, k := range n.Kids {
		Walk(k, f)
	}
}
