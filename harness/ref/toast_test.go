package ref_test

import (
	"math/rand"
	"testing"

	"verif/harness/gen"
	"verif/harness/ref"
)

// Round trip: canon(parse(src)) -> ToAST -> print -> parse -> canon must be the same tree
// (parentheses elided on both sides).
func TestToASTRoundTrip(t *testing.T) {
	for i := 0; i < 400; i++ {
		g := gen.NewG(rand.New(rand.NewSource(int64(i))))
		g.Comment = i%2 == 0
		src := g.File(gen.FileOpts{Decls: 6})
		in, _, _, err := ref.ParseFile([]byte(src), false)
		if err != nil {
			t.Fatal(err)
		}
		ok, txt := ref.Printable(in.Tree)
		if !ok {
			t.Fatalf("case %d: not printable: %s\n%s", i, txt, src)
		}
		out, _, _, err := ref.ParseFile([]byte(txt), true)
		if err != nil {
			t.Fatal(err)
		}
		if !ref.Equal(out.Tree, ref.StripParens(in.Tree)) {
			t.Fatalf("case %d: round trip differs: %s\n--- src\n%s\n--- printed\n%s", i, ref.FirstDiff(out.Tree, ref.StripParens(in.Tree), ""), src, txt)
		}
	}
}
