package ref

import (
	"strings"
)

// DotsPrefix marks the identifiers that stand for elisions in the reference rendering.
const DotsPrefix = "ɵD"

// Env holds the bindings of one match.
type Env struct {
	Bind map[string]*N
	Runs map[string][]*N
}

// NewEnv returns an empty environment.
func NewEnv() *Env { return &Env{Bind: map[string]*N{}, Runs: map[string][]*N{}} }

func (e *Env) copy() *Env {
	c := NewEnv()
	for k, v := range e.Bind {
		c.Bind[k] = v
	}
	for k, v := range e.Runs {
		c.Runs[k] = v
	}
	return c
}

// Matcher unifies pattern trees with code trees.
type Matcher struct {
	Meta   map[string]string // name -> "identifier" | "expression"
	Greedy bool              // diagnostic mode: first occurrence, no backtracking (what the engine does today)
	Steps  int               // work counter (guards against blow-up)
	Limit  int               // when > 0: every match fails once Steps exceeds it (callers treat Steps > Limit as "gave up")
}

// StepLimit is the default work bound of a reference matcher.
const StepLimit = 3_000_000

// DotsID reports whether n is an elision placeholder (in any of its wrappers).
func DotsID(n *N) (string, bool) {
	if n == nil {
		return "", false
	}
	if name, ok := IdentName(n); ok && strings.HasPrefix(name, DotsPrefix) {
		return name, true
	}
	switch n.Kind {
	case "ExprStmt":
		if len(n.Kids) == 1 {
			return DotsID(n.Kids[0])
		}
	case "Field":
		// Kids: Names, Type, Tag
		if len(n.Kids) == 3 && n.Kids[2].Kind == "leaf" {
			names := n.Kids[0]
			ok := names.Kind == "leaf" || (names.Kind == "[]" && len(names.Kids) == 0)
			if names.Kind == "[]" && len(names.Kids) == 1 {
				if nm, isId := IdentName(names.Kids[0]); isId && nm == "_" {
					ok = true
				}
			}
			if ok {
				if name, isId := IdentName(n.Kids[1]); isId && strings.HasPrefix(name, DotsPrefix) {
					return name, true
				}
			}
		}
	}
	return "", false
}

// ForDotsID recognises `for ɵDk { ... }`.
func ForDotsID(p *N) (string, bool) {
	if p.Kind != "ForStmt" || len(p.Kids) != 5 {
		return "", false
	}
	if id, ok := DotsID(p.Kids[2]); ok && p.Kids[2].Kind == "Ident" && p.Kids[1].Kind == "leaf" && p.Kids[3].Kind == "leaf" {
		return id, true
	}
	return "", false
}

// Match unifies pat with t, calling k for each solution in leftmost-shortest order until k
// returns true.
func (p *Matcher) Match(pat, t *N, env *Env, k func(*Env) bool) bool {
	p.Steps++
	if p.Limit > 0 && p.Steps > p.Limit {
		return false
	}
	if name, ok := IdentName(pat); ok {
		if kind, isMeta := p.Meta[name]; isMeta {
			if t.Kind == "leaf" || t.Kind == "[]" { // absent or a list
				return false
			}
			if kind == "identifier" && t.Kind != "Ident" {
				return false
			}
			// 'key: value' and the '...' of [...]T / ...T have an expression's type in go/ast but are not Go expressions (C02: "any single Go expression")
			if kind == "expression" && (!IsExprKind(t.Kind) || t.Kind == "KeyValueExpr" || t.Kind == "Ellipsis") {
				return false
			}
			if b, seen := env.Bind[name]; seen {
				if !Equal(b, t) {
					return false
				}
				return k(env)
			}
			e2 := env.copy()
			e2.Bind[name] = t
			return k(e2)
		}
	}
	if id, ok := ForDotsID(pat); ok {
		if t.Kind != "ForStmt" && t.Kind != "RangeStmt" {
			return false
		}
		e2 := env.copy()
		e2.Runs["for:"+id] = []*N{t}
		return p.Match(pat.Kids[4], t.Kids[len(t.Kids)-1], e2, k)
	}
	if pat.Kind != t.Kind || pat.Leaf != t.Leaf {
		return false
	}
	if pat.Kind == "[]" {
		return p.MatchList(pat.Kids, t.Kids, env, k)
	}
	if len(pat.Kids) != len(t.Kids) {
		return false
	}
	return p.matchSeq(pat.Kids, t.Kids, env, k)
}

func (p *Matcher) matchSeq(ps, ts []*N, env *Env, k func(*Env) bool) bool {
	if len(ps) == 0 {
		return k(env)
	}
	return p.Match(ps[0], ts[0], env, func(e *Env) bool { return p.matchSeq(ps[1:], ts[1:], e, k) })
}

// MatchList matches a pattern list that may contain elisions against a code list.
func (p *Matcher) MatchList(ps, ts []*N, env *Env, k func(*Env) bool) bool {
	p.Steps++
	if p.Limit > 0 && p.Steps > p.Limit {
		return false
	}
	if len(ps) == 0 {
		if len(ts) == 0 {
			return k(env)
		}
		return false
	}
	if id, ok := DotsID(ps[0]); ok && p.Greedy {
		j := 1
		for j < len(ps) {
			if _, d := DotsID(ps[j]); d {
				break
			}
			j++
		}
		sec := ps[1:j]
		if len(sec) == 0 {
			if j < len(ps) {
				// two adjacent elisions: the first takes nothing
				e2 := env.copy()
				e2.Runs[id] = nil
				return p.MatchList(ps[j:], ts, e2, k)
			}
			e2 := env.copy()
			e2.Runs[id] = ts
			return p.MatchList(ps[j:], nil, e2, k)
		}
		for n := 0; n+len(sec) <= len(ts); n++ {
			e2 := env.copy()
			e2.Runs[id] = ts[:n]
			var after *Env
			if p.matchSeq(sec, ts[n:n+len(sec)], e2, func(e *Env) bool { after = e; return true }) {
				return p.MatchList(ps[j:], ts[n+len(sec):], after, k)
			}
		}
		return false
	}
	if id, ok := DotsID(ps[0]); ok {
		for n := 0; n <= len(ts); n++ { // shortest first
			e2 := env.copy()
			e2.Runs[id] = ts[:n]
			if p.MatchList(ps[1:], ts[n:], e2, k) {
				return true
			}
		}
		return false
	}
	if len(ts) == 0 {
		return false
	}
	return p.Match(ps[0], ts[0], env, func(e *Env) bool { return p.MatchList(ps[1:], ts[1:], e, k) })
}

// First returns the first solution of matching pat against t.
func (p *Matcher) First(pat, t *N) *Env {
	var got *Env
	p.Match(pat, t, NewEnv(), func(e *Env) bool { got = e; return true })
	return got
}

// FirstList returns the first solution of matching a pattern list against a code list.
func (p *Matcher) FirstList(ps, ts []*N) *Env {
	var got *Env
	p.MatchList(ps, ts, NewEnv(), func(e *Env) bool { got = e; return true })
	return got
}
