package gen

import (
	"fmt"
	"strings"
)

// SharedSectionsChange builds a list pattern with several elisions whose explicit sections share metavariables
// (every metavariable occurs in at least two sections), together with a generator of target fragments in which the
// leftmost candidates of a section are dead ends: they match the section on its own but bind a shared metavariable to
// something the later sections contradict, so the search has to come back and try the next candidate under another
// binding. Names of the metavariables come from a pool with no particular alphabetical order.
func (g *G) SharedSectionsChange() *Change {
	r := g.R
	pool := []string{"target", "addr", "conn", "zed", "mid", "beta", "kappa", "omega"}
	r.Shuffle(len(pool), func(i, j int) { pool[i], pool[j] = pool[j], pool[i] })
	m := 3 + r.Intn(2)
	k := m + r.Intn(3)
	names := pool[:m]
	var meta []MetaVar
	for _, n := range names {
		meta = append(meta, MetaVar{n, "expression"})
	}
	// every section mentions 1..3 metavariables picked at random; every metavariable occurs in at least two sections
	// (a metavariable bound by an early section may not be looked at again before a late one)
	var secs [][]string
	for try := 0; try < 50; try++ {
		secs = make([][]string, k)
		count := map[string]int{}
		for i := range secs {
			ar := 1 + r.Intn(3)
			if ar > m {
				ar = m
			}
			for _, j := range r.Perm(m)[:ar] {
				secs[i] = append(secs[i], names[j])
				count[names[j]]++
			}
		}
		ok := true
		for _, n := range names {
			if count[n] < 2 {
				ok = false
			}
		}
		if ok {
			break
		}
		if try == 49 {
			for i := range secs {
				secs[i] = []string{names[i%m], names[(i+1)%m]}
			}
		}
	}
	stmts := r.Intn(2) == 0
	call := func(vars []string, f func(string) string) string {
		var as []string
		for _, v := range vars {
			as = append(as, f(v))
		}
		return "sec(" + strings.Join(as, ", ") + ")"
	}
	mvf := func(v string) string { return ph(v) }
	c := &Change{Schema: "shared-sections", Meta: meta}
	var all []string
	for _, n := range names {
		all = append(all, ph(n))
	}
	if stmts {
		c.Kind = "stmts"
		for i, s := range secs {
			c.Lines = append(c.Lines, L(' ', call(s, mvf)))
			c.Lines = append(c.Lines, L(' ', fmt.Sprintf("‹%d:stmts›", i+1)))
		}
		c.Lines = append(c.Lines, L('-', "finish("+ph(names[0])+")"), L('+', "finished("+strings.Join(all, ", ")+")"))
	} else {
		c.Kind = "expr"
		parts := []string{"‹1:args›"}
		for i, s := range secs {
			parts = append(parts, call(s, mvf), fmt.Sprintf("‹%d:args›", i+2))
		}
		keep := "‹1:args›"
		if r.Intn(2) == 0 {
			keep = fmt.Sprintf("‹%d:args›", k+1)
		}
		c.Lines = []Line{L('-', "tgtSections("+strings.Join(parts, ", ")+")"), L('+', "replSections("+strings.Join(all, ", ")+", "+keep+")")}
	}
	c.PlantFn = func(g *G) string {
		r := g.R
		val := map[string]string{}
		for i, n := range names {
			val[n] = fmt.Sprintf("v%d%s", i, g.fresh())
			if r.Intn(3) == 0 {
				val[n] = fmt.Sprintf("o%d.f(%d)", i, r.Intn(9))
			}
		}
		solvable := r.Intn(5) > 0
		tight := r.Intn(4) == 0 // nothing but the sections themselves: every run is empty, no position to spare
		if tight {
			solvable = true
		}
		var elems []string
		for i, s := range secs {
			if tight {
				elems = append(elems, call(s, func(v string) string { return val[v] }))
				continue
			}
			// dead ends in front of the right candidate: one argument differs
			// a dead end binds a metavariable that this section is the first to mention to something the later
			// sections contradict
			var fresh []string
			for _, v := range s {
				first := true
				for _, ps := range secs[:i] {
					for _, pv := range ps {
						if pv == v {
							first = false
						}
					}
				}
				if first {
					fresh = append(fresh, v)
				}
			}
			if len(fresh) == 0 {
				fresh = s
			}
			for d := 0; d < r.Intn(4); d++ {
				wrong := fresh[r.Intn(len(fresh))]
				elems = append(elems, call(s, func(v string) string {
					if v == wrong {
						return fmt.Sprintf("dead%d_%d", i, d)
					}
					return val[v]
				}))
			}
			if r.Intn(4) == 0 {
				elems = append(elems, fmt.Sprintf("filler(%d)", i))
			}
			if !solvable && i == len(secs)-1 {
				continue // the last section has dead ends only: no choice of runs matches
			}
			elems = append(elems, call(s, func(v string) string { return val[v] }))
		}
		if stmts {
			return strings.Join(elems, "\n") + "\nfinish(" + val[names[0]] + ")"
		}
		return "tgtSections(" + strings.Join(elems, ", ") + ")"
	}
	return c
}
