package gen

import (
	"fmt"
	"go/scanner"
	"go/token"
	"regexp"
	"sort"
	"strconv"
	"strings"

	"verif/harness/ref"
)

// Line is one line of the diff part of a change.
type Line struct {
	Prefix byte   // ' ', '-', '+'
	Text   string // template text: «x» = metavariable occurrence, ‹k:ctx› = elision k in list context ctx
}

// MetaVar is one metavariable declaration.
type MetaVar struct{ Name, Kind string }

// Change is a structured description of one change.
type Change struct {
	Kind     string // "expr", "stmts", "decl"
	Schema   string // name of the schema that produced it
	Meta     []MetaVar
	Guards   []Line // package / import lines
	Lines    []Line
	Name     string
	Comments []string
	MetaText string // when non-empty, the metavariable section verbatim (layout variants)
	OrigFill *Fill  // abstracted patterns: the fillers that give back the fragment the pattern was abstracted from
	// PlantFn, when set, generates target fragments made for this change (instances and near-misses the generic
	// instantiation would not produce)
	PlantFn func(g *G) string
}

var (
	metaRe = regexp.MustCompile(`«([\pL_][\pL\pN_]*)»`)
	dotsRe = regexp.MustCompile(`‹(\d+):([a-z]+)›`)
)

// L builds a Line.
func L(prefix byte, text string) Line { return Line{prefix, text} }

// MetaMap returns name -> kind.
func (c *Change) MetaMap() map[string]string {
	m := map[string]string{}
	for _, v := range c.Meta {
		m[v.Name] = v.Kind
	}
	return m
}

func patchRender(t string) string {
	t = metaRe.ReplaceAllString(t, "$1")
	return dotsRe.ReplaceAllString(t, "...")
}

func refRender(t string) string {
	t = metaRe.ReplaceAllString(t, "$1")
	return dotsRe.ReplaceAllStringFunc(t, func(m string) string {
		sm := dotsRe.FindStringSubmatch(m)
		if sm[2] == "nparams" {
			return "_ " + ref.DotsPrefix + sm[1]
		}
		return ref.DotsPrefix + sm[1]
	})
}

// MetaSection renders the metavariable declarations.
func (c *Change) MetaSection() string {
	if c.MetaText != "" {
		return c.MetaText
	}
	var sb strings.Builder
	for _, v := range c.Meta {
		fmt.Fprintf(&sb, "var %s %s\n", v.Name, v.Kind)
	}
	return sb.String()
}

// PatchText renders the change as gopatch patch text.
func (c *Change) PatchText() string {
	var sb strings.Builder
	for _, cm := range c.Comments {
		if cm == "" {
			sb.WriteString("#\n")
			continue
		}
		sb.WriteString("# " + cm + "\n")
	}
	if c.Name != "" {
		sb.WriteString("@ " + c.Name + " @\n")
	} else {
		sb.WriteString("@@\n")
	}
	sb.WriteString(c.MetaSection())
	sb.WriteString("@@\n")
	for _, l := range c.Guards {
		sb.WriteString(string(l.Prefix) + patchRender(l.Text) + "\n")
	}
	for _, l := range c.Lines {
		if l.Prefix == 0 {
			// a context line written without the optional leading space
			sb.WriteString(patchRender(l.Text) + "\n")
			continue
		}
		sb.WriteString(string(l.Prefix) + patchRender(l.Text) + "\n")
	}
	return sb.String()
}

// Side returns the template text of one side ('-' or '+').
func (c *Change) Side(which byte) string {
	var out []string
	for _, l := range c.Lines {
		if l.Prefix == ' ' || l.Prefix == 0 || l.Prefix == which {
			out = append(out, l.Text)
		}
	}
	return strings.Join(out, "\n")
}

// RefPattern parses the change into the reference model's pattern.
func (c *Change) RefPattern() (*ref.Pattern, error) {
	if err := c.CheckPairing(); err != nil {
		return nil, err
	}
	return ref.ParsePattern(c.Kind, c.MetaMap(), refRender(c.Side('-')), refRender(c.Side('+')))
}

// CheckPairing verifies that the layout pairs every '+' elision with the '-' elision of the
// same id under the positional rule (same context line, or the nearest '-' elision before it).
func (c *Change) CheckPairing() error {
	type dp struct {
		line, col int
		id        string
		class     string // type of the list the elision stands in
	}
	classOf := func(ctx string) string {
		switch ctx {
		case "args", "elts", "rets", "kv":
			return "exprs"
		case "stmts":
			return "stmts"
		case "for":
			return "for"
		}
		return "fields"
	}
	var minus, plus []dp
	for i, l := range c.Lines {
		t := l.Text
		for _, loc := range dotsRe.FindAllStringSubmatchIndex(t, -1) {
			id := t[loc[2]:loc[3]]
			// column in the rendered patch text
			col := len(patchRender(t[:loc[0]]))
			d := dp{i, col, id, classOf(t[loc[4]:loc[5]])}
			if l.Prefix == ' ' || l.Prefix == 0 || l.Prefix == '-' {
				minus = append(minus, d)
			}
			if l.Prefix == ' ' || l.Prefix == 0 || l.Prefix == '+' {
				plus = append(plus, d)
			}
		}
	}
	seenMinus := map[string]bool{}
	for _, m := range minus {
		if seenMinus[m.id] {
			return fmt.Errorf("elision %s occurs twice on the minus side", m.id)
		}
		seenMinus[m.id] = true
	}
	if c.Kind != "stmts" && len(minus) == 1 && len(plus) == 1 && minus[0].id == plus[0].id {
		// the only elision of each side: they belong together wherever they stand (C04), also when the '+' line
		// is written above the '-' line
		return nil
	}
	for _, p := range plus {
		// the nearest '-' elision in front of it; if that one stands in a list of another type (or there is none),
		// the nearest one in a list of the same type in front of it, else the first such one behind it
		best := -1
		for i, m := range minus {
			if m.line < p.line || (m.line == p.line && m.col <= p.col) {
				if best < 0 || m.line > minus[best].line || (m.line == minus[best].line && m.col > minus[best].col) {
					best = i
				}
			}
		}
		if best >= 0 && minus[best].class == p.class {
			if minus[best].id != p.id {
				return fmt.Errorf("elision %s on the plus side is not positionally paired with its minus elision", p.id)
			}
			continue
		}
		// (a written elision never pairs with the ones implied around a statement pattern when the '-' side has a
		// written one in a list of the same type)
		prev, next := -1, -1
		for i, m := range minus {
			if m.class != p.class {
				continue
			}
			if m.line < p.line || (m.line == p.line && m.col <= p.col) {
				if prev < 0 || m.line > minus[prev].line || (m.line == minus[prev].line && m.col > minus[prev].col) {
					prev = i
				}
			} else if next < 0 || m.line < minus[next].line || (m.line == minus[next].line && m.col < minus[next].col) {
				next = i
			}
		}
		pick := prev
		if pick < 0 {
			pick = next
		}
		if pick < 0 || minus[pick].id != p.id {
			return fmt.Errorf("elision %s on the plus side is not positionally paired with its minus elision", p.id)
		}
	}
	return nil
}

// Skeleton is the pattern with names erased (distinctness signature).
func (c *Change) Skeleton() string {
	var sb strings.Builder
	sb.WriteString(c.Kind + "|")
	for _, v := range c.Meta {
		sb.WriteString(v.Kind[:1])
	}
	for _, l := range c.Lines {
		sb.WriteByte(l.Prefix)
		sb.WriteString(metaRe.ReplaceAllString(l.Text, "«»"))
		sb.WriteByte('\n')
	}
	return sb.String()
}

// HasDots reports whether the change uses elision.
func (c *Change) HasDots() bool {
	for _, l := range c.Lines {
		if dotsRe.MatchString(l.Text) {
			return true
		}
	}
	return false
}

// ---------------------------------------------------------------------------------------------
// instances

// RelayoutComment is the comment Fill.Relayout appends to a repeated filler that has no blank to double.
const RelayoutComment = " /* same */"

// Fill describes how an instance was made.
type Fill struct {
	Meta map[string]string
	Runs map[string]string
	// Relayout renders the second and later occurrences of an expression metavariable's filler with
	// another layout (doubled blanks, or a trailing comment): the same syntax, another source extent.
	Relayout  bool
	NoComment bool // Relayout without the trailing-comment variant
	// Skew: filler used instead for the second and later occurrences of a metavariable (a near-miss, see SkewInstance)
	Skew map[string]string
}

// delimited reports whether every occurrence of «name» in tmpl sits between list/bracket
// delimiters, so that an unparenthesised filler cannot change the parse.
func delimited(tmpl, name string) bool {
	ph := "«" + name + "»"
	i := 0
	for {
		j := strings.Index(tmpl[i:], ph)
		if j < 0 {
			return true
		}
		j += i
		before := strings.TrimRight(tmpl[:j], " \t")
		after := strings.TrimLeft(tmpl[j+len(ph):], " \t")
		okB := before == "" || strings.HasSuffix(before, "(") || strings.HasSuffix(before, ",") || strings.HasSuffix(before, "[") ||
			strings.HasSuffix(before, "{") || strings.HasSuffix(before, "=") || strings.HasSuffix(before, "\n") || strings.HasSuffix(before, "return") || strings.HasSuffix(before, ":")
		if strings.HasSuffix(before, "==") || strings.HasSuffix(before, "!=") || strings.HasSuffix(before, "<=") || strings.HasSuffix(before, ">=") {
			okB = false
		}
		okA := after == "" || after[0] == ')' || after[0] == ',' || after[0] == ']' || after[0] == '}' || after[0] == '\n' || after[0] == ';'
		if !okB || !okA {
			return false
		}
		i = j + len(ph)
	}
}

// Instance renders the minus side with random fillers.
func (c *Change) Instance(g *G) (string, *Fill) {
	minus := c.Side('-')
	f := &Fill{Meta: map[string]string{}, Runs: map[string]string{}}
	for _, v := range c.Meta {
		if v.Kind == "identifier" {
			if c.Kind == "decl" {
				f.Meta[v.Name] = "id" + g.fresh()
			} else {
				f.Meta[v.Name] = g.pick([]string{"id1", "id2", "id3", "a", "b", "err"})
			}
			continue
		}
		if v.Name[0] == 'T' {
			f.Meta[v.Name] = g.Type(1)
			continue
		}
		delim := delimited(minus, v.Name)
		switch g.R.Intn(6) {
		case 0, 1:
			if delim {
				f.Meta[v.Name] = g.Atom()
			} else {
				f.Meta[v.Name] = g.Primary(1, nil)
			}
		case 2:
			if g.NoParen {
				f.Meta[v.Name] = "id(" + g.Expr(2, nil) + ")"
			} else {
				f.Meta[v.Name] = "(" + g.Expr(2, nil) + ")"
			}
		case 3:
			f.Meta[v.Name] = g.Ident()
		default:
			if delim {
				f.Meta[v.Name] = g.Expr(2, nil)
			} else {
				f.Meta[v.Name] = g.Primary(1, nil)
			}
		}
	}
	for _, sm := range dotsRe.FindAllStringSubmatch(minus, -1) {
		f.Runs[sm[1]] = g.Run(sm[2], g.R.Intn(4))
	}
	if g.R.Intn(6) == 0 {
		// code in the file may use names that are spelled like the metavariables of the patch: it is still ordinary code
		c.hotFill(g, f)
	}
	if g.R.Intn(5) == 0 {
		// code a metavariable stands for may be spread over several lines: a call with one argument per line, the
		// last one possibly a spread 'xs...' (a token go/ast keeps only as a position)
		for _, v := range c.Meta {
			if fv := f.Meta[v.Name]; v.Kind == "expression" && v.Name[0] != 'T' && strings.HasSuffix(fv, ")") {
				if ml := MultiLineCall(fv, g.R.Intn(3) == 0); ml != "" && PlantParses("expr", ml) {
					f.Meta[v.Name] = ml
				}
			}
		}
	}
	f.Relayout = g.R.Intn(3) == 0
	f.NoComment = g.NoRelayoutComment
	return c.Substitute(minus, f), f
}

// MultiLineCall re-lays 'f(a, b)' as a call with one argument per line; with spread, a call whose last argument is an
// identifier gets it spread ('b...').
func MultiLineCall(v string, spread bool) string {
	for i := 0; i < len(v); i++ {
		if v[i] != '(' || closeOf(v, i) != len(v)-1 || i == 0 {
			continue
		}
		args := splitTop(v[i+1 : len(v)-1])
		if len(args) == 0 || strings.TrimSpace(args[0]) == "" {
			return ""
		}
		for k := range args {
			args[k] = strings.TrimSpace(args[k])
		}
		last := args[len(args)-1]
		if spread && !strings.HasSuffix(last, "...") && token.IsIdentifier(last) {
			args[len(args)-1] = last + "..."
		}
		return v[:i+1] + "\n\t" + strings.Join(args, ",\n\t") + ",\n)"
	}
	return ""
}

// hotFill renames one identifier inside the code an expression metavariable stands for to the name of a
// metavariable of the change, and reports that metavariable, the new filler and the offset of the renamed identifier.
func (c *Change) hotFill(g *G, f *Fill) (string, int, string) {
	var cands []string
	for _, v := range c.Meta {
		if v.Kind == "expression" && v.Name[0] != 'T' && f.Meta[v.Name] != "" {
			cands = append(cands, v.Name)
		}
	}
	if len(cands) == 0 {
		return "", 0, ""
	}
	name := cands[g.R.Intn(len(cands))]
	hot := c.Meta[g.R.Intn(len(c.Meta))].Name
	if hot == "_" || strings.ContainsAny(hot, "«»") {
		return "", 0, ""
	}
	v := f.Meta[name]
	var ids []tok
	for _, t := range scan(v) {
		if t.tok == token.IDENT && t.lit != "_" {
			ids = append(ids, t)
		}
	}
	if len(ids) == 0 {
		return "", 0, ""
	}
	t := ids[g.R.Intn(len(ids))]
	nv := v[:t.pos] + hot + v[t.pos+len(t.lit):]
	if !PlantParses("expr", nv) {
		return "", 0, ""
	}
	f.Meta[name] = nv
	return name, t.pos, hot
}

// SkewInstance renders the minus side such that the occurrences of a repeated expression metavariable differ in
// exactly one identifier, which at the first occurrence is spelled like a metavariable of the change: not an instance.
func (c *Change) SkewInstance(g *G) (string, bool) {
	minus := c.Side('-')
	_, f := c.Instance(g)
	name, pos, hot := c.hotFill(g, f)
	if name == "" || strings.Count(minus, ph(name)) < 2 {
		return "", false
	}
	v := f.Meta[name]
	f.Skew = map[string]string{name: v[:pos] + "q" + g.fresh() + v[pos+len(hot):]}
	return c.Substitute(minus, f), true
}

// Run generates a run of n elements for a list context.
func (g *G) Run(ctx string, n int) string {
	var parts []string
	for i := 0; i < n; i++ {
		switch ctx {
		case "args", "elts", "rets":
			parts = append(parts, g.Expr(1, nil))
		case "kv":
			parts = append(parts, fmt.Sprintf("R%d: %s", g.R.Intn(100), g.Expr(1, nil)))
		case "recv":
			if i == 0 {
				parts = append(parts, g.pick([]string{"r *Recv", "Recv", "r Recv", "*Recv"}))
			}
		case "params", "results":
			parts = append(parts, g.Type(1))
		case "nparams":
			parts = append(parts, g.fresh()+" "+g.Type(1))
		case "fields":
			parts = append(parts, fmt.Sprintf("F%s %s", g.fresh(), g.Type(1)))
		case "methods":
			parts = append(parts, fmt.Sprintf("M%s(%s) error", g.fresh(), g.Type(0)))
		case "stmts":
			parts = append(parts, strings.TrimRight(g.Stmt(1, ""), "\n"))
		case "for":
			return g.pick([]string{"i := 0; i < n; i++", "_, v := range vs", "", "cond()", "range ch", "k := range m", "; i < 3;"})
		}
	}
	switch ctx {
	case "fields", "methods", "stmts":
		return strings.Join(parts, "\n")
	}
	return strings.Join(parts, ", ")
}

// Substitute fills a template.
func (c *Change) Substitute(tmpl string, f *Fill) string {
	// elisions first (line-based contexts drop the whole line when empty)
	lines := strings.Split(tmpl, "\n")
	var out []string
	for _, ln := range lines {
		hadDots := dotsRe.MatchString(ln)
		for {
			loc := dotsRe.FindStringSubmatchIndex(ln)
			if loc == nil {
				break
			}
			id := ln[loc[2]:loc[3]]
			ctx := ln[loc[4]:loc[5]]
			run := f.Runs[id]
			before, after := ln[:loc[0]], ln[loc[1]:]
			if run == "" && ctx != "for" {
				switch {
				case strings.HasPrefix(strings.TrimLeft(after, " "), ","):
					after = strings.TrimLeft(strings.TrimLeft(after, " ")[1:], " ")
				case strings.HasSuffix(strings.TrimRight(before, " "), ","):
					before = strings.TrimRight(before, " ")
					before = strings.TrimRight(before[:len(before)-1], " ")
				}
			}
			ln = before + run + after
		}
		if hadDots && strings.TrimSpace(ln) == "" {
			continue
		}
		out = append(out, ln)
	}
	s := strings.Join(out, "\n")
	seen := map[string]int{}
	kinds := c.MetaMap()
	return metaRe.ReplaceAllStringFunc(s, func(m string) string {
		name := metaRe.FindStringSubmatch(m)[1]
		if v, ok := f.Meta[name]; ok {
			seen[name]++
			if sk := f.Skew[name]; sk != "" && seen[name] > 1 {
				return sk
			}
			if f.Relayout && seen[name] > 1 && kinds[name] == "expression" && !strings.Contains(v, "\n") && !strings.Contains(v, "`") && !strings.Contains(v, "\"") {
				if strings.Contains(v, " ") {
					return strings.ReplaceAll(v, " ", "  ")
				}
				if f.NoComment {
					return v
				}
				return v + RelayoutComment
			}
			return v
		}
		return name
	})
}

// ---------------------------------------------------------------------------------------------
// near misses: one token-level edit

type tok struct {
	pos int
	tok token.Token
	lit string
}

func scan(src string) []tok {
	fs := token.NewFileSet()
	file := fs.AddFile("", fs.Base(), len(src))
	var s scanner.Scanner
	s.Init(file, []byte(src), nil, 0)
	var out []tok
	for {
		p, t, lit := s.Scan()
		if t == token.EOF {
			break
		}
		if t == token.SEMICOLON && lit == "\n" {
			continue
		}
		out = append(out, tok{file.Offset(p), t, lit})
	}
	return out
}

var opClasses = [][]token.Token{
	{token.ADD, token.SUB, token.MUL, token.QUO, token.REM, token.AND, token.OR, token.XOR, token.SHL, token.SHR, token.AND_NOT},
	{token.EQL, token.NEQ, token.LSS, token.LEQ, token.GTR, token.GEQ},
	{token.LAND, token.LOR},
	{token.ADD_ASSIGN, token.SUB_ASSIGN, token.MUL_ASSIGN, token.OR_ASSIGN},
	{token.INC, token.DEC},
	{token.ASSIGN, token.DEFINE},
}

// Mutate applies one random token-level edit to a code fragment and returns the edited
// text with the kind of edit ("" when no edit was possible).
func (g *G) Mutate(src string) (string, string) {
	toks := scan(src)
	if len(toks) == 0 {
		return src, ""
	}
	for attempt := 0; attempt < 30; attempt++ {
		i := g.R.Intn(len(toks))
		t := toks[i]
		end := t.pos + len(t.lit)
		if t.lit == "" {
			end = t.pos + len(t.tok.String())
		}
		repl := func(s string) string { return src[:t.pos] + s + src[end:] }
		switch {
		case t.tok == token.IDENT:
			switch g.R.Intn(3) {
			case 0:
				return repl(t.lit + "Z"), "name"
			case 1:
				return repl(g.Ident()), "name"
			default:
				if i+1 < len(toks) && toks[i+1].tok == token.LPAREN {
					return repl(t.lit + "2"), "callee"
				}
				return repl(t.lit + "." + "Q"), "selector-added"
			}
		case t.tok == token.INT:
			n, _ := strconv.Atoi(t.lit)
			return repl(strconv.Itoa(n + 1)), "literal"
		case t.tok == token.STRING:
			// half of the edits differ from the original in an underscore only (S283: literals compared "without digit
			// separators"); which half is decided by the position, so the random stream of every workload stays as it was
			if (t.pos+len(src))%2 == 0 && len(t.lit) >= 2 {
				return repl(t.lit[:1] + "_" + t.lit[1:]), "literal"
			}
			if strings.HasPrefix(t.lit, "\"") {
				return repl("\"z" + t.lit[1:]), "literal"
			}
		case t.tok == token.FLOAT || t.tok == token.CHAR || t.tok == token.IMAG:
			return repl("7"), "literal"
		case t.tok == token.RPAREN:
			// extra argument / missing argument
			if i > 0 && toks[i-1].tok != token.LPAREN && toks[i-1].tok != token.COMMA {
				if g.R.Intn(2) == 0 {
					return src[:t.pos] + ", extra" + src[t.pos:], "extra-arg"
				}
				return src[:t.pos] + "..." + src[t.pos:], "variadic"
			}
			if i > 0 && toks[i-1].tok == token.LPAREN {
				return src[:t.pos] + "extra" + src[t.pos:], "extra-arg"
			}
		case t.tok == token.COMMA:
			// drop the element after the comma up to the next comma / closer at depth 0
			depth := 0
			for j := i + 1; j < len(toks); j++ {
				switch toks[j].tok {
				case token.LPAREN, token.LBRACK, token.LBRACE:
					depth++
				case token.RPAREN, token.RBRACK, token.RBRACE:
					depth--
				}
				if depth < 0 || (depth == 0 && toks[j].tok == token.COMMA) {
					return src[:t.pos] + src[toks[j].pos:], "missing-arg"
				}
			}
		case t.tok == token.ELLIPSIS:
			return repl(""), "variadic-removed"
		case t.tok == token.ARROW:
			return repl(""), "arrow-removed"
		case t.tok == token.NOT || t.tok == token.TILDE:
			return repl(""), "unary-removed"
		default:
			for _, cl := range opClasses {
				for _, o := range cl {
					if o == t.tok {
						n := cl[g.R.Intn(len(cl))]
						if n != t.tok {
							return repl(n.String()), "operator"
						}
					}
				}
			}
		}
	}
	return src, ""
}

// SortedMetaNames lists metavariable names in order.
func (c *Change) SortedMetaNames() []string {
	var out []string
	for _, v := range c.Meta {
		out = append(out, v.Name)
	}
	sort.Strings(out)
	return out
}
