package gen

import (
	"fmt"
	"go/parser"
	"go/token"
	"strings"
)

var metaNames = []string{"x", "y", "z", "w"}

func ph(n string) string { return "«" + n + "»" }

// pickMeta declares 0..max metavariables; identProb in percent.
func (g *G) pickMeta(max, identProb int) ([]MetaVar, []string) {
	n := g.R.Intn(max + 1)
	var mv []MetaVar
	var leaves []string
	for i := 0; i < n; i++ {
		k := "expression"
		if g.R.Intn(100) < identProb {
			k = "identifier"
		}
		mv = append(mv, MetaVar{metaNames[i], k})
		leaves = append(leaves, ph(metaNames[i]))
	}
	return mv, leaves
}

func usedMetas(mv []MetaVar, text string) []MetaVar {
	var out []MetaVar
	for _, v := range mv {
		if strings.Contains(text, ph(v.Name)) {
			out = append(out, v)
		}
	}
	return out
}

func phs(mv []MetaVar) []string {
	var out []string
	for _, v := range mv {
		out = append(out, ph(v.Name))
	}
	return out
}

// exprPat generates pattern-mode expressions in which identifier metavariables are only
// used where an identifier may stand and expression metavariables anywhere.
func (g *G) exprPat(d int, leaves []string) string {
	g.Pattern = true
	defer func() { g.Pattern = false }()
	return g.Expr(d, leaves)
}

// RandomExprChange builds a random expression pattern anchored on a distinctive root.
func (g *G) RandomExprChange() *Change {
	mv, leaves := g.pickMeta(4, 25)
	c := &Change{Kind: "expr", Schema: "rand-expr"}
	n := g.R.Intn(4)
	dots := -1
	if g.R.Intn(2) == 0 {
		dots = g.R.Intn(n + 1)
	}
	var args []string
	for i := 0; i <= n; i++ {
		if i == dots {
			args = append(args, "‹1:args›")
		}
		if i < n {
			args = append(args, g.exprPat(2, leaves))
		}
	}
	al := strings.Join(args, ", ")
	var minus string
	shape := g.R.Intn(9)
	switch shape {
	case 0, 1:
		minus = g.pick([]string{"target", "tgt.Call", "q.target"}) + "(" + al + ")"
	case 2:
		minus = "target(" + al + ") " + g.pick(binops) + " " + g.exprPat(1, leaves)
	case 3:
		minus = "target(" + al + ").Field"
	case 4:
		minus = "Tgt{" + strings.ReplaceAll(al, ":args›", ":elts›") + "}"
	case 5:
		minus = "&tgt.T{" + strings.ReplaceAll(al, ":args›", ":elts›") + "}"
	case 6:
		minus = "tgt[" + g.exprPat(2, leaves) + "]"
		dots = -1
	case 7:
		minus = "target(" + al + ")[" + g.exprPat(1, leaves) + "]"
	default:
		minus = g.pick(unops[:3]) + "target(" + al + ")"
	}
	used := usedMetas(mv, minus)
	pl := phs(used)
	pn := g.R.Intn(4)
	var pargs []string
	pd := -1
	if dots >= 0 && g.R.Intn(4) > 0 {
		pd = g.R.Intn(pn + 1)
	}
	for i := 0; i <= pn; i++ {
		if i == pd {
			pargs = append(pargs, "‹1:args›")
		}
		if i < pn {
			pargs = append(pargs, g.exprPat(2, pl))
		}
	}
	pal := strings.Join(pargs, ", ")
	var plus string
	switch g.R.Intn(6) {
	case 0, 1:
		plus = "repl(" + pal + ")"
	case 2:
		plus = "repl(" + pal + ") * " + g.exprPat(1, pl)
	case 3:
		plus = "r.Repl(" + pal + ").Other"
	case 4:
		plus = "Repl{" + strings.ReplaceAll(pal, ":args›", ":elts›") + "}"
	default:
		if len(pl) > 0 && pd < 0 {
			plus = g.exprPat(2, pl)
		} else {
			plus = "repl(" + pal + ")"
		}
	}
	if strings.HasPrefix(plus, "func") {
		plus = "id(" + plus + ")"
	}
	c.Meta = used
	if dots >= 0 && g.R.Intn(3) == 0 && shape <= 1 && strings.HasPrefix(plus, "repl(") && pd >= 0 {
		// multi-line layout with the elision on a context line
		c.Lines = g.multiLineCall(minus, plus)
		if c.Lines != nil {
			return c
		}
	}
	c.Lines = []Line{L('-', minus), L('+', plus)}
	return c
}

// multiLineCall lays `f(a, ‹1›, b)` / `repl(c, ‹1›, d)` out over several lines with the
// elision on a shared context line. Returns nil when the shapes do not allow it.
func (g *G) multiLineCall(minus, plus string) []Line {
	split := func(s string) (head string, before, after []string, ok bool) {
		i := strings.Index(s, "(")
		if i < 0 || !strings.HasSuffix(s, ")") {
			return
		}
		if len(splitTop(s)) != 1 || closeOf(s, i) != len(s)-1 {
			return
		}
		head = s[:i+1]
		body := s[i+1 : len(s)-1]
		args := splitTop(body)
		k := -1
		for j, a := range args {
			if strings.HasPrefix(strings.TrimSpace(a), "‹") {
				k = j
			}
		}
		if k < 0 {
			return
		}
		return head, args[:k], args[k+1:], true
	}
	mh, mb, ma, ok1 := split(minus)
	phd, pb, pa, ok2 := split(plus)
	if !ok1 || !ok2 {
		return nil
	}
	var out []Line
	out = append(out, L('-', mh), L('+', phd))
	for _, a := range mb {
		out = append(out, L('-', "  "+strings.TrimSpace(a)+","))
	}
	for _, a := range pb {
		out = append(out, L('+', "  "+strings.TrimSpace(a)+","))
	}
	out = append(out, L(' ', "  ‹1:args›,"))
	for _, a := range ma {
		out = append(out, L('-', "  "+strings.TrimSpace(a)+","))
	}
	for _, a := range pa {
		out = append(out, L('+', "  "+strings.TrimSpace(a)+","))
	}
	out = append(out, L(' ', " )"))
	return out
}

// closeOf returns the index of the bracket closing the one at s[i] (-1 if none).
func closeOf(s string, i int) int {
	depth := 0
	inStr := byte(0)
	for j := i; j < len(s); j++ {
		ch := s[j]
		if inStr != 0 {
			if ch == '\\' && inStr != '`' {
				j++
				continue
			}
			if ch == inStr {
				inStr = 0
			}
			continue
		}
		switch ch {
		case '"', '\'', '`':
			inStr = ch
		case '(', '[', '{':
			depth++
		case ')', ']', '}':
			depth--
			if depth == 0 {
				return j
			}
		}
	}
	return -1
}

// splitTop splits on commas at bracket depth 0 (strings and runes respected).
func splitTop(s string) []string {
	var out []string
	depth := 0
	start := 0
	inStr := byte(0)
	for i := 0; i < len(s); i++ {
		ch := s[i]
		if inStr != 0 {
			if ch == '\\' && inStr != '`' {
				i++
				continue
			}
			if ch == inStr {
				inStr = 0
			}
			continue
		}
		switch ch {
		case '"', '\'', '`':
			inStr = ch
		case '(', '[', '{':
			depth++
		case ')', ']', '}':
			depth--
		case ',':
			if depth == 0 {
				out = append(out, s[start:i])
				start = i + 1
			}
		}
	}
	if strings.TrimSpace(s[start:]) != "" || len(out) > 0 {
		out = append(out, s[start:])
	}
	return out
}

// Schema is a named generator of changes.
type Schema struct {
	Name string
	Gen  func(g *G) *Change
}

func mv(pairs ...string) []MetaVar {
	var out []MetaVar
	for i := 0; i+1 < len(pairs); i += 2 {
		out = append(out, MetaVar{pairs[i], pairs[i+1]})
	}
	return out
}

func lines(ls ...string) []Line {
	var out []Line
	for _, l := range ls {
		out = append(out, Line{l[0], l[1:]})
	}
	return out
}

// Schemas is the library of hand-written pattern schemas (statement and declaration
// patterns, identifier/literal patterns).
var Schemas = []Schema{
	{"stmt-assign-call", func(g *G) *Change {
		return &Change{Kind: "stmts", Meta: mv("v", "identifier", "x", "expression"), Lines: lines("-«v» := target(«x»)", "+«v» := repl(«x»)")}
	}},
	{"stmt-define-dots-use", func(g *G) *Change {
		return &Change{Kind: "stmts", Meta: mv("v", "identifier", "x", "expression"), Lines: lines(" «v» := target(«x»)", " ‹1:stmts›", "-use(«v»)", "+use2(«v», «x»)")}
	}},
	{"stmt-if-body", func(g *G) *Change {
		return &Change{Kind: "stmts", Meta: mv("x", "expression"), Lines: lines(" if «x» != nil {", "   ‹1:stmts›", "-  target(«x»)", "+  repl(«x»)", "   ‹2:stmts›", " }")}
	}},
	{"stmt-two-for-one", func(g *G) *Change {
		return &Change{Kind: "stmts", Meta: mv("x", "expression"), Lines: lines("-target(«x»)", "-other(«x»)", "+repl(«x»)")}
	}},
	{"stmt-one-for-two", func(g *G) *Change {
		return &Change{Kind: "stmts", Meta: mv("x", "expression", "v", "identifier"), Lines: lines("-«v» = target(«x»)", "+«v» = repl(«x»)", "+extra(«v»)")}
	}},
	{"stmt-for-dots-body", func(g *G) *Change {
		return &Change{Kind: "stmts", Meta: mv("x", "expression"), Lines: lines(" for ‹1:for› {", "-  target(«x»)", "+  repl(«x»)", " }")}
	}},
	{"stmt-for-dots-elided-body", func(g *G) *Change {
		return &Change{Kind: "stmts", Meta: mv("x", "expression"), Lines: lines(" for ‹1:for› {", "   ‹2:stmts›", "-  target(«x»)", "   ‹3:stmts›", " }")}
	}},
	{"stmt-err-inline", func(g *G) *Change {
		return &Change{Kind: "stmts", Meta: mv("e", "identifier", "x", "expression"), Lines: lines("-«e» = «x»", "-if «e» != nil {", "+if «e» := «x»; «e» != nil {", "   return ‹1:rets›, «e»", " }")}
	}},
	{"stmt-dup-delete", func(g *G) *Change {
		return &Change{Kind: "stmts", Meta: mv("x", "expression"), Lines: lines(" target(«x»)", "-target(«x»)")}
	}},
	{"stmt-lock-defer", func(g *G) *Change {
		return &Change{Kind: "stmts", Lines: lines(" lock()", " ‹1:stmts›", "-unlock()", "+defer unlock()")}
	}},
	{"stmt-return-wrap", func(g *G) *Change {
		return &Change{Kind: "stmts", Meta: mv("x", "expression"), Lines: lines("-return target(«x»)", "+return repl(«x», nil)")}
	}},
	{"stmt-defer-go", func(g *G) *Change {
		return &Change{Kind: "stmts", Meta: mv("x", "expression"), Lines: lines("-defer target(«x»)", "+go target(«x»)")}
	}},
	{"stmt-send", func(g *G) *Change {
		return &Change{Kind: "stmts", Meta: mv("c", "identifier", "x", "expression"), Lines: lines("-«c» <- target(«x»)", "+«c» <- repl(«x»)")}
	}},
	{"stmt-switch-case", func(g *G) *Change {
		return &Change{Kind: "stmts", Meta: mv("x", "expression"), Lines: lines(" switch «x» {", " case 1:", "-  target()", "+  repl()", " }")}
	}},
	{"stmt-range-dots", func(g *G) *Change {
		return &Change{Kind: "stmts", Meta: mv("k", "identifier", "x", "expression"), Lines: lines(" for «k» := range «x» {", "   ‹1:stmts›", "-  target(«k»)", "+  repl(«k», «x»)", "   ‹2:stmts›", " }")}
	}},
	{"stmt-incdec", func(g *G) *Change {
		return &Change{Kind: "stmts", Meta: mv("v", "identifier"), Lines: lines("-«v» += 1", "+«v»++")}
	}},
	{"stmt-labeled-break", func(g *G) *Change {
		return &Change{Kind: "stmts", Meta: mv("l", "identifier"), Lines: lines("-break «l»", "+continue «l»")}
	}},
	{"stmt-ctx-call-dots-above-if-replaced", func(g *G) *Change {
		// elisions of two kinds in the replaced statement, an elision of the first kind on a context line further up:
		// which '-' elision a '+' elision belongs to does not depend on the columns they are written at
		return &Change{Kind: "stmts", Meta: mv("c", "identifier", "d", "identifier"), Lines: lines(" «c», «d» := setup(‹1:args›)", " defer «d»()",
			"-if err := target(‹2:args›); err != nil {", "-  ‹3:stmts›", "-}", "+if err := repl(‹2:args›); err != nil {", "+  ‹3:stmts›", "+}")}
	}},
	{"stmt-ctx-two-dots", func(g *G) *Change {
		return &Change{Kind: "stmts", Meta: mv("x", "expression"), Lines: lines(" target(‹1:args›, «x», ‹2:args›)", "+after(«x»)")}
	}},
	{"stmt-ctx-three-dots", func(g *G) *Change {
		return &Change{Kind: "stmts", Meta: mv("x", "expression", "y", "expression"), Lines: lines("-pre(«y»)", " target(‹1:args›, «x», ‹2:args›, «y», ‹3:args›)", "+after(«x», «y»)")}
	}},
	{"decl-ctx-two-dots", func(g *G) *Change {
		return &Change{Kind: "decl", Meta: mv("f", "identifier"), Lines: lines(" func «f»(‹1:params›) (‹2:results›, tgtErr) {", "+  enter()", "   ‹3:stmts›", " }")}
	}},
	{"expr-ctx-composite-two-dots", func(g *G) *Change {
		return &Change{Kind: "stmts", Meta: mv("v", "identifier", "x", "expression"), Lines: lines(" «v» := Tgt{‹1:elts›, «x», ‹2:elts›}", "-use(«v»)", "+use(«v», «x»)")}
	}},
	// a metavariable bound by the first section and used again behind two elisions (a decoy first statement
	// binds it differently; see InstancePlants)
	{"stmt-two-dots-reused-metavar", func(g *G) *Change {
		return &Change{Kind: "stmts", Meta: mv("v", "identifier", "x", "expression"), Lines: lines(" «v» := tgtAcquire(«x»)", " ‹1:stmts›", " tgtLock()", " ‹2:stmts›", "-tgtRelease(«v»)", "+tgtReleaseAll(«v», «x»)")}
	}},
	{"stmt-dots-reused-metavar-in-args", func(g *G) *Change {
		return &Change{Kind: "stmts", Meta: mv("x", "expression"), Lines: lines(" tgtOpen(«x»)", " ‹1:stmts›", "-tgtUse(‹2:args›, «x», ‹3:args›)", "+tgtUsed(«x»)")}
	}},
	// an elision on a context line whose run a later '+'-only elision reproduces a second time
	{"stmt-ctx-dots-reused-on-plus", func(g *G) *Change {
		return &Change{Kind: "stmts", Meta: mv("v", "identifier", "x", "expression"), Lines: lines(" «v» := tgtDo(«x», ‹1:args›)", "+audit(«x», ‹1:args›)")}
	}},
	{"stmt-ctx-composite-dots-reused-on-plus", func(g *G) *Change {
		return &Change{Kind: "stmts", Meta: mv("v", "identifier"), Lines: lines(" «v» := []tgtT{‹1:elts›}", "+fallback := []tgtT{‹1:elts›, «v»}")}
	}},
	{"stmt-ctx-dots-reused-twice-on-plus", func(g *G) *Change {
		return &Change{Kind: "stmts", Meta: mv("x", "expression"), Lines: lines("+before(‹1:args›)", " tgtCall(«x», ‹1:args›)", "+after(‹1:args›, «x»)")}
	}},
	// an elision that is deleted at the very beginning / end of a statement pattern (next to the implicit one)
	{"stmt-minus-leading-dots", func(g *G) *Change {
		return &Change{Kind: "stmts", Meta: mv("x", "expression"), Lines: lines("-‹1:stmts›", "-tgtEnd(«x»)", "+replEnd(«x»)")}
	}},
	{"stmt-minus-trailing-dots", func(g *G) *Change {
		return &Change{Kind: "stmts", Meta: mv("x", "expression"), Lines: lines("-tgtBegin(«x»)", "-‹1:stmts›", "+replBegin(«x»)")}
	}},
	// the '+' line of a call written above its '-' line inside a statement pattern: its elision belongs to the call's, not to
	// the elision implied in front of the statements
	{"stmt-plus-call-above-minus-call", func(g *G) *Change {
		return &Change{Kind: "stmts", Lines: lines(" tgtBefore()", "+replCall(‹1:args›)", "-tgtCall(‹1:args›)")}
	}},
	// an elision on a line of its own in front of a line that begins with a token that could start a type: still an
	// elision, not a variadic '...T'
	{"stmt-dots-before-star-line", func(g *G) *Change {
		return &Change{Kind: "stmts", Lines: lines(" tgtOpen()", " ‹1:stmts›", "-*tgtP = 1", "+*tgtP = 2")}
	}},
	{"stmt-dots-before-receive-line", func(g *G) *Change {
		return &Change{Kind: "stmts", Lines: lines(" tgtOpen()", " ‹1:stmts›", "-<-tgtDone", "+<-tgtClosed")}
	}},
	{"stmt-dots-before-func-literal-line", func(g *G) *Change {
		return &Change{Kind: "stmts", Lines: lines(" tgtOpen()", " ‹1:stmts›", "-func() { tgtA() }()", "+func() { tgtB() }()")}
	}},
	{"decl-dots-before-embedded-pointer-field", func(g *G) *Change {
		return &Change{Kind: "decl", Meta: mv("N", "identifier"), Lines: lines(" type «N» struct {", "   ‹1:fields›", "-  *tgtEmbedded", "+  *replEmbedded", "   ‹2:fields›", " }")}
	}},
	// a removed (added) line directly in front of an identical context line: the first of two identical statements goes
	{"stmt-remove-first-of-two-identical", func(g *G) *Change {
		return &Change{Kind: "stmts", Meta: mv("x", "expression"), Lines: lines("-tgtDup(«x»)", " tgtDup(«x»)", " tgtAfter()")}
	}},
	{"stmt-add-copy-above-identical", func(g *G) *Change {
		return &Change{Kind: "stmts", Meta: mv("x", "expression"), Lines: lines("+tgtDup(«x»)", " tgtDup(«x»)", " tgtAfter()")}
	}},
	{"stmt-plus-block-above-minus-block", func(g *G) *Change {
		return &Change{Kind: "stmts", Lines: lines("+if tgtOk {", "+  ‹1:stmts›", "+}", "-if !tgtBad {", "-  ‹1:stmts›", "-}")}
	}},
	{"stmt-plus-call-above-minus-call-leading", func(g *G) *Change {
		return &Change{Kind: "stmts", Meta: mv("x", "expression"), Lines: lines("+replCall(«x», ‹1:args›)", "-tgtCall(«x», ‹1:args›)", " tgtAfter()")}
	}},
	// context lines whose Go code begins with a unary sign (the diff marker is the first column only)
	{"expr-ctx-lines-starting-with-a-sign", func(g *G) *Change {
		return &Change{Kind: "expr", Meta: mv("s", "expression", "o", "expression"), Lines: lines("-tgtReplace(", "+replReplace(", "   «s»,", "   -1,", "   +«o»,", "   -«s»,", " )")}
	}},
	{"stmt-ctx-lines-starting-with-a-sign", func(g *G) *Change {
		return &Change{Kind: "stmts", Meta: mv("v", "identifier", "x", "expression"), Lines: lines(" «v» := tgtSum(", "   -«x»,", "   +1,", " )", "-use(«v»)", "+use(«v», -1)")}
	}},
	// expression patterns of fixed shape
	{"expr-ident-rename", func(g *G) *Change {
		return &Change{Kind: "expr", Lines: lines("-oldName", "+newName")}
	}},
	{"expr-literal", func(g *G) *Change {
		return &Change{Kind: "expr", Lines: lines("-4242", "+2424")}
	}},
	{"expr-selector", func(g *G) *Change {
		return &Change{Kind: "expr", Meta: mv("x", "expression"), Lines: lines("-«x».OldField", "+«x».NewField")}
	}},
	{"expr-repeat", func(g *G) *Change {
		return &Change{Kind: "expr", Meta: mv("x", "expression"), Lines: lines("-target(«x», «x»)", "+repl(«x»)")}
	}},
	{"expr-repeat3", func(g *G) *Change {
		return &Change{Kind: "expr", Meta: mv("x", "expression", "y", "expression"), Lines: lines("-target(«x», «y», «x»)", "+repl(«y», «x», «y»)")}
	}},
	{"expr-variadic", func(g *G) *Change {
		return &Change{Kind: "expr", Meta: mv("x", "identifier"), Lines: lines("-target(a, «x»...)", "+repl(«x»...)")}
	}},
	{"expr-chan-type", func(g *G) *Change {
		return &Change{Kind: "expr", Meta: mv("T", "expression"), Lines: lines("-make(chan<- «T»)", "+make(chan «T», 1)")}
	}},
	{"expr-funclit", func(g *G) *Change {
		return &Change{Kind: "expr", Meta: mv("x", "expression"), Lines: lines("-wrapTgt(func() { target(«x») })", "+wrapTgt(func() { repl(«x») })")}
	}},
	{"expr-kv", func(g *G) *Change {
		return &Change{Kind: "expr", Meta: mv("x", "expression"), Lines: lines("-Tgt{Key: «x», ‹1:elts›}", "+Tgt{‹1:elts›, NewKey: «x»}")}
	}},
	{"expr-dots-mid", func(g *G) *Change {
		return &Change{Kind: "expr", Meta: mv("x", "expression", "y", "expression"), Lines: lines("-target(«x», ‹1:args›, «y»)", "+repl(«y», ‹1:args›, «x»)")}
	}},
	{"expr-slice3", func(g *G) *Change {
		return &Change{Kind: "expr", Meta: mv("x", "expression", "y", "expression"), Lines: lines("-tgt[«x»:«y»]", "+tgt[«x»:«y»:«y»]")}
	}},
	{"expr-typeassert", func(g *G) *Change {
		return &Change{Kind: "expr", Meta: mv("x", "expression"), Lines: lines("-«x».(Tgt)", "+«x».(*Tgt)")}
	}},
	{"expr-star", func(g *G) *Change {
		return &Change{Kind: "expr", Meta: mv("x", "expression"), Lines: lines("-*target(«x»)", "+repl(«x») + 1")}
	}},
	{"expr-method-recv", func(g *G) *Change {
		return &Change{Kind: "expr", Meta: mv("x", "expression", "y", "expression"), Lines: lines("-«x».Get(«y»)", "+Lookup(«y», «x», «x»)")}
	}},
	{"expr-index-recv", func(g *G) *Change {
		return &Change{Kind: "expr", Meta: mv("x", "expression"), Lines: lines("-«x»[0]", "+first(«x»)")}
	}},
	{"expr-binary-left", func(g *G) *Change {
		return &Change{Kind: "expr", Meta: mv("x", "expression"), Lines: lines("-«x» + 1", "+inc(«x»)")}
	}},
	{"expr-field-chain", func(g *G) *Change {
		return &Change{Kind: "expr", Meta: mv("x", "expression"), Lines: lines("-«x».Field.Sub", "+sub(«x»)")}
	}},
	// declaration patterns
	{"decl-func-body", func(g *G) *Change {
		return &Change{Kind: "decl", Meta: mv("f", "identifier"), Lines: lines("-func «f»() tgtResult {", "+func «f»(ctx Ctx) tgtResult {", "   ‹1:stmts›", " }")}
	}},
	{"decl-func-params", func(g *G) *Change {
		return &Change{Kind: "decl", Meta: mv("f", "identifier"), Lines: lines("-func «f»(‹1:params›) tgtErr {", "+func «f»(Ctx, ‹1:params›) tgtErr {", "   ‹2:stmts›", " }")}
	}},
	{"decl-func-nparams", func(g *G) *Change {
		return &Change{Kind: "decl", Meta: mv("f", "identifier", "r", "identifier"), Lines: lines(" func «f»(", "+   ctx Ctx,", "    ‹1:nparams›,", "    «r» *TgtReq,", "    ‹2:nparams›,", " ) error {", "+   «r» = «r».With(ctx)", "    ‹3:stmts›", " }")}
	}},
	{"decl-func-remove-named-param", func(g *G) *Change {
		// the '-' side has a named parameter, the '+' side only the elision
		return &Change{Kind: "decl", Meta: mv("f", "identifier"), Lines: lines(" func «f»(", "-   tgtCtx TgtContext,", "    ‹1:nparams›,", " ) error {", "    ‹2:stmts›", " }")}
	}},
	{"decl-func-remove-named-result", func(g *G) *Change {
		return &Change{Kind: "decl", Meta: mv("f", "identifier"), Lines: lines(" func «f»(‹1:params›) (", "-   tgtN TgtCount,", "    ‹2:nparams›,", " ) {", "    ‹3:stmts›", " }")}
	}},
	{"decl-func-recv", func(g *G) *Change {
		return &Change{Kind: "decl", Meta: mv("t", "identifier", "T", "expression"), Lines: lines(" func («t» *«T») TgtString() string {", "+  if «t» == nil {", "+    return \"<nil>\"", "+  }", "   ‹1:stmts›", " }")}
	}},
	{"decl-func-results", func(g *G) *Change {
		return &Change{Kind: "decl", Meta: mv("f", "identifier"), Lines: lines("-func «f»() (tgtErr, ‹1:results›) {", "+func «f»() (‹1:results›, tgtErr) {", "   ‹2:stmts›", " }")}
	}},
	{"decl-func-recv-dots", func(g *G) *Change {
		return &Change{Kind: "decl", Meta: mv("q", "identifier"), Lines: lines("-func (‹1:recv›) TgtSend(«q» *Request) error {", "+func (‹1:recv›) TgtSendRequest(«q» *Request) error {", "   ‹2:stmts›", " }")}
	}},
	{"decl-type-struct-field", func(g *G) *Change {
		return &Change{Kind: "decl", Meta: mv("N", "identifier"), Lines: lines(" type «N» struct {", "   ‹1:fields›", "-  TgtField string", "+  NewField string", "   ‹2:fields›", " }")}
	}},
	{"decl-type-struct-exact", func(g *G) *Change {
		return &Change{Kind: "decl", Meta: mv("A", "identifier", "B", "identifier", "T", "expression"), Lines: lines(" type TgtConfig struct {", "-   «A» «T»", "-   «B» «T»", "+   «A», «B» «T»", " }")}
	}},
	{"decl-type-iface", func(g *G) *Change {
		return &Change{Kind: "decl", Lines: lines(" type TgtDoer interface {", "   ‹1:methods›", "-  Do()", "+  Do() error", "   ‹2:methods›", " }")}
	}},
	{"decl-type-alias", func(g *G) *Change {
		return &Change{Kind: "decl", Meta: mv("N", "identifier", "S", "identifier"), Lines: lines("-type «N» = tgt.«S»", "+type «N» tgt.«S»")}
	}},
	{"decl-var", func(g *G) *Change {
		return &Change{Kind: "decl", Meta: mv("n", "identifier", "v", "expression"), Lines: lines("-var «n» = target(«v»)", "+var «n» = repl(«v»)")}
	}},
	{"decl-const-to-var", func(g *G) *Change {
		return &Change{Kind: "decl", Meta: mv("n", "identifier", "v", "expression"), Lines: lines("-const «n» tgtT = «v»", "+var «n» tgtT = «v»")}
	}},
	{"decl-var-group", func(g *G) *Change {
		return &Change{Kind: "decl", Meta: mv("a", "identifier", "b", "identifier", "v", "expression"), Lines: lines(" var (", "-  «a» = target(«v»)", "   «b» = 42", "+  «a» = «b» + «v»", " )")}
	}},
}

// SchemaChange instantiates schema i.
func (g *G) SchemaChange(i int) *Change {
	s := Schemas[i%len(Schemas)]
	c := s.Gen(g)
	c.Schema = s.Name
	return c
}

// RandomChange picks a random exact-oracle change.
func (g *G) RandomChange() *Change {
	if g.R.Intn(12) == 0 {
		return g.SharedSectionsChange()
	}
	if g.R.Intn(5) < 2 {
		return g.RandomExprChange()
	}
	return g.SchemaChange(g.R.Intn(len(Schemas)))
}

// RandomChangeWide is RandomChange with a quarter of the changes abstracted from generated code
// (expression, statement and declaration fragments; see abstract.go).
func (g *G) RandomChangeWide() *Change {
	if g.R.Intn(4) == 0 {
		if c := g.AbstractChange([]string{"expr", "stmts", "decl"}[g.R.Intn(3)]); c != nil {
			return c
		}
	}
	return g.RandomChange()
}

// InstancePlant makes n instances and m near-misses of the change as plants.
func (g *G) InstancePlants(c *Change, n, m int) ([]Plant, []string) {
	var plants []Plant
	var kinds []string
	for i := 0; i < n; i++ {
		if i == 0 && c.OrigFill != nil && g.R.Intn(2) == 0 {
			// the fragment the pattern was abstracted from (elisions get fresh runs)
			_, f := c.Instance(g)
			f.Meta = c.OrigFill.Meta
			if t := c.Substitute(c.Side('-'), f); PlantParses(c.Kind, t) {
				plants = append(plants, Plant{Kind: c.Kind, Text: t})
				continue
			}
		}
		if c.PlantFn != nil && g.R.Intn(4) > 0 {
			if t := c.PlantFn(g); PlantParses(c.Kind, t) {
				plants = append(plants, Plant{Kind: c.Kind, Text: t})
				continue
			}
		}
		for try := 0; try < 5; try++ {
			t, _ := c.Instance(g)
			if c.Kind == "stmts" && c.HasDots() && g.R.Intn(3) == 0 {
				// a decoy in front, in the same block: the first statement of another instance (it binds the
				// metavariables differently and the rest of the pattern does not follow it)
				t2, _ := c.Instance(g)
				if l0 := strings.SplitN(t2, "\n", 2)[0]; PlantParses("stmts", l0) && PlantParses("stmts", l0+"\n"+t) && !strings.HasSuffix(strings.TrimSpace(l0), "{") {
					t = l0 + "\n" + t
				}
			}
			if PlantParses(c.Kind, t) {
				plants = append(plants, Plant{Kind: c.Kind, Text: t})
				break
			}
		}
	}
	for i := 0; i < m; i++ {
		if g.R.Intn(3) == 0 {
			if st, ok := c.SkewInstance(g); ok && PlantParses(c.Kind, st) {
				plants = append(plants, Plant{Kind: c.Kind, Text: st})
				kinds = append(kinds, "occurrences-differ-at-metavariable-named-identifier")
				continue
			}
		}
		t, _ := c.Instance(g)
		if c.Kind == "stmts" && strings.HasPrefix(t, "for ") && g.R.Intn(2) == 0 {
			// a labelled loop is a labelled statement, not a for statement: a near-miss of 'for ... {'
			lt := "L" + g.fresh() + ":\n" + t
			if PlantParses(c.Kind, lt) {
				plants = append(plants, Plant{Kind: c.Kind, Text: lt})
				kinds = append(kinds, "labelled-loop")
				continue
			}
		}
		for try := 0; try < 6; try++ {
			mt, kind := g.Mutate(t)
			if kind != "" && PlantParses(c.Kind, mt) {
				plants = append(plants, Plant{Kind: c.Kind, Text: mt})
				kinds = append(kinds, kind)
				break
			}
		}
	}
	g.R.Shuffle(len(plants), func(i, j int) { plants[i], plants[j] = plants[j], plants[i] })
	return plants, kinds
}

// PlantParses reports whether a fragment parses in the context its kind is planted in.
func PlantParses(kind, text string) bool {
	var s string
	switch kind {
	case "expr":
		s = "package p\nfunc f() {\n\t_ = " + text + "\n}\n"
	case "stmts":
		s = "package p\nfunc f() {\n" + text + "\n}\n"
	default:
		s = "package p\n" + text + "\n"
	}
	fs := token.NewFileSet()
	_, err := parser.ParseFile(fs, "x.go", s, parser.SkipObjectResolution)
	return err == nil
}

var _ = fmt.Sprint
