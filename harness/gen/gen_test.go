package gen

import (
	"go/parser"
	"go/token"
	"math/rand"
	"strings"
	"testing"
)

func TestStmtParse(t *testing.T) {
	bad := 0
	for seed := int64(0); seed < 20000 && bad < 15; seed++ {
		g := NewG(rand.New(rand.NewSource(seed)))
		g.Comment = seed%2 == 0
		s := "package p\nfunc f() {\n" + g.Stmt(2, "\t") + "}\n"
		fs := token.NewFileSet()
		if _, err := parser.ParseFile(fs, "x.go", s, parser.AllErrors|parser.ParseComments); err != nil {
			bad++
			t.Errorf("seed %d: %v\n%s", seed, err, s)
		}
	}
}

func TestDeclParse(t *testing.T) {
	bad := 0
	for seed := int64(0); seed < 5000 && bad < 10; seed++ {
		g := NewG(rand.New(rand.NewSource(seed)))
		s := "package p\n" + g.Decl(int(seed))
		fs := token.NewFileSet()
		if _, err := parser.ParseFile(fs, "x.go", s, parser.AllErrors|parser.ParseComments); err != nil {
			bad++
			t.Errorf("seed %d: %v\n%s", seed, err, s)
		}
	}
}

func TestInstancesParse(t *testing.T) {
	bad := 0
	for seed := int64(0); seed < 20000 && bad < 15; seed++ {
		g := NewG(rand.New(rand.NewSource(seed)))
		c := g.RandomChange()
		inst, _ := c.Instance(g)
		var s string
		switch c.Kind {
		case "expr":
			s = "package p\nfunc f() {\n_ = " + inst + "\n}\n"
		case "stmts":
			s = "package p\nfunc f() {\nL:\nfor {\n" + inst + "\n}\n}\n"
		default:
			s = "package p\n" + inst + "\n"
		}
		fs := token.NewFileSet()
		if _, err := parser.ParseFile(fs, "x.go", s, parser.AllErrors|parser.ParseComments); err != nil {
			if strings.Contains(err.Error(), "label") {
				continue
			}
			bad++
			t.Errorf("seed %d schema %s: %v\n%s\n--- patch\n%s", seed, c.Schema, err, s, c.PatchText())
		}
		if _, err := c.RefPattern(); err != nil && !strings.Contains(err.Error(), "not positionally paired") {
			bad++
			t.Errorf("seed %d schema %s: refpattern: %v\n%s", seed, c.Schema, err, c.PatchText())
		}
	}
}
