package gen

import (
	"fmt"
	"math/rand"
	"testing"
)

func TestAbstractSamples(t *testing.T) {
	for _, kind := range []string{"expr", "stmts", "decl"} {
		ok := 0
		for i := 0; i < 200; i++ {
			g := NewG(rand.New(rand.NewSource(int64(i))))
			c := g.AbstractChange(kind)
			if c == nil {
				continue
			}
			ok++
			if i < 6 {
				fmt.Printf("--- %s %d\n%s", kind, i, c.PatchText())
				inst, _ := c.Instance(g)
				fmt.Printf("instance: %s\n", inst)
				fmt.Printf("orig: %s\n", c.Substitute(c.Side('-'), c.OrigFill))
			}
		}
		fmt.Printf("%s: %d/200 usable\n", kind, ok)
	}
}
