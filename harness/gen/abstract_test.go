package gen

import (
	"fmt"
	"math/rand"
	"os"
	"testing"
)

func TestAbstractSamples(t *testing.T) {
	for _, kind := range []string{"expr", "stmts", "decl"} {
		ok := 0
		for i := 0; i < 200; i++ {
			g := NewG(rand.New(rand.NewSource(int64(i))))
			c := g.AbstractChange(kind)
			if c == nil {
				continue
			}
			ok++
			if i < 6 {
				fmt.Printf("--- %s %d\n%s", kind, i, c.PatchText())
				inst, _ := c.Instance(g)
				fmt.Printf("instance: %s\n", inst)
				fmt.Printf("orig: %s\n", c.Substitute(c.Side('-'), c.OrigFill))
			}
		}
		fmt.Printf("%s: %d/200 usable\n", kind, ok)
	}
}

func TestAbstractCorpus(t *testing.T) {
	src, err := os.ReadFile("/usr/lib/go-1.23/src/strings/strings.go")
	if err != nil {
		t.Skip()
	}
	for _, kind := range []string{"expr", "stmts", "decl"} {
		ok := 0
		for i := 0; i < 100; i++ {
			g := NewG(rand.New(rand.NewSource(int64(i))))
			fr := g.CorpusFragment(kind, src)
			if fr == "" {
				continue
			}
			c := g.AbstractFrom(kind, fr)
			if c == nil {
				continue
			}
			ok++
			if i < 4 {
				fmt.Printf("--- corpus %s %d\n%s", kind, i, c.PatchText())
			}
		}
		fmt.Printf("corpus %s: %d/100 usable\n", kind, ok)
	}
}
