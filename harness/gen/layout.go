package gen

import (
	"fmt"
	"math/rand"
	"strings"
)

// Variant is one meaning-preserving re-layout of a patch.
type Variant struct {
	Text  string
	Word  string   // names of the transformations applied
	Descs []string // expected description lines of the (single) change, when known
}

// CloneChange deep-copies a change.
func CloneChange(c *Change) *Change {
	d := *c
	d.Meta = append([]MetaVar{}, c.Meta...)
	d.Lines = append([]Line{}, c.Lines...)
	d.Guards = append([]Line{}, c.Guards...)
	d.Comments = append([]string{}, c.Comments...)
	return &d
}

// RenameMetas consistently renames the metavariables of a change.
func RenameMetas(c *Change, r *rand.Rand) (*Change, bool) {
	if len(c.Meta) == 0 {
		return c, false
	}
	pool := []string{"dts", "d", "mvA", "mvB", "q1", "_m", "Zed", "ɸ"}
	text := c.PatchText()
	d := CloneChange(c)
	d.MetaText = ""
	used := map[string]bool{}
	mapping := map[string]string{}
	for i, m := range d.Meta {
		var nn string
		pre := ""
		if m.Name[0] == 'T' { // keep the generator's "type filler" convention
			pre = "T"
		}
		for try := 0; try < 20; try++ {
			nn = pool[r.Intn(len(pool))]
			if used[pre+nn] || strings.Contains(text, nn) {
				nn = ""
				continue
			}
			break
		}
		if nn == "" {
			nn = fmt.Sprintf("fresh%d", i)
		}
		nn = pre + nn
		used[nn] = true
		mapping[m.Name] = nn
		d.Meta[i].Name = nn
	}
	ren := func(t string) string {
		return metaRe.ReplaceAllStringFunc(t, func(m string) string {
			name := metaRe.FindStringSubmatch(m)[1]
			if nn, ok := mapping[name]; ok {
				return "«" + nn + "»"
			}
			return m
		})
	}
	for i := range d.Lines {
		d.Lines[i].Text = ren(d.Lines[i].Text)
	}
	for i := range d.Guards {
		d.Guards[i].Text = ren(d.Guards[i].Text)
	}
	return d, true
}

// RegroupMeta re-lays the metavariable declarations (grouping, order, ';' joins).
func RegroupMeta(c *Change, r *rand.Rand) (*Change, bool) {
	if len(c.Meta) < 1 {
		return c, false
	}
	d := CloneChange(c)
	ms := append([]MetaVar{}, c.Meta...)
	r.Shuffle(len(ms), func(i, j int) { ms[i], ms[j] = ms[j], ms[i] })
	var sb strings.Builder
	switch r.Intn(4) {
	case 0: // grouped by kind
		for _, k := range []string{"identifier", "expression"} {
			var names []string
			for _, m := range ms {
				if m.Kind == k {
					names = append(names, m.Name)
				}
			}
			if len(names) > 0 {
				fmt.Fprintf(&sb, "var %s %s\n", strings.Join(names, ", "), k)
			}
		}
	case 1: // one line, ';' joined
		var parts []string
		for _, m := range ms {
			parts = append(parts, fmt.Sprintf("var %s %s", m.Name, m.Kind))
		}
		sb.WriteString(strings.Join(parts, "; ") + "\n")
	case 2: // spaced out
		for _, m := range ms {
			fmt.Fprintf(&sb, "var   %s\t%s  \n\n", m.Name, m.Kind)
		}
	default:
		for _, m := range ms {
			fmt.Fprintf(&sb, "var %s %s\n", m.Name, m.Kind)
		}
	}
	d.MetaText = sb.String()
	return d, true
}

// Reindent adds the same extra indentation after the prefix column of every diff line.
func Reindent(c *Change, r *rand.Rand) (*Change, bool) {
	d := CloneChange(c)
	pad := strings.Repeat(" ", 1+r.Intn(4))
	if r.Intn(3) == 0 {
		pad = "\t"
	}
	for i := range d.Lines {
		if strings.Contains(d.Lines[i].Text, "`") {
			return c, false
		}
		d.Lines[i].Text = pad + d.Lines[i].Text
	}
	return d, true
}

// Respace pads the code of some lines with blanks at places where Go does not care (behind '(' and ',', around ':=',
// '=' and binary operators written with blanks): the columns at which the tokens behind them stand move, the code stays the
// same. A line that stands on both sides as a '-'/'+' pair of equal text gets the same padding on both.
func Respace(c *Change, r *rand.Rand) (*Change, bool) {
	d := CloneChange(c)
	changed := false
	memo := map[string]string{}
	for i := range d.Lines {
		t := d.Lines[i].Text
		if strings.ContainsAny(t, "`\"'") || strings.TrimSpace(t) == "" || r.Intn(2) == 0 {
			continue
		}
		if nt, ok := memo[t]; ok {
			d.Lines[i].Text = nt
			continue
		}
		pad := strings.Repeat(" ", 1+r.Intn(12))
		if r.Intn(5) == 0 {
			// far to the right: behind column 255, where a position no longer fits into a byte
			pad = strings.Repeat(" ", 250+r.Intn(90))
		}
		var nt string
		switch r.Intn(4) {
		case 0:
			if k := strings.Index(t, "("); k >= 0 {
				nt = t[:k+1] + pad + t[k+1:]
			}
		case 1:
			if k := strings.Index(t, " := "); k >= 0 {
				nt = t[:k+4] + pad + t[k+4:]
			} else if k := strings.Index(t, " = "); k >= 0 {
				nt = t[:k+3] + pad + t[k+3:]
			}
		case 2:
			if k := strings.LastIndex(t, ", "); k >= 0 {
				nt = t[:k+2] + pad + t[k+2:]
			}
		default:
			// in front of the first token of the line
			k := len(t) - len(strings.TrimLeft(t, " \t"))
			nt = t[:k] + pad + t[k:]
		}
		if nt == "" {
			continue
		}
		memo[t] = nt
		d.Lines[i].Text = nt
		changed = true
	}
	return d, changed
}

// ContextToPair rewrites elision-free context lines as identical '-'/'+' pairs (or back).
func ContextToPair(c *Change, r *rand.Rand) (*Change, bool) {
	d := CloneChange(c)
	var out []Line
	changed := false
	for i := 0; i < len(c.Lines); i++ {
		l := c.Lines[i]
		if l.Prefix == ' ' && !dotsRe.MatchString(l.Text) && strings.TrimSpace(l.Text) != "" && r.Intn(2) == 0 {
			out = append(out, Line{'-', l.Text}, Line{'+', l.Text})
			changed = true
			continue
		}
		if l.Prefix == '-' && i+1 < len(c.Lines) && c.Lines[i+1].Prefix == '+' && c.Lines[i+1].Text == l.Text && !dotsRe.MatchString(l.Text) {
			out = append(out, Line{' ', l.Text})
			i++
			changed = true
			continue
		}
		out = append(out, l)
	}
	d.Lines = out
	return d, changed
}

// BreakCalls re-wraps single-line `head(args)` lines of both sides over several lines.
func BreakCalls(c *Change, r *rand.Rand) (*Change, bool) {
	d := CloneChange(c)
	var out []Line
	changed := false
	for _, l := range c.Lines {
		t := l.Text
		i := strings.Index(t, "(")
		if i <= 0 || !isIdentByte(t[i-1]) || !strings.HasSuffix(t, ")") || closeOf(t, i) != len(t)-1 || strings.Contains(t, "`") || strings.TrimSpace(t[i+1:len(t)-1]) == "" {
			out = append(out, l)
			continue
		}
		args := splitTop(t[i+1 : len(t)-1])
		out = append(out, Line{l.Prefix, t[:i+1]})
		for _, a := range args {
			out = append(out, Line{l.Prefix, "  " + strings.TrimSpace(a) + ","})
		}
		out = append(out, Line{l.Prefix, ")"})
		changed = true
	}
	d.Lines = out
	return d, changed
}

// TextTransform applies layout transformations that work on any patch text: '#' lines,
// blank lines, naming the first change, dropping the final newline. It returns the new text
// and the transformation word. descsOf, when the patch has exactly one change, receives
// the comment lines that end up directly above the header.
func TextTransform(text string, r *rand.Rand, n int) (string, string, []string) {
	lines := strings.Split(strings.TrimSuffix(text, "\n"), "\n")
	var word []string
	for k := 0; k < n; k++ {
		switch r.Intn(8) {
		case 0: // '#' line at a random place that is not directly above a header
			pos := r.Intn(len(lines) + 1)
			if pos < len(lines) && strings.HasPrefix(lines[pos], "@") && isOpeningHeader(lines, pos) {
				continue
			}
			c := "# note " + fmt.Sprint(r.Intn(100))
			if r.Intn(3) == 0 {
				c = "   " + c
			}
			lines = append(lines[:pos], append([]string{c}, lines[pos:]...)...)
			word = append(word, "comment")
		case 1: // blank line before a header / at the start / at the end
			var cands []int
			for i, l := range lines {
				if strings.HasPrefix(l, "@") && isOpeningHeader(lines, i) {
					// keep existing descriptions attached: insert above the comment block
					j := i
					for j > 0 && strings.HasPrefix(strings.TrimSpace(lines[j-1]), "#") {
						j--
					}
					cands = append(cands, j)
				}
			}
			cands = append(cands, len(lines))
			pos := cands[r.Intn(len(cands))]
			lines = append(lines[:pos], append([]string{""}, lines[pos:]...)...)
			word = append(word, "blank")
		case 2: // blank line inside the metavariable section
			for i, l := range lines {
				if strings.HasPrefix(l, "@") && isOpeningHeader(lines, i) {
					lines = append(lines[:i+1], append([]string{""}, lines[i+1:]...)...)
					word = append(word, "blank-in-meta")
					break
				}
			}
		case 3: // name the first unnamed change
			for i, l := range lines {
				if l == "@@" && isOpeningHeader(lines, i) {
					lines[i] = fmt.Sprintf("@ change_%d @", r.Intn(100))
					word = append(word, "name")
					break
				}
			}
		case 4: // description-like comment separated from the header by a blank line
			for i, l := range lines {
				if strings.HasPrefix(l, "@") && isOpeningHeader(lines, i) && i > 0 {
					j := i
					for j > 0 && strings.HasPrefix(strings.TrimSpace(lines[j-1]), "#") {
						j--
					}
					if j > 0 {
						lines = append(lines[:j], append([]string{"# detached", ""}, lines[j:]...)...)
						word = append(word, "detached-comment")
					}
					break
				}
			}
		case 5: // comment inside the metavariable section
			for i, l := range lines {
				if strings.HasPrefix(l, "@") && isOpeningHeader(lines, i) {
					lines = append(lines[:i+1], append([]string{"# in meta"}, lines[i+1:]...)...)
					word = append(word, "comment-in-meta")
					break
				}
			}
		case 6: // blank line inside the diff of a change (preferably right behind an elision that stands on a line of its own)
			var body, afterDots []int
			inBody := false
			for i, l := range lines {
				if strings.HasPrefix(l, "@") {
					inBody = !isOpeningHeader(lines, i)
					continue
				}
				if strings.HasPrefix(strings.TrimSpace(l), "#") || !inBody || l == "" {
					continue
				}
				body = append(body, i)
				if len(l) > 1 && strings.TrimSpace(l[1:]) == "..." {
					afterDots = append(afterDots, i)
				}
			}
			cands := body
			if len(afterDots) > 0 && r.Intn(3) > 0 {
				cands = afterDots
			}
			if len(cands) == 0 {
				continue
			}
			pos := cands[r.Intn(len(cands))] + 1
			if inRawString(lines[:pos]) {
				continue
			}
			lines = append(lines[:pos], append([]string{""}, lines[pos:]...)...)
			word = append(word, "blank-in-diff")
		default:
			word = append(word, "id")
		}
	}
	out := strings.Join(lines, "\n") + "\n"
	if r.Intn(5) == 0 {
		out = strings.TrimSuffix(out, "\n")
		word = append(word, "no-final-newline")
	}
	// descriptions of the first change: comment lines directly above its header
	var descs []string
	for i, l := range lines {
		if strings.HasPrefix(l, "@") && isOpeningHeader(lines, i) {
			j := i
			for j > 0 && strings.HasPrefix(strings.TrimSpace(lines[j-1]), "#") {
				j--
			}
			for _, c := range lines[j:i] {
				descs = append(descs, strings.TrimSpace(strings.TrimPrefix(strings.TrimSpace(c), "#")))
			}
			break
		}
	}
	return out, strings.Join(word, "+"), descs
}

// isOpeningHeader reports whether the '@' line at index i opens a change (as opposed to the
// "@@" that closes a metavariable section).
func isOpeningHeader(lines []string, i int) bool {
	n := 0
	for j := 0; j < i; j++ {
		if strings.HasPrefix(lines[j], "@") {
			n++
		}
	}
	return n%2 == 0
}

func isIdentByte(b byte) bool {
	return b == '_' || b >= 'a' && b <= 'z' || b >= 'A' && b <= 'Z' || b >= '0' && b <= '9' || b >= 0x80
}

// inRawString reports whether the text ends inside a raw string literal (an odd number of back quotes).
func inRawString(lines []string) bool {
	n := 0
	for _, l := range lines {
		n += strings.Count(l, "`")
	}
	return n%2 == 1
}
