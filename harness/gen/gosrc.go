// Package gen holds the seeded workload generators: Go source files, patches, layouts,
// mutations and directory trees.
package gen

import (
	"fmt"
	"go/parser"
	"go/token"
	"math/rand"
	"strconv"
	"strings"
)

// G is a seeded grammar generator of Go source text.
type G struct {
	R       *rand.Rand
	NoParen bool     // never emit explicit parentheses around expressions
	Pattern bool     // pattern mode: avoid constructs the patch language cannot express ([...]T, f(g()...))
	Simple  bool     // restrict to primary expressions in filler positions
	Idents  []string // identifier pool
	Funcs   []string // callee pool
	cn      int      // comment counter
	Comment bool     // sprinkle comments
	// NoRelayoutComment: re-laid-out repeated fillers only get doubled blanks, never a trailing comment (for checks
	// that compare runs with each other and would see the known comment finding as a difference between layouts)
	NoRelayoutComment bool
	lbl               int
	fr                int
}

// NewG returns a generator with default pools.
func NewG(r *rand.Rand) *G {
	return &G{R: r,
		Idents: []string{"a", "b", "c", "d", "e", "v0", "v1", "v2", "err", "ctx"},
		Funcs:  []string{"f", "g", "h", "pkg.F", "o.m", "use", "other"},
	}
}

func (g *G) pick(xs []string) string { return xs[g.R.Intn(len(xs))] }

// fresh returns a name never declared before in this file.
func (g *G) fresh() string {
	g.fr++
	return "n" + strconv.Itoa(g.fr)
}

var binops = []string{"+", "-", "*", "/", "%", "==", "!=", "<", "<=", ">", ">=", "&&", "||", "&", "|", "^", "<<", ">>", "&^"}
var unops = []string{"-", "!", "&", "*", "^", "<-", "+"}

// Ident returns a random identifier.
func (g *G) Ident() string { return g.pick(g.Idents) }

// Lit returns a random basic literal.
func (g *G) Lit() string {
	switch g.R.Intn(9) {
	case 0:
		return strconv.Quote(g.pick([]string{"s", "hello", "a b", "%d", ""}))
	case 1:
		return "`raw\\n" + g.pick([]string{"x", "y z", ""}) + "`"
	case 2:
		return g.pick([]string{"'a'", "'\\n'", "'\\x00'", "'世'"})
	case 3:
		return g.pick([]string{"1.5", "2e3", "0.25", "1e-9"})
	case 4:
		return g.pick([]string{"0x1F", "0o17", "0b101", "017", "1_000"})
	case 5:
		return g.pick([]string{"2i", "1.5i"})
	default:
		return strconv.Itoa(g.R.Intn(10))
	}
}

// Atom returns a primary expression.
func (g *G) Atom() string {
	switch g.R.Intn(6) {
	case 0:
		return g.Lit()
	case 1:
		return g.Ident() + "." + g.pick([]string{"X", "Y", "Name"})
	case 2:
		return g.pick(g.Funcs) + "(" + g.Ident() + ")"
	case 3:
		return g.Ident() + "[" + strconv.Itoa(g.R.Intn(3)) + "]"
	default:
		return g.Ident()
	}
}

// Type returns a random type expression.
func (g *G) Type(d int) string {
	if d <= 0 || g.R.Intn(3) == 0 {
		return g.pick([]string{"int", "string", "error", "T", "pkg.T", "bool", "any", "byte"})
	}
	switch g.R.Intn(12) {
	case 0:
		return "*" + g.Type(d-1)
	case 1:
		return "[]" + g.Type(d-1)
	case 2:
		return "[" + strconv.Itoa(g.R.Intn(4)+1) + "]" + g.Type(d-1)
	case 3:
		return "map[" + g.pick([]string{"string", "int", "K"}) + "]" + g.Type(d-1)
	case 4:
		return "chan " + g.Type(d-1)
	case 5:
		return "<-chan " + g.Type(d-1)
	case 6:
		return "chan<- " + g.Type(d-1)
	case 7:
		return "func(" + g.Type(d-1) + ") " + g.Type(d-1)
	case 8:
		return "struct{ A " + g.Type(d-1) + "; B " + g.Type(d-1) + " `json:\"b\"` }"
	case 9:
		return "interface{ M(" + g.Type(d-1) + ") error }"
	case 10:
		if g.R.Intn(3) == 0 {
			return "Pair[" + g.Type(d-1) + ", " + g.Type(d-1) + "]" // IndexListExpr
		}
		return "G[" + g.Type(d-1) + "]"
	default:
		if g.Pattern {
			return "func(a, b " + g.Type(d-1) + ", rest ...int) (n int, err error)"
		}
		return "func(a, b " + g.Type(d-1) + ", rest ..." + g.Type(d-1) + ") (n int, err error)"
	}
}

// Expr returns a random expression of bounded depth. leaves, when non-empty, are extra
// leaf texts (used to inject metavariable placeholders in pattern mode).
func (g *G) Expr(d int, leaves []string) string {
	if d <= 0 || g.R.Intn(4) == 0 {
		if len(leaves) > 0 && g.R.Intn(2) == 0 {
			return g.pick(leaves)
		}
		if g.R.Intn(3) == 0 {
			return g.Lit()
		}
		return g.Ident()
	}
	if g.Simple {
		return g.Atom()
	}
	switch g.R.Intn(20) {
	case 0, 1, 2:
		n := g.R.Intn(4)
		var args []string
		for i := 0; i < n; i++ {
			args = append(args, g.Expr(d-1, leaves))
		}
		s := g.pick(g.Funcs) + "(" + strings.Join(args, ", ")
		if n > 0 && g.R.Intn(8) == 0 && isIdentText(args[n-1]) {
			s += "..."
		}
		return s + ")"
	case 3, 4, 5:
		return g.Expr(d-1, leaves) + " " + g.pick(binops) + " " + g.Expr(d-1, leaves)
	case 6:
		op := g.pick(unops)
		x := g.Expr(d-1, leaves)
		if strings.ContainsAny(x[:1], "-+&^*<!") {
			return op + " " + x
		}
		return op + x
	case 7:
		return g.Primary(d-1, leaves) + "." + g.pick([]string{"Sel0", "Sel1", "Field"})
	case 8:
		return g.Primary(d-1, leaves) + "[" + g.Expr(d-1, leaves) + "]"
	case 9:
		if g.NoParen {
			return g.Expr(d-1, leaves)
		}
		return "(" + g.Expr(d-1, leaves) + ")"
	case 10:
		n := g.R.Intn(3)
		var el []string
		keyed := g.R.Intn(2) == 0
		for i := 0; i < n; i++ {
			if keyed {
				el = append(el, "K"+strconv.Itoa(i)+": "+g.Expr(d-1, leaves))
			} else {
				el = append(el, g.Expr(d-1, leaves))
			}
		}
		tys := []string{"T", "pkg.T", "[]int", "map[string]T", "[...]T"}
		if g.Pattern {
			tys = tys[:4]
		}
		return g.pick(tys) + "{" + strings.Join(el, ", ") + "}"
	case 11:
		x := g.Primary(d-1, leaves)
		switch g.R.Intn(3) {
		case 0:
			return x + "[" + g.Expr(d-1, leaves) + ":]"
		case 1:
			return x + "[:" + g.Expr(d-1, leaves) + "]"
		default:
			return x + "[" + g.Atom() + ":" + g.Atom() + ":" + g.Atom() + "]"
		}
	case 12:
		return g.Primary(d-1, leaves) + ".(" + g.Type(1) + ")"
	case 13:
		return "func(" + g.Ident() + " " + g.Type(1) + ") " + g.Type(0) + " { return " + g.Expr(d-1, leaves) + " }"
	case 14:
		if g.R.Intn(3) == 0 {
			return "mk[" + g.Type(1) + ", " + g.Type(0) + "](" + g.Expr(d-1, leaves) + ")" // IndexListExpr as callee
		}
		return "G[" + g.Type(1) + "](" + g.Expr(d-1, leaves) + ")"
	case 15:
		// go/printer writes a conversion to a function type or to a receive-only channel type with parentheses around
		// the type: code without them is not what any formatted file contains, and it changes its tree (a ParenExpr
		// appears) as soon as it has been printed once
		t := g.Type(1 + g.R.Intn(2))
		if strings.HasPrefix(t, "func") || strings.HasPrefix(t, "<-") {
			t = "(" + t + ")"
		}
		return t + "(" + g.Expr(d-1, leaves) + ")"
	case 16:
		return "func() { " + g.pick(g.Funcs) + "(" + g.Expr(d-1, leaves) + ") }"
	default:
		if len(leaves) > 0 {
			return g.pick(leaves)
		}
		return g.Atom()
	}
}

func isIdentText(s string) bool {
	if s == "" || strings.Contains(s, "«") {
		return false
	}
	for i, r := range s {
		if !(r == '_' || r >= 'a' && r <= 'z' || r >= 'A' && r <= 'Z' || (i > 0 && r >= '0' && r <= '9')) {
			return false
		}
	}
	return true
}

// Primary returns an expression that can take a postfix operator (selector, index, ...)
// without changing how it parses.
func (g *G) Primary(d int, leaves []string) string {
	switch g.R.Intn(8) {
	case 0:
		if len(leaves) > 0 {
			return g.pick(leaves)
		}
		return g.Ident()
	case 1:
		return g.pick(g.Funcs) + "(" + g.Expr(d-1, leaves) + ")"
	case 2:
		return g.Ident() + "." + g.pick([]string{"X", "Y"})
	case 3:
		if !g.NoParen && d > 0 {
			return "(" + g.Expr(d-1, leaves) + ")"
		}
		return g.Ident()
	case 4:
		return g.Ident() + "[" + g.Expr(d-1, leaves) + "]"
	default:
		if len(leaves) > 0 && g.R.Intn(2) == 0 {
			return g.pick(leaves)
		}
		return g.Ident()
	}
}

func (g *G) cm() string {
	g.cn++
	return fmt.Sprintf("// c%d", g.cn)
}

func (g *G) bcm() string {
	g.cn++
	return fmt.Sprintf("/* c%d */", g.cn)
}

func (g *G) maybeTail() string {
	if g.Comment && g.R.Intn(4) == 0 {
		return " " + g.cm()
	}
	return ""
}

// Stmt returns one random statement (possibly several lines), indented.
func (g *G) Stmt(d int, ind string) string {
	var sb strings.Builder
	if g.Comment && g.R.Intn(6) == 0 {
		sb.WriteString(ind + g.cm() + "\n")
	}
	e := func() string { return g.Expr(2, nil) }
	blk := func() string {
		if d <= 0 {
			return ind + "\t" + g.pick(g.Funcs) + "(" + g.Atom() + ")\n"
		}
		return g.Stmts(d-1, ind+"\t", 1+g.R.Intn(3))
	}
	switch g.R.Intn(30) {
	case 0, 1, 2, 3:
		fmt.Fprintf(&sb, "%s%s(%s)%s\n", ind, g.pick(g.Funcs), e(), g.maybeTail())
	case 4, 5:
		fmt.Fprintf(&sb, "%s%s := %s%s\n", ind, g.fresh(), e(), g.maybeTail())
	case 6:
		fmt.Fprintf(&sb, "%s%s, %s = %s, %s\n", ind, g.Ident(), g.Ident(), e(), e())
	case 7:
		fmt.Fprintf(&sb, "%s%s %s= %s\n", ind, g.Ident(), g.pick([]string{"+", "-", "*", "|", "<<", "&^"}), e())
	case 8:
		fmt.Fprintf(&sb, "%s%s%s\n", ind, g.Ident(), g.pick([]string{"++", "--"}))
	case 9:
		fmt.Fprintf(&sb, "%sch <- %s\n", ind, e())
	case 10:
		fmt.Fprintf(&sb, "%sgo %s(%s)\n", ind, g.pick(g.Funcs), e())
	case 11:
		fmt.Fprintf(&sb, "%sdefer %s(%s)\n", ind, g.pick(g.Funcs), e())
	case 12:
		fmt.Fprintf(&sb, "%sif %s {%s\n%s%s}\n", ind, g.cond(), g.maybeTail(), blk(), ind)
	case 13:
		fmt.Fprintf(&sb, "%sif %s := %s; %s != nil {\n%s%s} else if %s {\n%s%s} else {\n%s%s}\n", ind, g.Ident(), g.Atom(), g.Ident(), blk(), ind, g.cond(), blk(), ind, blk(), ind)
	case 14:
		hdr := g.pick([]string{"i := 0; i < n; i++", "_, v := range vs", "", "cond()", "range ch", "k := range m", "k, v = range m", "; i < 3;", "i := range 10"})
		fmt.Fprintf(&sb, "%sfor %s {\n%s%s}\n", ind, hdr, blk(), ind)
	case 15:
		fmt.Fprintf(&sb, "%sswitch %s {\n%scase %s, %s:\n%s%scase %s:\n%s\tfallthrough\n%sdefault:\n%s%s}\n", ind, g.pick([]string{"k", "x := f(); x", ""}), ind, g.Atom(), g.Atom(), blk(), ind, g.Atom(), ind, ind, blk(), ind)
	case 16:
		fmt.Fprintf(&sb, "%sswitch t := v.(type) {\n%scase int, string:\n%s\tuse(t)\n%scase nil:\n%sdefault:\n%s%s}\n", ind, ind, ind, ind, ind, blk(), ind)
	case 17:
		fmt.Fprintf(&sb, "%sselect {\n%scase v := <-ch:\n%s\tuse(v)\n%s%scase ch2 <- %s:\n%sdefault:\n%s%s}\n", ind, ind, ind, blk(), ind, g.Atom(), ind, blk(), ind)
	case 18:
		g.lbl++
		l := fmt.Sprintf("L%d", g.lbl)
		fmt.Fprintf(&sb, "%s%s:\n%sfor {\n%s\tif %s {\n%s\t\tbreak %s\n%s\t}\n%s\tcontinue %s\n%s}\n", strings.TrimSuffix(ind, "\t"), l, ind, ind, g.cond(), ind, l, ind, ind, l, ind)
	case 19:
		fmt.Fprintf(&sb, "%sfor {\n%s\tif %s {\n%s\t\tbreak\n%s\t}\n%s\tcontinue\n%s}\n", ind, ind, g.cond(), ind, ind, ind, ind)
	case 20:
		fmt.Fprintf(&sb, "%s{\n%s%s}\n", ind, blk(), ind)
	case 21:
		fmt.Fprintf(&sb, "%svar %s %s = %s\n", ind, g.fresh(), g.Type(1), e())
	case 22:
		fmt.Fprintf(&sb, "%sconst %s = %s\n", ind, g.fresh(), g.Lit())
	case 23:
		fmt.Fprintf(&sb, "%stype %s %s\n", ind, g.fresh(), g.Type(1))
	case 24:
		fmt.Fprintf(&sb, "%sgo func() {\n%s%s}()\n", ind, blk(), ind)
	case 25:
		fmt.Fprintf(&sb, "%sdefer func() {\n%s%s}()\n", ind, blk(), ind)
	case 26:
		fmt.Fprintf(&sb, "%s%s = func(%s %s) error {\n%s%s\treturn nil\n%s}\n", ind, g.Ident(), g.Ident(), g.Type(1), blk(), ind, ind)
	case 27:
		fmt.Fprintf(&sb, "%s_ = %s\n", ind, g.Expr(3, nil))
	default:
		fmt.Fprintf(&sb, "%s%s = %s%s\n", ind, g.Ident(), e(), g.maybeTail())
	}
	return sb.String()
}

func (g *G) cond() string {
	switch g.R.Intn(4) {
	case 0:
		return g.Atom() + " != nil"
	case 1:
		return g.Ident() + " " + g.pick([]string{"<", "==", ">="}) + " " + g.Atom()
	case 2:
		return "!" + g.pick(g.Funcs) + "(" + g.Atom() + ")"
	default:
		return g.Ident() + " && " + g.Ident()
	}
}

// Stmts returns n random statements.
func (g *G) Stmts(d int, ind string, n int) string {
	var sb strings.Builder
	for i := 0; i < n; i++ {
		sb.WriteString(g.Stmt(d, ind))
	}
	return sb.String()
}

// Decl returns a random top-level declaration (no trailing blank line).
func (g *G) Decl(i int) string {
	var sb strings.Builder
	if g.Comment && g.R.Intn(3) == 0 {
		sb.WriteString(g.cm() + "\n\n")
	}
	if g.Comment && g.R.Intn(2) == 0 {
		sb.WriteString(g.cm() + "\n")
	}
	switch g.R.Intn(12) {
	case 0:
		fmt.Fprintf(&sb, "var gv%d = %s%s\n", i, g.Expr(2, nil), g.maybeTail())
	case 1:
		fmt.Fprintf(&sb, "var (\n\tga%d %s\n\tgb%d, gc%d = %s, %s%s\n)\n", i, g.Type(2), i, i, g.Atom(), g.Atom(), g.maybeTail())
	case 2:
		fmt.Fprintf(&sb, "const (\n\tKa%d = iota\n\tKb%d\n\tKc%d = %s\n)\n", i, i, i, g.Lit())
	case 3:
		fmt.Fprintf(&sb, "type S%d struct {\n\tA %s%s\n\tB, C %s `json:\"b\"`\n\tpkg.Embedded\n\t*T\n}\n", i, g.Type(2), g.maybeTail(), g.Type(1))
	case 4:
		fmt.Fprintf(&sb, "type I%d interface {\n\tM1(a %s) error\n\tM2() (int, %s)\n\tfmt.Stringer\n}\n", i, g.Type(1), g.Type(1))
	case 5:
		fmt.Fprintf(&sb, "type A%d = %s\n", i, g.Type(2))
	case 6:
		fmt.Fprintf(&sb, "type N%d[K comparable, V any] struct {\n\tm map[K]V\n}\n", i)
	case 7:
		fmt.Fprintf(&sb, "func (r *S%d) Method%d(a int, b ...string) (n int, err error) {\n%s\treturn %s, nil\n}\n", i, i, g.Stmts(2, "\t", 1+g.R.Intn(4)), g.Atom())
	case 8:
		fmt.Fprintf(&sb, "func Gen%d[T any, U ~int | ~string](x T, y U) T {\n%s\treturn x\n}\n", i, g.Stmts(2, "\t", 1+g.R.Intn(3)))
	case 9:
		fmt.Fprintf(&sb, "//go:generate stringer -type=X%d\ntype X%d int\n", i, i)
	default:
		fmt.Fprintf(&sb, "func fn%d(%s %s) %s {\n%s\treturn %s\n}\n", i, g.Ident(), g.Type(1), g.pick([]string{"int", "error", "(int, error)"}[:2]), g.Stmts(2, "\t", 1+g.R.Intn(5)), g.Atom())
	}
	return sb.String()
}

// FileOpts controls File.
type FileOpts struct {
	Pkg     string
	Imports string // verbatim import block(s), may be empty
	Header  string // verbatim text before the package clause
	Decls   int
	Plants  []Plant
}

// Plant is a fragment to be inserted into a generated file.
type Plant struct {
	Kind string // "expr", "stmts", "decl"
	Text string
}

var exprHosts = []string{
	"\t_ = %s\n",
	"\tif vv := %s; vv != nil {\n\t\tuse(vv)\n\t}\n",
	"\tgo func() { use(%s) }()\n",
	"\treturn %s\n",
	"\tuse(a, %s, b)\n",
	"\tuse([]any{%s})\n",
	"\tm[%s] = 1\n",
	"\tfor i := 0; i < 3; i++ {\n\t\tswitch {\n\t\tcase ok:\n\t\t\tuse(%s)\n\t\t}\n\t}\n",
	"\tselect {\n\tcase ch <- %s:\n\tdefault:\n\t}\n",
	"\tdefer func() {\n\t\tif r := recover(); r != nil {\n\t\t\tlog(r, %s)\n\t\t}\n\t}()\n",
	"\t_ = [1]any{%s}\n",
	"\tuse(T{Field: %s})\n",
	"\tuse(wrap(wrap(%s)))\n",
	"\tuse(-%s)\n",
	"\tuse(%s, %s)\n",
	"\tuse(%s.Other())\n",
	"\tuse(%s.Field.Sub, 1)\n",
	"\t_ = %s[0]\n",
	"\tuse(%s + 1)\n",
	"\t%s.Run(2).Done()\n",
	"\tuse(%s.Get(2).String())\n",
}

// postfixHost reports whether the host applies a postfix operator to the planted text.
func postfixHost(h string) bool {
	i := strings.Index(h, "%s")
	return i >= 0 && i+2 < len(h) && (h[i+2] == '.' || h[i+2] == '[')
}

// primaryLooking reports whether text can take a postfix operator as it stands.
func primaryLooking(text string) bool {
	if text == "" || !(text[0] == '_' || text[0] >= 'a' && text[0] <= 'z' || text[0] >= 'A' && text[0] <= 'Z') {
		return false
	}
	depth := 0
	for i := 0; i < len(text); i++ {
		switch text[i] {
		case '(', '[', '{':
			depth++
		case ')', ']', '}':
			depth--
		case ' ', '+', '-', '*', '/', '<', '>', '=', '!', '&', '|', '^', '%', ',', '"', '`', '\'':
			if depth == 0 {
				return false
			}
		}
	}
	return depth == 0
}

// File generates a parseable file with the plants inserted. It panics if it cannot produce
// a parseable file in 20 attempts (a generator bug).
func (g *G) File(o FileOpts) string {
	for attempt := 0; attempt < 20; attempt++ {
		s := g.file(o)
		fs := token.NewFileSet()
		if _, err := parser.ParseFile(fs, "gen.go", s, parser.AllErrors|parser.ParseComments); err == nil {
			return s
		} else if attempt == 19 {
			panic("gosrc: cannot generate parseable file: " + err.Error() + "\n" + s)
		}
	}
	return ""
}

func (g *G) file(o FileOpts) string {
	var sb strings.Builder
	sb.WriteString(o.Header)
	pkg := o.Pkg
	if pkg == "" {
		pkg = "p"
	}
	sb.WriteString("package " + pkg + "\n\n")
	if o.Imports != "" {
		sb.WriteString(o.Imports + "\n")
	}
	nd := o.Decls
	if nd == 0 {
		nd = 1 + g.R.Intn(4)
	}
	// distribute plants over host functions
	type host struct{ parts []string }
	var chunks []string
	for i := 0; i < nd; i++ {
		chunks = append(chunks, g.Decl(i))
	}
	var stmtPlants, declPlants []string
	for _, p := range o.Plants {
		switch p.Kind {
		case "expr":
			h := g.pick(exprHosts)
			if postfixHost(h) && !primaryLooking(p.Text) {
				if g.NoParen {
					h = exprHosts[0]
				} else {
					p.Text = "(" + p.Text + ")"
				}
			}
			n := strings.Count(h, "%s")
			args := make([]any, n)
			for i := range args {
				args[i] = p.Text
				if i > 0 {
					args[i] = g.Atom()
				}
			}
			stmtPlants = append(stmtPlants, fmt.Sprintf(h, args...))
		case "stmts":
			stmtPlants = append(stmtPlants, indent(p.Text, "\t"))
		case "decl":
			declPlants = append(declPlants, p.Text)
		}
	}
	// host functions for statement-level plants
	for len(stmtPlants) > 0 {
		k := 1 + g.R.Intn(3)
		if k > len(stmtPlants) {
			k = len(stmtPlants)
		}
		var body strings.Builder
		for _, pl := range stmtPlants[:k] {
			body.WriteString(g.Stmts(1, "\t", g.R.Intn(3)))
			body.WriteString(g.nest(pl))
		}
		body.WriteString(g.Stmts(1, "\t", g.R.Intn(2)))
		stmtPlants = stmtPlants[k:]
		name := fmt.Sprintf("host%d", len(chunks))
		var fn string
		switch g.R.Intn(4) {
		case 0:
			fn = fmt.Sprintf("func (r *R) %s() (int, error) {\n%s\treturn 0, nil\n}\n", name, body.String())
		case 1:
			fn = fmt.Sprintf("func %s[T any](t T) (int, error) {\n%s\treturn 0, nil\n}\n", name, body.String())
		case 2:
			fn = fmt.Sprintf("var %s = func() (int, error) {\n%s\treturn 0, nil\n}\n", name, body.String())
		default:
			fn = fmt.Sprintf("func %s() (int, error) {\n%s\treturn 0, nil\n}\n", name, body.String())
		}
		pos := g.R.Intn(len(chunks) + 1)
		chunks = append(chunks[:pos], append([]string{fn}, chunks[pos:]...)...)
	}
	seenNames := map[string]bool{}
	for _, d := range declPlants {
		f := strings.Fields(d)
		local := false
		if len(f) >= 2 && f[0] != "func" && f[1] != "(" {
			name := strings.TrimRight(f[1], "[=")
			if seenNames[name] {
				local = true
			}
			seenNames[name] = true
		}
		if local {
			d = fmt.Sprintf("func host%s() {\n%s}", g.fresh(), g.nest(indent(d, "\t")))
		}
		pos := g.R.Intn(len(chunks) + 1)
		chunks = append(chunks[:pos], append([]string{d + "\n"}, chunks[pos:]...)...)
	}
	sb.WriteString(strings.Join(chunks, "\n"))
	if g.Comment && g.R.Intn(3) == 0 {
		sb.WriteString("\n" + g.cm() + "\n")
	}
	return sb.String()
}

// nest wraps a statement-level fragment (indented by one tab) in 0-3 random enclosing
// constructs.
func (g *G) nest(frag string) string {
	n := g.R.Intn(4)
	for i := 0; i < n; i++ {
		inner := indent(frag, "\t")
		switch g.R.Intn(8) {
		case 0:
			frag = "\tif " + g.cond() + " {\n" + inner + "\t}\n"
		case 1:
			frag = "\tfor _, it := range items {\n" + inner + "\t}\n"
		case 2:
			frag = "\tswitch k {\n\tcase 1:\n" + inner + "\tdefault:\n\t\tother()\n\t}\n"
		case 3:
			frag = "\tselect {\n\tcase <-done:\n" + inner + "\t}\n"
		case 4:
			frag = "\tgo func() {\n" + inner + "\t}()\n"
		case 5:
			frag = "\tif " + g.cond() + " {\n\t\tother()\n\t} else {\n" + inner + "\t}\n"
		case 6:
			fn := g.fresh()
			frag = "\t" + fn + " := func(q int) {\n" + inner + "\t}\n\t" + fn + "(1)\n"
		default:
			frag = "\tfor {\n" + inner + "\t}\n"
		}
	}
	return frag
}

func indent(s, ind string) string {
	lines := strings.Split(strings.TrimRight(s, "\n"), "\n")
	for i, l := range lines {
		if l != "" {
			lines[i] = ind + l
		}
	}
	return strings.Join(lines, "\n") + "\n"
}

// Parses reports whether src is a parseable Go file.
func Parses(src string) bool {
	fs := token.NewFileSet()
	_, err := parser.ParseFile(fs, "x.go", src, parser.AllErrors|parser.ParseComments)
	return err == nil
}
