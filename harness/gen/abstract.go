package gen

import (
	"fmt"
	"go/ast"
	"go/format"
	"go/parser"
	"go/token"
	"reflect"
	"regexp"
	"sort"
	"strings"

	"verif/harness/ref"
)

// Patterns abstracted from code. A random fragment of generated Go code (an expression, one to
// three statements, or a declaration) becomes the '-' pattern by replacing some of its
// sub-expressions / identifiers with metavariables and, optionally, a run of list elements with
// an elision; the '+' side is the same fragment with one value expression edited. Unlike the
// hand-written schemas this reaches every node kind and field the file generator can produce,
// on both the matcher and the replacer side.

var (
	exprIface   = reflect.TypeOf((*ast.Expr)(nil)).Elem()
	stmtIface   = reflect.TypeOf((*ast.Stmt)(nil)).Elem()
	identPtr    = reflect.TypeOf((*ast.Ident)(nil))
	nodeIface   = reflect.TypeOf((*ast.Node)(nil)).Elem()
	absMetaRe   = regexp.MustCompile(`ɵ([MTI]\d+)\b`)
	absDotsRe   = regexp.MustCompile(ref.DotsPrefix + `(\d+)\b`)
	startsDecl  = regexp.MustCompile(`^\s*(var|const|type|func|import|package)\b`)
	hasEllipsis = regexp.MustCompile(`\.\.\.`)
)

// cand is a node of the fragment that may be abstracted or edited.
type cand struct {
	node     ast.Node
	pos, end int  // byte offsets in the working text
	slotExpr bool // static slot type is ast.Expr (otherwise *ast.Ident)
	value    bool // reached through value-expression fields only (a call may stand here)
	typ      bool // sits in a type position
	callOnly bool // ExprStmt.X: only a call may stand here
	hasDots  bool
	text     string
}

type absWalker struct {
	base  int
	src   string
	cands []cand
}

// field classification: fields whose value is in a type position.
var typeFields = map[string]bool{
	"Field.Type": true, "ValueSpec.Type": true, "TypeSpec.Type": true, "CompositeLit.Type": true,
	"ArrayType.Elt": true, "ArrayType.Len": true, "MapType.Key": true, "MapType.Value": true, "ChanType.Value": true,
	"TypeAssertExpr.Type": true, "Ellipsis.Elt": true,
}

// fields through which a value context continues.
var valueFields = map[string]bool{
	"CallExpr.Args": true, "CallExpr.Fun": true, "BinaryExpr.X": true, "BinaryExpr.Y": true, "UnaryExpr.X": true, "ParenExpr.X": true,
	"KeyValueExpr.Value": true, "CompositeLit.Elts": true, "IndexExpr.X": true, "IndexExpr.Index": true,
	"SliceExpr.X": true, "SliceExpr.Low": true, "SliceExpr.High": true, "SliceExpr.Max": true,
	"AssignStmt.Rhs": true, "ReturnStmt.Results": true, "SendStmt.Value": true, "SendStmt.Chan": true, "IfStmt.Cond": true, "ForStmt.Cond": true,
	"SwitchStmt.Tag": true, "RangeStmt.X": true, "ValueSpec.Values": true, "StarExpr.X": true, "SelectorExpr.X": true, "TypeAssertExpr.X": true,
	"ExprStmt.X": true,
}

func (w *absWalker) off(p token.Pos) int { return int(p) - w.base }

func (w *absWalker) add(n ast.Node, slotExpr, value, typ, callOnly bool) {
	if n == nil || reflect.ValueOf(n).IsNil() {
		return
	}
	p, e := w.off(n.Pos()), w.off(n.End())
	if p < 0 || e > len(w.src) || p >= e {
		return
	}
	t := w.src[p:e]
	w.cands = append(w.cands, cand{node: n, pos: p, end: e, slotExpr: slotExpr, value: value, typ: typ, callOnly: callOnly,
		hasDots: strings.Contains(t, ref.DotsPrefix), text: t})
}

// walk visits every struct field reflectively, recording expression and identifier slots.
func (w *absWalker) walk(v reflect.Value, value, typ bool) {
	switch v.Kind() {
	case reflect.Ptr, reflect.Interface:
		if v.IsNil() {
			return
		}
		w.walk(v.Elem(), value, typ)
	case reflect.Struct:
		tn := v.Type().Name()
		for i := 0; i < v.NumField(); i++ {
			f := v.Type().Field(i)
			fv := v.Field(i)
			key := tn + "." + f.Name
			switch f.Name {
			case "Obj", "Scope", "Doc", "Comment", "Comments", "Unresolved", "Tag":
				continue
			}
			fval := value && valueFields[key]
			ftyp := typ || typeFields[key]
			if tn == "CaseClause" || tn == "TypeSwitchStmt" || tn == "LabeledStmt" || tn == "BranchStmt" {
				// case lists (type or value unknown), labels: matched literally only
				if f.Name == "List" && tn == "CaseClause" || f.Name == "Label" {
					continue
				}
			}
			if tn == "KeyValueExpr" && f.Name == "Key" {
				// field name or value: abstracting a struct key needs an identifier metavariable, a map key an expression one
				fval, ftyp = false, false
			}
			co := key == "ExprStmt.X"
			switch {
			case f.Type == exprIface:
				if !fv.IsNil() {
					w.add(fv.Interface().(ast.Node), true, fval, ftyp, co)
					w.walk(fv, fval, ftyp)
				}
			case f.Type == identPtr:
				if !fv.IsNil() {
					w.add(fv.Interface().(ast.Node), false, false, false, false)
				}
			case f.Type.Kind() == reflect.Slice && f.Type.Elem() == exprIface:
				for j := 0; j < fv.Len(); j++ {
					w.add(fv.Index(j).Interface().(ast.Node), true, fval, ftyp, false)
					w.walk(fv.Index(j), fval, ftyp)
				}
			case f.Type.Kind() == reflect.Slice && f.Type.Elem() == identPtr:
				for j := 0; j < fv.Len(); j++ {
					w.add(fv.Index(j).Interface().(ast.Node), false, false, false, false)
				}
			case f.Type.Kind() == reflect.Slice:
				for j := 0; j < fv.Len(); j++ {
					w.walk(fv.Index(j), tn == "BlockStmt" || tn == "CaseClause" || tn == "CommClause" || fval, ftyp)
				}
			case f.Type.Kind() == reflect.Ptr || f.Type.Kind() == reflect.Interface:
				// statements, blocks, specs, field lists: a fresh value context starts at statements
				nv := fval
				if f.Type == stmtIface || f.Type.Kind() == reflect.Ptr && f.Type.Elem().Kind() == reflect.Struct {
					nv = true
				}
				w.walk(fv, nv, ftyp)
			}
		}
	}
}

// parseFragment parses the working text of a fragment and returns its root(s) as reflect values
// together with the byte offset of the fragment inside the parsed file.
func parseFragment(kind, text string) (roots []reflect.Value, base int, fs *token.FileSet, err error) {
	fs = token.NewFileSet()
	var prefix string
	switch kind {
	case "expr":
		prefix = "package p\nvar _ = "
	case "stmts":
		prefix = "package p\nfunc _() {\n"
	default:
		prefix = "package p\n"
	}
	suffix := "\n"
	if kind == "stmts" {
		suffix = "\n}\n"
	}
	f, err := parser.ParseFile(fs, "frag.go", prefix+text+suffix, parser.SkipObjectResolution)
	if err != nil {
		return nil, 0, nil, err
	}
	base = fs.File(f.Pos()).Base() + len(prefix)
	switch kind {
	case "expr":
		roots = append(roots, reflect.ValueOf(f.Decls[0].(*ast.GenDecl).Specs[0].(*ast.ValueSpec).Values[0]))
	case "stmts":
		for _, s := range f.Decls[0].(*ast.FuncDecl).Body.List {
			roots = append(roots, reflect.ValueOf(s))
		}
	default:
		if len(f.Decls) != 1 {
			return nil, 0, nil, fmt.Errorf("want one declaration")
		}
		roots = append(roots, reflect.ValueOf(f.Decls[0]))
	}
	return roots, base, fs, nil
}

func gofmtFragment(kind, text string) (string, bool) {
	var prefix, suffix string
	switch kind {
	case "expr":
		return text, true
	case "stmts":
		prefix, suffix = "package p\n\nfunc _() {\n", "\n}\n"
	default:
		prefix, suffix = "package p\n\n", "\n"
	}
	b, err := format.Source([]byte(prefix + text + suffix))
	if err != nil {
		return "", false
	}
	s := string(b)
	s = strings.TrimPrefix(s, prefix)
	s = strings.TrimSuffix(s, suffix)
	if kind == "stmts" {
		// drop one level of indentation
		ls := strings.Split(s, "\n")
		for i, l := range ls {
			ls[i] = strings.TrimPrefix(l, "\t")
		}
		s = strings.Join(ls, "\n")
	}
	return strings.TrimRight(s, "\n"), true
}

type listSite struct {
	ctx        string
	elems      [][2]int // spans of the elements
	open, clos int      // offsets just after the opening and at the closing delimiter
	line       bool     // elements are separated by newlines (statements)
}

// listSites finds the lists of the fragment in which an elision may stand.
func listSites(roots []reflect.Value, base int, src string) []listSite {
	var out []listSite
	span := func(n ast.Node) [2]int { return [2]int{int(n.Pos()) - base, int(n.End()) - base} }
	for _, r := range roots {
		n, ok := r.Interface().(ast.Node)
		if !ok {
			continue
		}
		ast.Inspect(n, func(x ast.Node) bool {
			switch x := x.(type) {
			case *ast.CallExpr:
				if x.Ellipsis.IsValid() {
					return true
				}
				ls := listSite{ctx: "args", open: int(x.Lparen) - base + 1, clos: int(x.Rparen) - base}
				for _, a := range x.Args {
					ls.elems = append(ls.elems, span(a))
				}
				out = append(out, ls)
			case *ast.CompositeLit:
				ls := listSite{ctx: "elts", open: int(x.Lbrace) - base + 1, clos: int(x.Rbrace) - base}
				for _, a := range x.Elts {
					ls.elems = append(ls.elems, span(a))
				}
				if strings.Contains(src[ls.open:ls.clos], "\n") {
					return true // multi-line literal: keep the text surgery simple
				}
				out = append(out, ls)
			case *ast.ReturnStmt:
				if len(x.Results) == 0 {
					return true
				}
				ls := listSite{ctx: "rets", open: int(x.Results[0].Pos()) - base, clos: int(x.Results[len(x.Results)-1].End()) - base}
				for _, a := range x.Results {
					ls.elems = append(ls.elems, span(a))
				}
				out = append(out, ls)
			case *ast.BlockStmt:
				if len(x.List) == 0 {
					return true
				}
				ls := listSite{ctx: "stmts", line: true, open: int(x.Lbrace) - base + 1, clos: int(x.Rbrace) - base}
				for _, a := range x.List {
					ls.elems = append(ls.elems, span(a))
				}
				out = append(out, ls)
			}
			return true
		})
	}
	return out
}

// elide replaces elements [i,j) of the list with an elision placeholder and returns the new text.
func elide(src string, ls listSite, i, j int, id int) (string, bool) {
	ph := fmt.Sprintf("%s%d", ref.DotsPrefix, id)
	n := len(ls.elems)
	if ls.line {
		// statement lists: the elision is a line of its own
		for _, e := range ls.elems {
			// every element must start its own line
			k := e[0] - 1
			for k >= 0 && (src[k] == ' ' || src[k] == '\t') {
				k--
			}
			if k >= 0 && src[k] != '\n' {
				return "", false
			}
		}
		if i < j {
			return src[:ls.elems[i][0]] + ph + src[ls.elems[j-1][1]:], true
		}
		if i < n {
			return src[:ls.elems[i][0]] + ph + "\n" + src[ls.elems[i][0]:], true
		}
		return src[:ls.elems[n-1][1]] + "\n" + ph + src[ls.elems[n-1][1]:], true
	}
	switch {
	case i < j:
		return src[:ls.elems[i][0]] + ph + src[ls.elems[j-1][1]:], true
	case n == 0:
		if ls.ctx == "rets" {
			return "", false
		}
		return src[:ls.open] + ph + src[ls.clos:], true
	case i < n:
		return src[:ls.elems[i][0]] + ph + ", " + src[ls.elems[i][0]:], true
	default:
		return src[:ls.elems[n-1][1]] + ", " + ph + src[ls.elems[n-1][1]:], true
	}
}

// AbstractChange builds a change by abstracting a generated code fragment. It returns nil when
// the attempt did not produce a usable pattern (callers retry).
func (g *G) AbstractChange(kind string) *Change {
	for attempt := 0; attempt < 30; attempt++ {
		if c := g.abstractOnce(kind); c != nil {
			return c
		}
	}
	return nil
}

func (g *G) abstractOnce(kind string) *Change {
	return g.AbstractFrom(kind, "")
}

// AbstractFrom abstracts the given code fragment (or, when given is empty, a generated one)
// into a change. It returns nil when the fragment is not usable.
func (g *G) AbstractFrom(kind, given string) *Change {
	g.Pattern = true
	saveC := g.Comment
	g.Comment = false
	var text string
	switch {
	case given != "":
		text = given
	case kind == "expr":
		text = g.Expr(3, nil)
	case kind == "stmts":
		n := 1 + g.R.Intn(3)
		var parts []string
		for i := 0; i < n; i++ {
			parts = append(parts, strings.TrimRight(g.Stmt(2, ""), "\n"))
		}
		text = strings.Join(parts, "\n")
	default:
		text = strings.TrimRight(g.Decl(g.R.Intn(50)), "\n")
	}
	g.Pattern = false
	g.Comment = saveC
	if strings.Contains(text, "//") || strings.Contains(text, "/*") || strings.Contains(text, "`") {
		return nil
	}
	text, ok := gofmtFragment(kind, text)
	if !ok || len(text) < 6 {
		return nil
	}
	if hasEllipsis.MatchString(text) {
		return nil // variadic parameters, spreads and [...]T collide with the elision syntax in unforeseen ways: left to the schemas
	}
	switch kind {
	case "expr":
		if strings.HasPrefix(text, "func") || strings.HasPrefix(text, "(") {
			return nil
		}
	case "stmts":
		if startsDecl.MatchString(text) {
			return nil
		}
	}
	roots, base, _, err := parseFragment(kind, text)
	if err != nil {
		return nil
	}
	if kind == "expr" {
		switch roots[0].Interface().(type) {
		case *ast.Ident, *ast.BasicLit, *ast.FuncLit, *ast.ParenExpr:
			return nil
		}
	}
	if kind == "stmts" && len(roots) == 1 {
		if _, ok := roots[0].Interface().(*ast.ExprStmt); ok {
			return nil // a single expression statement is an expression pattern
		}
	}
	if kind == "stmts" {
		if _, ok := roots[0].Interface().(*ast.BlockStmt); ok {
			return nil // pgo grammar: a leading '{' brackets the whole statement list
		}
	}
	for _, r := range roots {
		bad := false
		ast.Inspect(r.Interface().(ast.Node), func(x ast.Node) bool {
			switch x.(type) {
			case *ast.LabeledStmt:
				bad = true
			}
			return true
		})
		if bad {
			return nil
		}
	}
	// optional elision
	dotsCtx := map[string]string{}
	if g.R.Intn(3) == 0 {
		sites := listSites(roots, base, text)
		if len(sites) > 0 {
			ls := sites[g.R.Intn(len(sites))]
			n := len(ls.elems)
			i := g.R.Intn(n + 1)
			j := i
			if i < n && g.R.Intn(3) > 0 {
				j = i + 1 + g.R.Intn(n-i)
			}
			if nt, ok := elide(text, ls, i, j, 1); ok {
				if r2, b2, _, err := parseFragment(kind, nt); err == nil {
					text, roots, base = nt, r2, b2
					dotsCtx["1"] = ls.ctx
				}
			}
		}
	}
	w := &absWalker{base: base, src: text}
	for _, r := range roots {
		if kind == "expr" {
			w.walk(r, true, false)
		} else {
			w.walk(r, true, false)
		}
	}
	// choose metavariables
	type repl struct {
		pos, end int
		text     string
	}
	var metas []MetaVar
	var minusRepl []repl
	orig := &Fill{Meta: map[string]string{}, Runs: map[string]string{}}
	overlaps := func(rs []repl, p, e int) bool {
		for _, r := range rs {
			if p < r.end && r.pos < e {
				return true
			}
		}
		return false
	}
	nm := g.R.Intn(4)
	perm := g.R.Perm(len(w.cands))
	for _, ci := range perm {
		if len(metas) >= nm {
			break
		}
		c := w.cands[ci]
		if c.hasDots || overlaps(minusRepl, c.pos, c.end) {
			continue
		}
		if kind == "expr" && c.pos == 0 && c.end == len(text) {
			continue
		}
		if c.callOnly {
			continue
		}
		_, isIdent := c.node.(*ast.Ident)
		if isIdent && (c.text == "_" || c.text == "nil" || c.text == "true" || c.text == "false" || c.text == "iota") && g.R.Intn(3) > 0 {
			continue
		}
		var name, mk string
		switch {
		case !c.slotExpr:
			name, mk = fmt.Sprintf("I%d", len(metas)+1), "identifier"
		case isIdent && g.R.Intn(2) == 0 && !c.typ:
			name, mk = fmt.Sprintf("I%d", len(metas)+1), "identifier"
		case c.typ:
			name, mk = fmt.Sprintf("T%d", len(metas)+1), "expression"
		default:
			name, mk = fmt.Sprintf("M%d", len(metas)+1), "expression"
		}
		if _, isKV := c.node.(*ast.KeyValueExpr); isKV {
			continue
		}
		if _, isEll := c.node.(*ast.Ellipsis); isEll {
			continue
		}
		if _, isFT := c.node.(*ast.FuncType); isFT && !c.typ {
			continue
		}
		ph := "ɵ" + name
		minusRepl = append(minusRepl, repl{c.pos, c.end, ph})
		metas = append(metas, MetaVar{Name: name, Kind: mk})
		orig.Meta[name] = c.text
		// repeated metavariable: abstract the other syntactically equal occurrences too
		if g.R.Intn(2) == 0 {
			for _, o := range w.cands {
				if o.text == c.text && o.slotExpr == c.slotExpr && !overlaps(minusRepl, o.pos, o.end) && !o.callOnly &&
					reflect.TypeOf(o.node) == reflect.TypeOf(c.node) && (mk != "identifier" || true) {
					minusRepl = append(minusRepl, repl{o.pos, o.end, ph})
				}
			}
		}
	}
	apply := func(rs []repl) string {
		sort.Slice(rs, func(i, j int) bool { return rs[i].pos > rs[j].pos })
		s := text
		for _, r := range rs {
			s = s[:r.pos] + r.text + s[r.end:]
		}
		return s
	}
	// the edit of the '+' side
	var edits []cand
	for _, c := range w.cands {
		if !c.slotExpr || !c.value || c.typ {
			continue
		}
		if c.hasDots {
			continue
		}
		if kind == "expr" && c.pos == 0 && c.end == len(text) {
			continue
		}
		// the edit either contains whole metavariable spans or none of them partially
		partial := false
		for _, r := range minusRepl {
			if r.pos < c.end && c.pos < r.end && !(c.pos <= r.pos && r.end <= c.end) {
				partial = true
			}
		}
		if partial {
			continue
		}
		edits = append(edits, c)
	}
	mnames := func() []string {
		var out []string
		for _, m := range metas {
			out = append(out, "ɵ"+m.Name)
		}
		return out
	}()
	plusRepl := append([]repl(nil), minusRepl...)
	plusText := ""
	stmtEdit := kind == "stmts" && g.R.Intn(4) == 0
	if len(edits) == 0 && kind != "stmts" {
		return nil
	}
	if len(edits) == 0 {
		stmtEdit = true
	}
	minusText := apply(append([]repl(nil), minusRepl...))
	if stmtEdit {
		// add or drop a whole statement
		var args []string
		for _, m := range mnames {
			if g.R.Intn(2) == 0 && !strings.HasPrefix(m, "ɵT") {
				args = append(args, m)
			}
		}
		extra := "extra(" + strings.Join(args, ", ") + ")"
		ml := strings.Split(minusText, "\n")
		// statement boundaries = top-level statements of the fragment
		_ = ml
		plusText = minusText + "\n" + extra
		if g.R.Intn(2) == 0 {
			plusText = extra + "\n" + minusText
		}
	} else {
		e := edits[g.R.Intn(len(edits))]
		// inner text of the edit with metavariables applied
		var inner []repl
		var kept []repl
		for _, r := range plusRepl {
			if e.pos <= r.pos && r.end <= e.end {
				inner = append(inner, repl{r.pos - e.pos, r.end - e.pos, r.text})
			} else {
				kept = append(kept, r)
			}
		}
		sort.Slice(inner, func(i, j int) bool { return inner[i].pos > inner[j].pos })
		et := e.text
		for _, r := range inner {
			et = et[:r.pos] + r.text + et[r.end:]
		}
		var args []string
		for _, m := range mnames {
			if g.R.Intn(2) == 0 && !strings.HasPrefix(m, "ɵT") {
				args = append(args, m)
			}
		}
		var nt string
		switch g.R.Intn(4) {
		case 0:
			nt = "repl(" + strings.Join(args, ", ") + ")"
		case 1:
			nt = "wrap(" + et + ")"
		case 2:
			if len(args) > 0 && !e.callOnly {
				nt = args[0]
			} else {
				nt = "repl(" + et + ", 1)"
			}
		default:
			nt = "wrap(" + strings.Join(append(args, et), ", ") + ")"
		}
		if nt == et {
			return nil
		}
		kept = append(kept, repl{e.pos, e.end, nt})
		plusText = apply(kept)
	}
	conv := func(s string) string {
		s = absMetaRe.ReplaceAllString(s, "«$1»")
		return absDotsRe.ReplaceAllStringFunc(s, func(m string) string {
			id := absDotsRe.FindStringSubmatch(m)[1]
			return "‹" + id + ":" + dotsCtx[id] + "›"
		})
	}
	minusText, plusText = conv(minusText), conv(plusText)
	if minusText == plusText {
		return nil
	}
	c := &Change{Kind: kind, Schema: "abstract-" + kind, Meta: metas, OrigFill: orig}
	if given != "" {
		c.Schema = "abstract-corpus-" + kind
	}
	ml, pl := strings.Split(minusText, "\n"), strings.Split(plusText, "\n")
	// common prefix / suffix lines become context lines
	pre := 0
	for pre < len(ml) && pre < len(pl) && ml[pre] == pl[pre] {
		pre++
	}
	suf := 0
	for suf < len(ml)-pre && suf < len(pl)-pre && ml[len(ml)-1-suf] == pl[len(pl)-1-suf] {
		suf++
	}
	useCtx := g.R.Intn(3) > 0 || len(dotsCtx) > 0
	if !useCtx {
		pre, suf = 0, 0
	}
	for _, l := range ml[:pre] {
		c.Lines = append(c.Lines, L(' ', l))
	}
	for _, l := range ml[pre : len(ml)-suf] {
		c.Lines = append(c.Lines, L('-', l))
	}
	for _, l := range pl[pre : len(pl)-suf] {
		c.Lines = append(c.Lines, L('+', l))
	}
	for _, l := range ml[len(ml)-suf:] {
		c.Lines = append(c.Lines, L(' ', l))
	}
	// original run of the elision
	if len(dotsCtx) > 0 {
		// recover the run from the pre-elision text is not needed: instances draw fresh runs
	}
	if _, err := c.RefPattern(); err != nil {
		return nil
	}
	return c
}

// CorpusFragment picks a random fragment of the given kind out of real source code: an
// expression of moderate size, one to three consecutive statements of a block, or a small
// declaration. It returns "" when the file offers none.
func (g *G) CorpusFragment(kind string, src []byte) string {
	fs := token.NewFileSet()
	f, err := parser.ParseFile(fs, "c.go", src, parser.SkipObjectResolution)
	if err != nil {
		return ""
	}
	tf := fs.File(f.Pos())
	span := func(a, b token.Pos) string {
		if !a.IsValid() || !b.IsValid() {
			return ""
		}
		return string(src[tf.Offset(a):tf.Offset(b)])
	}
	var cands []string
	switch kind {
	case "expr":
		ast.Inspect(f, func(n ast.Node) bool {
			switch n.(type) {
			case *ast.CallExpr, *ast.BinaryExpr, *ast.CompositeLit, *ast.IndexExpr, *ast.SelectorExpr, *ast.UnaryExpr, *ast.SliceExpr, *ast.TypeAssertExpr, *ast.StarExpr:
				t := span(n.Pos(), n.End())
				if len(t) >= 8 && len(t) <= 160 && !strings.Contains(t, "\n") {
					cands = append(cands, t)
				}
			}
			return true
		})
	case "stmts":
		ast.Inspect(f, func(n ast.Node) bool {
			var list []ast.Stmt
			switch b := n.(type) {
			case *ast.BlockStmt:
				list = b.List
			case *ast.CaseClause:
				list = b.Body
			}
			for i := range list {
				for k := 1; k <= 3 && i+k <= len(list); k++ {
					t := span(list[i].Pos(), list[i+k-1].End())
					if len(t) >= 8 && len(t) <= 400 && strings.Count(t, "\n") <= 12 {
						cands = append(cands, t)
					}
				}
			}
			return true
		})
	default:
		for _, d := range f.Decls {
			if gd, ok := d.(*ast.GenDecl); ok && gd.Tok == token.IMPORT {
				continue
			}
			t := span(d.Pos(), d.End())
			if len(t) >= 8 && len(t) <= 500 && strings.Count(t, "\n") <= 15 {
				cands = append(cands, t)
			}
		}
	}
	if len(cands) == 0 {
		return ""
	}
	t := cands[g.R.Intn(len(cands))]
	if kind == "stmts" {
		// drop the common indentation
		ls := strings.Split(t, "\n")
		min := -1
		for _, l := range ls[1:] {
			if strings.TrimSpace(l) == "" {
				continue
			}
			n := len(l) - len(strings.TrimLeft(l, "\t"))
			if min < 0 || n < min {
				min = n
			}
		}
		for i := 1; i < len(ls) && min > 0; i++ {
			if len(ls[i]) >= min {
				ls[i] = ls[i][min:]
			}
		}
		t = strings.Join(ls, "\n")
	}
	return t
}
