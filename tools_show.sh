#!/bin/bash
# usage: tools_show.sh <replay-dir>   — print a replay compactly
d=$1
python3 -c "
import json;m=json.load(open('$d/meta.json'));print('CLASS',m['class'],'case',m['case']);print(m['detail'][:1500])"
echo "--- patch"; cat $d/p.patch 2>/dev/null
echo "--- diff in -> actual"; diff $d/in.go $d/actual.go | head -${2:-40}
